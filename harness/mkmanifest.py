"""Writes MANIFEST.json from the table below (run by hand when a check is added)."""
import json, os
HERE = os.path.dirname(os.path.abspath(__file__))
P = {}
for l in open(os.path.join(HERE, '..', 'properties.jsonl')):
    p = json.loads(l)
    P[p['id']] = p

CHECKS = {
 'C01': dict(tech='Lean 4 proof (clip lemmas, evaluation-site semantics, machine sweep lemmas) + regenerated skeleton/site obligations + run-level refinement check',
             text='Theorems: clipPos_inBox/shape for every position incl. infinite keys; site_evals_inBox (a site whose every evaluation follows a clip with no assignment in between only evaluates feasible points, for all oracle values); C01_clip_hook_sweep and C01_best_feasible on the abstract machine; regenerated obligations skel_<kind>_good (clip immediately before hook+sweep in all 17 run() methods) and evalSites_ok (all 11 objective call sites) re-proved by decide on every run. Tie: translator + bit-exact clip correspondence + machine replay of recorded runs (sweep argument = model state).',
             note='lb <= ub; hooks keep positions in the box; NaN excluded from the key model (K4, K5 recorded); per-optimizer update code tied by sampled refinement, not translated', ref='5/C01'),
 'C02': dict(tech='Lean 4 proof: invariant of the abstract optimiser machine by induction over event histories + run-level refinement check',
             text='Theorems C02_best_is_min, C02_best_evaluated, C02_best_antitone, C02_at_return over every event history the machine accepts (all objectives, random streams, sizes, iteration counts), from inv_apply/inv_run (envelope invariant). Tie: every recorded run is replayed event by event on the Lean machine and the model state is compared with the observed population/best at every tap; direct oracle on the real code.',
             note='objective deterministic and < FLOAT_MAX (K6 proved necessary: C02_sentinel_rejected); update arithmetic enters as oracle values; sampled refinement', ref='5/C02'),
 'C03': dict(tech='Lean 4 proof over regenerated run() skeletons (hook/dump/sweep counts by induction on N) + pattern correspondence + direct oracle',
             text='Theorems hook_count, dump_count, sweep_count, sweep_follows_hook, clip_precedes_hook for every skeleton satisfying Good and every N; Good is re-proved (decide +kernel) for each of the 17 run() methods regenerated from source on every run; index_draw_range over the reals. Tie: observed H/S/C/D pattern of every recorded run equals runSkel of the generated skeleton; sweep arguments equal the post-hook state in population order; budgets; no exception.',
             note='partial: liveness is proved for the control-flow skeleton; Python exceptions other than the recorded K2 K3 K4 are observed, not modelled; ABC onlooker termination assumes fair streams', ref='5/C03'),
 'C04': dict(tech='Lean 4 proof about the History model (append-only, frame, store_best_only) + record correspondence on recorded runs',
             text='Theorems dump1_appends, dump1_frame, dump1_prefix, dump_prefix, dump1_store_best_only, dump_series_length/skipped/values (exactly one record per kept key per iteration, earlier records never move). Tie: regenerated HISTORY_KEYS and dumped keys; every record of every returned History compared value for value with the live state snapshotted at dump time, prefix stability at every dump, write-through test after return.',
             note='wall clock non-decreasing (K11)', ref='5/C04'),
 'C07': dict(tech='Lean 4 proof (population length and storage identities preserved by every machine event) + run-level refinement check',
             text='Theorems apply_pop_length, run_pop_length, sweep_refs, sweep_pop_refs, trialSwap_refs, best_changes_only_in_sweep_or_swap. Tie: machine replay compares storage identities of every agent and the best at every tap; live np.shares_memory over all pairs at every hook and at return; write-through test.',
             note='observer hooks; identities observed through ndarray base objects', ref='5/C07'),
 'C12': dict(tech='Lean 4 proof about the GP sweep model + run-level refinement check on GP tasks',
             text='Theorems gpSweep_agents, gpSweep_best, gpSweep_best_le, gpSweep_inBox (agent i = clip(value(tree i)), fitness = f there, best = first minimiser below the incumbent). Tie: GP runs replayed on the machine with agent positions abstracted to clip(value(tree_i)); at every record and at return best tree value/position/fitness, per-agent agreement, detachment of the best tree and counts checked on the live objects.',
             note='finite tree values (K4); deepcopy trusted to detach', ref='5/C12'),
 'C15': dict(tech='Lean 4 proof over the reals (schedules in range / antitone, by induction over iterations) + Float-twin correspondence + frame check',
             text='Theorems aiwpsoW_mem, ihsPAR_mem, ihsBw_mem, saT_iter(_antitone), faAlpha_iter(_antitone), wcaDmax_iter(_antitone), success_count_le. Tie: the same definitions instantiated at Float reproduce the hyperparameter values observed at consecutive hooks (bit-exact; 1e-12 for bw, alpha); every non-adaptive hyperparameter compared before/at every hook/after.',
             note='partial for rounding: range claims are over the reals, IEEE excursions <= 2 ulp are the recorded K8', ref='5/C15'),
 'C20': dict(tech='Lean 4 proof (truthfulness flag invariant, greedy monitor, rank lemma) + run-level refinement check',
             text='Theorems C20_records_truthful, sweep_nonswarm_tp, sweep_truthful_same_fit, sweep_swarm_fit_le, greedy_fits_antitone, C20_greedy_agents, replaceWorst_rank_antitone, clipPos_fixed. Tie: machine replay yields the truth flag at every dump; every record re-evaluated with the objective; per-agent / per-rank comparisons over consecutive records.',
             note='deterministic objective; K1 (WCA rains after the sweep) recorded', ref='5/C20'),
}


def main():
    checks = []
    na = []
    for pid in sorted(P):
        if pid in CHECKS:
            c = CHECKS[pid]
            checks.append(dict(property_id=pid, quick_cmd=f'./check {pid} quick', thorough_cmd=f'./check {pid} thorough',
                               evidence_file=f'evidence/{pid}.json', replay_cmd_template='./check replay {path}',
                               engine='lean-proof+correspondence',
                               level_claimed=dict(category='proof', text=c['text'], design_ref='DESIGN.md section ' + c['ref']),
                               level_note=c['note'], technique=c['tech']))
        else:
            na.append(dict(property_id=pid, reason='check under construction in this session (theorems exist in lean/, harness module not yet registered)'))
    m = dict(version=1,
             setup_cmd='cd lean && /venv/bin/python ../harness/translate.py && lake build OpyVerif.All driver',
             hooks=dict(guard='OPYTIMIZER_VERIF', enable='no source hooks: all observation is by monkey-patching from the harness process',
                        baseline_off_cmd='cd /repo && /venv/bin/python -m pytest -q -p no:cacheprovider --timeout=900 --continue-on-collection-errors',
                        source_commits=[], add_only=True),
             engines=[dict(name='lean-proof+correspondence', path='check', serves_properties=sorted(CHECKS),
                           kind_free_text='Lean 4 theorems about executable models (lean/OpyVerif), tied to /repo by a regenerating translator (harness/translate.py) and by differential correspondence through a compiled Lean driver (lean/Driver.lean)')],
             checks=checks, not_applicable=na,
             notes='All checks: ./check <id> quick|thorough (cwd /verif). Known findings: known_findings.json. See DESIGN.md.')
    json.dump(m, open(os.path.join(HERE, '..', 'MANIFEST.json'), 'w'), indent=1)


if __name__ == '__main__':
    main()
