"""Known findings: signatures (does an observed issue belong to a recorded finding?) and witness
replays.  The list itself is /verif/known_findings.json (never written at run time)."""
import json, os
from common import VERIF


def load():
    return json.load(open(os.path.join(VERIF, 'known_findings.json')))


def nsr_of(cfg):
    return cfg.get('hyper', {}).get('nsr', 2)


def sig_K1(prop, cfg, issue):
    return (prop == 'C20' and cfg.get('kind') == 'WCA' and issue.get('what') == 'untruthful-record'
            and issue.get('agent', -1) >= nsr_of(cfg))


def _frames(issue):
    return [f[1] for f in (issue.get('error') or {}).get('frames', [])]


def sig_K2(prop, cfg, issue):
    return (prop == 'C03' and cfg.get('kind') == 'WCA' and issue.get('what') == 'exception'
            and any(f in ('_flow_intensity', '_update_stream') for f in _frames(issue)))


def sig_K3(prop, cfg, issue):
    return (prop == 'C03' and cfg.get('kind') == 'BHA' and issue.get('what') == 'exception'
            and issue['error']['type'] == 'ZeroDivisionError' and '_event_horizon' in _frames(issue))


def sig_K4(prop, cfg, issue):
    if cfg.get('kind') != 'GP':
        return False
    if prop == 'C01' and issue.get('what') in ('eval-nonfinite', 'best-infeasible') and issue.get('tree_nan'):
        return True
    if prop == 'C03' and issue.get('what') == 'exception' and 'tournament_selection' in _frames(issue):
        return True
    return False


def sig_K5(prop, cfg, issue):
    return (prop == 'C01' and cfg.get('kind') == 'RPSO' and issue.get('what') in ('eval-nonfinite', 'best-infeasible')
            and issue.get('velocity_ge_c'))


def sig_K8(prop, cfg, issue):
    return (prop == 'C15' and cfg.get('kind') == 'AIWPSO' and issue.get('what') == 'rounding-excursion'
            and issue.get('name') == 'w')


def sig_K18(prop, cfg, issue):
    return (prop == 'C03' and cfg.get('kind') == 'SA' and issue.get('what') == 'exception' and cfg.get('rettype') == 'py'
            and issue['error']['type'] == 'ZeroDivisionError' and '_update' in _frames(issue))


SIGS = {'K18': sig_K18, 'K1': sig_K1, 'K2': sig_K2, 'K3': sig_K3, 'K4': sig_K4, 'K5': sig_K5, 'K8': sig_K8}


def classify(prop, cfg, issue):
    """-> finding id or None"""
    listed = {f['id'] for f in load()['findings']}
    for k, fn in SIGS.items():
        if k in listed:
            try:
                if fn(prop, cfg, issue):
                    return k
            except Exception:
                pass
    return None


def for_property(prop):
    return [f for f in load()['findings'] if prop in f.get('properties', [f.get('property')])]


def sig_K6(prop, cfg, issue):
    return prop in ('C01', 'C02') and cfg.get('objective') == 'fmax'


SIGS['K6'] = sig_K6


def sig_K13(prop, cfg, issue):
    """only the records that pair a fitness with the all-zero never-evaluated personal-best slot, on a reused space"""
    pos = issue.get('position')
    def zeros(x):
        return all(zeros(y) for y in x) if isinstance(x, list) else x == 0
    return (prop == 'C20' and (cfg.get('prior') or {}).get('same_space') and cfg.get('kind') in ('PSO', 'AIWPSO', 'RPSO')
            and issue.get('what') == 'untruthful-record' and pos is not None and zeros(pos))


SIGS['K13'] = sig_K13


def sig_K14(prop, cfg, issue):
    """only the best agent left over from an earlier task with another objective, while it is still the reported best"""
    pr = cfg.get('prior') or {}
    return (prop == 'C02' and pr.get('same_space') and pr.get('other_objective')
            and (issue.get('what') == 'inherited-best-untruthful' or (issue.get('what') == 'best-not-min' and issue.get('stale_inherited'))))


SIGS['K14'] = sig_K14


# ------------------------------------------------------------------------------ witnesses
def direct_k7_span(args):
    import lib
    L = lib.load()
    np = L['np']
    import opytimizer.math.hypercomplex as hc
    out = hc.span(np.ones((len(args['lb']), args['d'])), args['lb'], args['ub'])
    fails = bool(np.any(out > np.asarray(args['ub'])))
    return fails, dict(span=out.tolist(), ub=args['ub'])


def direct_k8_aiwpso(args):
    import lib
    L = lib.load()
    np = L['np']
    opt = L['kinds']['AIWPSO'](hyperparams={'w_min': args['w_min'], 'w_max': args['w_max']})
    agents = [L['Agent']() for _ in range(args['n'])]
    for a in agents:
        a.fit = 1.0
    fitness = np.full(args['n'], 2.0)
    opt._compute_success(agents, fitness)
    return bool(opt.w > opt.w_max), dict(w=opt.w, w_max=opt.w_max)


def direct_k9_nan(args):
    import lib
    L = lib.load()
    opt = L['kinds'][args['cls']]()
    try:
        setattr(opt, args['attr'], float('nan'))
        v = getattr(opt, args['attr'])
        return bool(v != v), dict(stored=repr(v))
    except Exception as ex:
        return False, dict(raised=type(ex).__name__)


def direct_k10_pointer(args):
    import lib
    L = lib.load()
    try:
        L['Function'](pointer=lambda: 0.0)
        return True, dict(accepted='lambda: 0.0')
    except Exception as ex:
        return False, dict(raised=type(ex).__name__)


def direct_k10_node(args):
    import lib
    L = lib.load()
    n = L['Node'](name='SUM', type='FUNCTION')
    try:
        n.left = 0
        return n.left == 0 and not isinstance(n.left, L['Node']), dict(stored=repr(n.left))
    except Exception as ex:
        return False, dict(raised=type(ex).__name__)


def direct_k10_opytimizer(args):
    import lib
    L = lib.load()
    try:
        L['Opytimizer'](space=None, optimizer=None, function=None)
        return False, dict(accepted=True)
    except L['e'].BuildError:
        return False, dict(raised='BuildError')
    except AttributeError:
        return True, dict(raised='AttributeError')
    except Exception as ex:
        return True, dict(raised=type(ex).__name__)


def direct_k11_clock(args):
    import lib, time as _t
    L = lib.load()
    np = L['np']
    sp = L['SearchSpace'](n_agents=2, n_variables=1, n_iterations=1, lower_bound=[0], upper_bound=[1])
    task = L['Opytimizer'](space=sp, optimizer=L['kinds']['PSO'](), function=L['Function'](pointer=lambda x: float(np.sum(x))))
    import opytimizer.opytimizer as om
    real = om.time.time
    ticks = iter([1000.0, 999.0])
    om.time.time = lambda: next(ticks, 999.0)
    try:
        h = task.start()
    finally:
        om.time.time = real
    return bool(h.time[0] < 0), dict(time=h.time)


def direct_k12_repro(args):
    import lib
    L = lib.load()
    np = L['np']
    n = len(args['fitness'])
    np.random.seed(0)
    sp = L['TreeSpace'](n_trees=n, n_terminals=2, n_variables=1, n_iterations=1, min_depth=1, max_depth=2,
                        functions=['SUM'], lower_bound=[0], upper_bound=[1])
    for a, f in zip(sp.agents, args['fitness']):
        a.fit = f
    ids_before = [id(t) for t in sp.trees]
    gp = L['kinds']['GP'](hyperparams={'p_reproduction': 0.5})
    gp._reproduction(sp)
    replaced = [i for i, t in enumerate(sp.trees) if id(t) != ids_before[i]]
    # two winners, but a single slot (the last) is overwritten twice
    return bool(len(replaced) == 1), dict(replaced=replaced, expected_if_k_worst=2)


def direct_k15_mutate(args):
    """a tree straight out of TreeSpace (its terminals are the space's terminal arrays) is mutated: the parent's value
    before and after the call"""
    import lib
    L = lib.load()
    np = L['np']
    np.random.seed(args.get('seed', 3))
    sp = L['TreeSpace'](n_trees=3, n_terminals=2, n_variables=2, n_iterations=1, min_depth=2, max_depth=4,
                        functions=['SUM', 'MUL'], lower_bound=[0, 0], upper_bound=[10, 10])
    gp = L['kinds']['GP']()
    t = sp.trees[0]
    before = np.array(t.position, copy=True)
    other = np.array(sp.trees[1].position, copy=True)
    gp._mutate(sp, t, t.n_nodes)
    changed = not np.array_equal(before, t.position, equal_nan=True)
    return bool(changed), dict(parent_before=before.tolist(), parent_after=np.asarray(t.position).tolist(),
                               bystander_changed=not np.array_equal(other, sp.trees[1].position, equal_nan=True))


DIRECT = {'k15_mutate': direct_k15_mutate, 'k7_span': direct_k7_span, 'k8_aiwpso': direct_k8_aiwpso, 'k9_nan': direct_k9_nan,
          'k10_pointer': direct_k10_pointer, 'k10_node': direct_k10_node, 'k10_opytimizer': direct_k10_opytimizer,
          'k11_clock': direct_k11_clock, 'k12_repro': direct_k12_repro}


def replay_witness(f, prop, driver=None):
    """-> (still_fails, detail)"""
    w = f['witness']
    if w['type'] == 'direct':
        return DIRECT[w['name']](w.get('args', {}))
    if w['type'] == 'runlevel':
        import runpass, common
        own = driver is None
        drv = driver or common.Driver()
        try:
            r = runpass.analyse_run(w['cfg'], drv, props=[w['expect']['prop']])
        finally:
            if own:
                drv.close()
        iss = [i for i in r['issues'][w['expect']['prop']] if i['what'] == w['expect']['what']]
        return bool(iss), dict(issues=len(iss), first=iss[0] if iss else None)
    return False, dict(error='unknown witness type')


def sig_K16(prop, cfg, issue):
    return (prop == 'C15' and cfg.get('kind') == 'IHS' and (cfg.get('hyper') or {}).get('bw_min') == 0
            and issue.get('what') == 'out-of-range' and issue.get('name') == 'bw' and str(issue.get('value')) == 'nan')


SIGS['K16'] = sig_K16


def sig_K19(prop, cfg, issue):
    return (prop == 'C15' and cfg.get('kind') == 'IHS' and cfg.get('hook') == 'reiter'
            and int(cfg.get('reiter_n', 10 ** 9)) < int(cfg.get('n_iter', 0))
            and issue.get('what') == 'out-of-range' and issue.get('name') in ('PAR', 'bw'))


SIGS['K19'] = sig_K19


def sig_K17(prop, cfg, issue):
    return (prop == 'C02' and cfg.get('kind') == 'BHA' and cfg.get('objective') == 'bufout'
            and issue.get('what') in ('best-not-min', 'best-increased', 'history-best-increased', 'best-pos-not-evaluated',
                                      'light-best-not-min', 'light-record-best-not-min', 'light-best-pos-not-evaluated'))


SIGS['K17'] = sig_K17
