"""Known findings: signatures (does an observed issue belong to a recorded finding?) and witness
replays.  The list itself is /verif/known_findings.json (never written at run time)."""
import json, os
from common import VERIF


def load():
    return json.load(open(os.path.join(VERIF, 'known_findings.json')))


def nsr_of(cfg):
    return cfg.get('hyper', {}).get('nsr', 2)


def sig_K1(prop, cfg, issue):
    return (prop == 'C20' and cfg.get('kind') == 'WCA' and issue.get('what') == 'untruthful-record'
            and issue.get('agent', -1) >= nsr_of(cfg))


def _frames(issue):
    return [f[1] for f in (issue.get('error') or {}).get('frames', [])]


def sig_K2(prop, cfg, issue):
    return (prop == 'C03' and cfg.get('kind') == 'WCA' and issue.get('what') == 'exception'
            and any(f in ('_flow_intensity', '_update_stream') for f in _frames(issue)))


def sig_K3(prop, cfg, issue):
    return (prop == 'C03' and cfg.get('kind') == 'BHA' and issue.get('what') == 'exception'
            and issue['error']['type'] == 'ZeroDivisionError' and '_event_horizon' in _frames(issue))


def sig_K4(prop, cfg, issue):
    if cfg.get('kind') != 'GP':
        return False
    if prop == 'C01' and issue.get('what') in ('eval-nonfinite', 'best-infeasible') and issue.get('tree_nan'):
        return True
    if prop == 'C03' and issue.get('what') == 'exception' and 'tournament_selection' in _frames(issue):
        return True
    return False


def sig_K5(prop, cfg, issue):
    return (prop == 'C01' and cfg.get('kind') == 'RPSO' and issue.get('what') in ('eval-nonfinite', 'best-infeasible')
            and issue.get('velocity_ge_c'))


def sig_K8(prop, cfg, issue):
    return (prop == 'C15' and cfg.get('kind') == 'AIWPSO' and issue.get('what') == 'rounding-excursion'
            and issue.get('name') == 'w')


SIGS = {'K1': sig_K1, 'K2': sig_K2, 'K3': sig_K3, 'K4': sig_K4, 'K5': sig_K5, 'K8': sig_K8}


def classify(prop, cfg, issue):
    """-> finding id or None"""
    listed = {f['id'] for f in load()['findings']}
    for k, fn in SIGS.items():
        if k in listed:
            try:
                if fn(prop, cfg, issue):
                    return k
            except Exception:
                pass
    return None


def for_property(prop):
    return [f for f in load()['findings'] if prop in f.get('properties', [f.get('property')])]
