"""Behaviour-preserving changes (harmless refactorings written by sub-agents): validation and quietness run.

usage: harmless.py collect <root>     # <root>/<Cxx>/harmless{A,B,C}/{patch.diff,same.py,meta.json} -> /verif/harmless_set/<Cxx>_<n>/
       harmless.py run [-j N] [ids…]  # apply each to a scratch worktree and run the checks of its property there
A patch is kept only if the whole suite passes with it and same.py prints the same digest with and without it.
The run records, per patch, whether the property's quick check stayed quiet (exit 0), reported
`no-failing-input-found` (a proof/correspondence obligation broke on a harmless rewrite), or claimed a failing
input (a false alarm that must be corrected).
"""
import json, os, shutil, subprocess, sys
from concurrent.futures import ThreadPoolExecutor
sys.path.insert(0, os.path.dirname(os.path.abspath(__file__)))
import mutants

SET = '/verif/harmless_set'


def sh(cmd, cwd=None, env=None, timeout=1800):
    p = subprocess.run(cmd, shell=True, cwd=cwd, env=env, capture_output=True, text=True, timeout=timeout)
    return p.returncode, (p.stdout + p.stderr)


def digest(out):
    ls = [l for l in out.splitlines() if l.strip() and 'conda' not in l.lower()]
    return ls[-1].strip() if ls else ''


def validate(wt, prop):
    env = dict(os.environ, PYTHONPATH=wt)
    sh('git checkout -- opytimizer', cwd=wt)
    out = []
    for sd in sorted(d for d in os.listdir(wt) if d.startswith('harmless') and os.path.isdir(os.path.join(wt, d))):
        res = dict(property=prop, dir=sd)
        try:
            rc0, o0 = sh(f'/venv/bin/python {sd}/same.py', cwd=wt, env=env, timeout=600)
            rc, o = sh(f'git apply {sd}/patch.diff', cwd=wt)
            if rc != 0:
                res['error'] = 'patch does not apply'
                out.append(res)
                continue
            try:
                for attempt in range(3):
                    rc, o = sh('/venv/bin/python -m pytest -q -p no:cacheprovider --timeout=900 --continue-on-collection-errors 2>&1 | tail -3', cwd=wt, env=env)
                    res['tests'] = o.strip().splitlines()[-1] if o.strip() else ''
                    if 'failed' not in res['tests'] and 'error' not in res['tests']:
                        break
                rc1, o1 = sh(f'/venv/bin/python {sd}/same.py', cwd=wt, env=env, timeout=600)
            finally:
                sh('git checkout -- opytimizer', cwd=wt)
            res['digest_clean'], res['digest_changed'] = digest(o0), digest(o1)
            res['confirmed'] = (rc0 == 0 and rc1 == 0 and res['digest_clean'] == res['digest_changed'] and res['digest_clean'] != ''
                                and 'passed' in res['tests'] and 'failed' not in res['tests'])
        except Exception as ex:
            res['error'] = repr(ex)
        out.append(res)
    return out


def collect(root, only=None):
    """directories named Cxx hold patches for that property; other directories need <root>/map.json
    {dir: {harmlessK: Cxx}} naming the property whose anchored code each patch touches"""
    pmap = json.load(open(os.path.join(root, 'map.json'))) if os.path.exists(os.path.join(root, 'map.json')) else {}
    props = sorted(d for d in os.listdir(root) if os.path.isdir(os.path.join(root, d)) and (d.startswith('C') or d in pmap) and (not only or d in only))
    with ThreadPoolExecutor(8) as ex:
        results = list(ex.map(lambda p: (p, validate(os.path.join(root, p), p)), props))
    os.makedirs(SET, exist_ok=True)
    for dname, rs in results:
        for res in rs:
            prop = pmap.get(dname, {}).get(res['dir'], dname)
            res['property'] = prop
            if not res.get('confirmed'):
                print(prop, res['dir'], 'NOT CONFIRMED', json.dumps(res)[:400])
                continue
            n = 1
            while os.path.exists(f'{SET}/{prop}_{n}'):
                n += 1
            dest = f'{SET}/{prop}_{n}'
            src = os.path.join(root, dname, res['dir'])
            # skip duplicates of an already collected patch
            patch = open(os.path.join(src, 'patch.diff')).read()
            if any(os.path.exists(f'{SET}/{d}/patch.diff') and open(f'{SET}/{d}/patch.diff').read() == patch for d in os.listdir(SET)):
                continue
            os.makedirs(dest)
            shutil.copy(os.path.join(src, 'patch.diff'), dest)
            shutil.copy(os.path.join(src, 'same.py'), dest)
            meta = {}
            try:
                meta = json.load(open(os.path.join(src, 'meta.json')))
            except Exception:
                pass
            meta.update(property=prop, confirmed=dict(tests=res['tests'], digest=res['digest_clean']))
            json.dump(meta, open(os.path.join(dest, 'meta.json'), 'w'), indent=1)
            print(prop, res['dir'], 'kept as', dest)


ALL_PROPS = ['C%02d' % k for k in range(1, 21)]


def run_all(ids, j):
    """every patch against every property: which obligations / checks of *other* properties does a harmless change touch?"""
    ids = ids or sorted(os.listdir(SET))
    tally = {}

    def one(i):
        return i, mutants.one('ha_' + i, patch=f'{SET}/{i}/patch.diff', props=ALL_PROPS)[1]
    with ThreadPoolExecutor(j) as ex:
        for i, out in ex.map(one, ids):
            row = {}
            for p_, r in out.items():
                if not isinstance(r, dict):
                    continue
                v = 'quiet' if r.get('exit') == 0 else (r.get('how') or f"exit={r.get('exit')}")
                if v != 'quiet':
                    row[p_] = (v, r.get('what'))
                tally[v] = tally.get(v, 0) + 1
            print(i, row or 'all quiet', flush=True)
    print(tally)


def run(ids, j):
    ids = ids or sorted(os.listdir(SET))
    tally = {}

    def one(i):
        meta = json.load(open(f'{SET}/{i}/meta.json'))
        return i, meta, mutants.one('h_' + i, patch=f'{SET}/{i}/patch.diff', props=[meta['property']])[1]
    with ThreadPoolExecutor(j) as ex:
        for i, meta, out in ex.map(one, ids):
            r = out.get(meta['property'], out)
            verdict = 'quiet' if r.get('exit') == 0 else (r.get('how') or f"exit={r.get('exit')} {out.get('error', '')}")
            meta['last_run'] = dict(verdict=verdict, what=r.get('what'), line=r.get('line'))
            json.dump(meta, open(f'{SET}/{i}/meta.json', 'w'), indent=1)
            tally[verdict] = tally.get(verdict, 0) + 1
            print(i, meta.get('kind'), verdict, r.get('what') if verdict != 'quiet' else '', '|', meta.get('title', '')[:90], flush=True)
    print(tally)


if __name__ == '__main__':
    if sys.argv[1] == 'collect':
        collect(sys.argv[2], sys.argv[3:])
    else:
        a = sys.argv[2:]
        j = 8
        if a[:1] == ['-j']:
            j = int(a[1]); a = a[2:]
        if sys.argv[1] == 'runall':
            run_all(a, j)
        else:
            run(a, j)
