"""Helpers for component (functional-correspondence) checks."""
import json, random
import common


class Comp:
    def __init__(self, ctx, rule, assumptions=()):
        self.ctx = ctx
        self.rule = rule
        self.assumptions = list(assumptions)
        self.cases = 0
        self.nontrivial = set()
        self.issues = []
        self.samples = []
        self.dist = {}
        self.rng = random.Random(ctx['seed'] * 104729 + (17 if ctx['tier'] == 'quick' else 91))
        self.exhaustive = False
        self.extra = {}

    def case(self, key=None, nontrivial=False, sample=None, kind=None):
        self.cases += 1
        if nontrivial and key is not None:
            self.nontrivial.add(key if isinstance(key, (str, int, tuple)) else json.dumps(key, sort_keys=True, default=str))
        if kind is not None:
            self.dist[kind] = self.dist.get(kind, 0) + 1
        if sample is not None and len(self.samples) < 4 and (nontrivial or not self.samples):
            self.samples.append(sample)

    def issue(self, what, layer, replay, **kw):
        known = kw.get('known')
        n_known = sum(1 for i in self.issues if i.get('known'))
        n_this = sum(1 for i in self.issues if i.get('known') == known) if known else 0
        # new issues are capped per (kind of issue, layer): a flood of one correspondence mismatch must not
        # hide a direct failing input found later
        n_new = sum(1 for i in self.issues if not i.get('known') and i['what'] == what and i['layer'] == layer)
        if (known and n_this < 8) or (not known and n_new < 12):
            d = dict(what=what, layer=layer, replay=replay)
            d.update(kw)
            self.issues.append(d)

    def result(self):
        cov = dict(evaluations=self.cases, distinct_nontrivial=len(self.nontrivial), rule=self.rule,
                   samples=self.samples or ['(none)'], input_distribution=self.dist, exhaustive=self.exhaustive)
        cov.update(self.extra)
        return dict(issues=self.issues, coverage=cov, assumptions=self.assumptions)
