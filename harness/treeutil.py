"""Expression-tree helpers shared by C08 C09 C10 C11: shape enumeration, building real Node trees,
canonical forms, Python reference oracles."""
import itertools
import lib

OPS = ['SUM', 'SUB', 'MUL', 'DIV', 'EXP', 'SQRT', 'LOG', 'ABS', 'SIN', 'COS']
BIN = OPS[:4]
UN = OPS[4:]


def shapes_upto(d):
    """all shapes over leaf / unary / binary nodes of depth <= d"""
    if d == 0:
        return ['L']
    sub = shapes_upto(d - 1)
    return ['L'] + [('U', s) for s in sub] + [('B', a, b) for a in sub for b in sub]


def shape_size(s):
    if s == 'L':
        return 1
    return 1 + sum(shape_size(c) for c in s[1:])


def shape_depth(s):
    if s == 'L':
        return 0
    return 1 + max(shape_depth(c) for c in s[1:])


def labellings(s, un_ops=UN, bin_ops=BIN):
    """every assignment of operators to the function nodes of a shape (pre-order lists)"""
    if s == 'L':
        yield []
        return
    if s[0] == 'U':
        for op in un_ops:
            for rest in labellings(s[1], un_ops, bin_ops):
                yield [op] + rest
    else:
        for op in bin_ops:
            for l in labellings(s[1], un_ops, bin_ops):
                for r in labellings(s[2], un_ops, bin_ops):
                    yield [op] + l + r


def build(shape, ops=None, terminals=None, term_ids=None):
    """real Node tree of the given shape; `ops` = operator names in pre-order (default ABS / SUM);
    terminal k (pre-order among leaves) holds terminals[k % len] with name term_ids[k % len]"""
    L = lib.load()
    Node, np = L['Node'], L['np']
    ops = list(ops) if ops is not None else None
    counter = {'leaf': 0, 'op': 0}
    if terminals is None:
        terminals = [np.array([[0.5]])]
    if term_ids is None:
        term_ids = list(range(len(terminals)))

    def go(s):
        if s == 'L':
            k = counter['leaf']
            counter['leaf'] += 1
            return Node(name=term_ids[k % len(terminals)], type='TERMINAL', value=terminals[k % len(terminals)])
        if ops is not None:
            op = ops[counter['op']]
        else:
            op = 'ABS' if s[0] == 'U' else 'SUM'
        counter['op'] += 1
        n = Node(name=op, type='FUNCTION')
        kids = [go(c) for c in s[1:]]
        n.left = kids[0]
        kids[0].parent = n
        if len(kids) > 1:
            n.right = kids[1]
            kids[1].flag = False
            kids[1].parent = n
        return n
    return go(shape)


def walk(root):
    """pre-order over left/right of the object graph; stops at repeated objects"""
    out, seen, stack = [], set(), [root]
    dup = False
    while stack:
        n = stack.pop()
        if n is None:
            continue
        if id(n) in seen:
            dup = True
            continue
        seen.add(id(n))
        out.append(n)
        stack.append(n.right)
        stack.append(n.left)
    return out, dup


def enc_tree(root, base=0, name_code=None):
    """driver encoding with identities = base + pre-order index"""
    nodes, dup = walk(root)
    if dup:
        return None
    idx = {id(n): base + i for i, n in enumerate(nodes)}

    def code(n):
        if n.type == 'TERMINAL':
            return int(n.name)
        return OPS.index(n.name) if n.name in OPS else 99

    def go(n):
        if n is None:
            return '_'
        par = -1 if n.parent is None else idx.get(id(n.parent), 999999)
        t = 1 if n.type == 'TERMINAL' else 0
        arr = int(n.name) + 1 if n.type == 'TERMINAL' else 0
        return f'N:{idx[id(n)]}:{t}:{code(n)}:{arr}:{par}:{1 if n.flag else 0}/{go(n.left)}/{go(n.right)}'
    return go(root)


def canon(root):
    """canonical form up to renaming (same format the driver prints)"""
    nodes, dup = walk(root)
    if dup:
        return 'DUP'
    idx = {id(n): i for i, n in enumerate(nodes)}

    def code(n):
        if n.type == 'TERMINAL':
            return int(n.name)
        return OPS.index(n.name) if n.name in OPS else 99

    def go(n):
        if n is None:
            return '_'
        par = -1 if n.parent is None else idx.get(id(n.parent), -2)
        t = 1 if n.type == 'TERMINAL' else 0
        arr = int(n.name) + 1 if n.type == 'TERMINAL' else 0
        return f'N:{idx[id(n)]}:{t}:{code(n)}:{arr}:{par}:{1 if n.flag else 0}/{go(n.left)}/{go(n.right)}'
    return go(root)


def reoffset(canon_str, base):
    """shift every identity / parent index of a canonical encoding by `base`"""
    out = []
    for tok in canon_str.split('/'):
        if tok == '_':
            out.append(tok)
            continue
        f = tok.split(':')
        f[1] = str(int(f[1]) + base)
        if int(f[5]) >= 0:
            f[5] = str(int(f[5]) + base)
        out.append(':'.join(f))
    return '/'.join(out)


def wf_oracle(root, n_vars=None, n_dims=None):
    """Python reference for C08 well-formedness; -> list of defects"""
    L = lib.load()
    np = L['np']
    c = L['c']
    defects = []
    nodes, dup = walk(root)
    if dup:
        defects.append('node reachable twice')
    if root.parent is not None:
        defects.append('root has a parent')
    for n in nodes:
        if n.type == 'TERMINAL':
            if n.left is not None or n.right is not None:
                defects.append('terminal with children')
            if not isinstance(n.value, np.ndarray):
                defects.append('terminal without array')
            elif n_vars is not None and tuple(n.value.shape) != (n_vars, n_dims):
                defects.append(f'terminal shape {n.value.shape}')
        else:
            ar = c.N_ARGS_FUNCTION.get(n.name)
            if ar == 1 and not (n.left is not None and n.right is None):
                defects.append(f'unary {n.name} arity')
            elif ar == 2 and not (n.left is not None and n.right is not None):
                defects.append(f'binary {n.name} arity')
            elif ar not in (1, 2):
                defects.append(f'unknown function {n.name}')
        for side, ch in ((True, n.left), (False, n.right)):
            if ch is not None:
                if ch.parent is not n:
                    defects.append('child.parent is not node')
                if ch.flag is not side:
                    defects.append('child.flag is not side')
    return defects


def ref_props(root):
    def size(n): return 0 if n is None else 1 + size(n.left) + size(n.right)
    def leaves(n):
        if n is None: return 0
        if n.left is None and n.right is None: return 1
        return leaves(n.left) + leaves(n.right)
    def depths(n, d, acc):
        if n is None: return
        if n.left is None and n.right is None: acc.append(d)
        depths(n.left, d + 1, acc); depths(n.right, d + 1, acc)
    acc = []
    depths(root, 0, acc)
    return dict(n_nodes=size(root), n_leaves=leaves(root), min_depth=min(acc), max_depth=max(acc))


def ref_pre(n):
    return [] if n is None else [n] + ref_pre(n.left) + ref_pre(n.right)


def ref_post(n):
    return [] if n is None else ref_post(n.left) + ref_post(n.right) + [n]


def ref_find(root, p):
    """definition of find_node for p >= 1 by structure (no stored links)"""
    pre = ref_pre(root)
    if p >= len(pre):
        return ('noslot',)
    par = {}
    for n in pre:
        for side, ch in ((True, n.left), (False, n.right)):
            if ch is not None:
                par[id(ch)] = (n, side)
    node = pre[p]
    if node.type == 'TERMINAL':
        if id(node) in par:
            q, s = par[id(node)]
            return ('slot', id(q), s)
        return ('noslot',)
    if id(node) not in par:
        return ('error',)
    q, _ = par[id(node)]
    if id(q) in par:
        g, s = par[id(q)]
        return ('slot', id(g), s)
    return ('noslot',)
