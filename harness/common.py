"""Shared machinery: paths, seeds, the Lean driver process, key embedding, build + axiom audit,
evidence and replay files, known findings."""
import fcntl, json, os, re, struct, subprocess, sys, threading, time, random, shutil

HERE = os.path.dirname(os.path.abspath(__file__))
VERIF = os.path.dirname(HERE)
LEAN = os.path.join(VERIF, 'lean')
REPO = os.environ.get('VERIF_REPO', '/repo')
WORK = os.path.join(VERIF, '.work')
EVID = os.path.join(VERIF, 'evidence')
REPLAYS = os.path.join(VERIF, 'replays')
DRIVER = os.path.join(LEAN, '.lake', 'build', 'bin', 'driver')
ALLOWED_AXIOMS = {'propext', 'Classical.choice', 'Quot.sound'}
SEED = int(os.environ.get('VERIF_SEED', '0') or 0)


def clean_out(s):
    return '\n'.join(l for l in s.splitlines() if 'conda' not in l.lower() or 'warning' not in l.lower())


# ----------------------------------------------------------------------------- keys
def fbits(x):
    return struct.unpack('<Q', struct.pack('<d', float(x)))[0]


def fkey(x):
    """order-isomorphic integer key of a non-NaN double (−0.0 ↦ 0)"""
    x = float(x)
    if x != x:
        raise ValueError('NaN has no key')
    b = fbits(x)
    return b if b < (1 << 63) else -(b & ((1 << 63) - 1))


def key2f(k):
    b = k if k >= 0 else ((-k) | (1 << 63))
    return struct.unpack('<d', struct.pack('<Q', b))[0]


def bits2f(b):
    return struct.unpack('<d', struct.pack('<Q', int(b)))[0]


def enc_ints(l):
    l = list(l)
    return ','.join(str(int(v)) for v in l) if l else '-'


def enc_keys(row):
    return enc_ints(fkey(v) for v in row)


def enc_pos(arr):
    """2-D array of doubles -> key matrix"""
    rows = [enc_keys(r) for r in arr]
    return ';'.join(rows) if rows else '-'


def enc_pop(arrs):
    arrs = list(arrs)
    return '|'.join(enc_pos(a) for a in arrs) if arrs else '-'


def dec_ints(s):
    return [] if s == '-' else [int(v) for v in s.split(',')]


def dec_pos(s):
    return [] if s == '-' else [dec_ints(r) for r in s.split(';')]


def enc_bits(l):
    l = list(l)
    return ','.join(str(fbits(v)) for v in l) if l else '-'


def dec_bits(s):
    return [] if s == '-' else [bits2f(v) for v in s.split(',')]


def ulp_diff(a, b):
    """distance in units of least precision between two doubles (inf if NaN mismatch)"""
    if a != a or b != b:
        return 0 if (a != a and b != b) else float('inf')
    return abs(fkey(a) - fkey(b))


# ----------------------------------------------------------------------------- driver
class Driver:
    def __init__(self):
        if os.path.exists(DRIVER):
            cmd = [DRIVER]
        else:  # fallback: interpret
            cmd = ['lake', 'env', 'lean', '--run', 'Driver.lean']
        self.p = subprocess.Popen(cmd, cwd=LEAN, stdin=subprocess.PIPE, stdout=subprocess.PIPE,
                                  text=True, bufsize=1)
        self.n = 0

    def ask(self, line):
        self.p.stdin.write(line + '\n')
        self.p.stdin.flush()
        self.n += 1
        out = self.p.stdout.readline()
        if not out:
            raise RuntimeError('driver died on: ' + line[:200])
        return out.rstrip('\n')

    def ask_many(self, lines):
        lines = list(lines)
        res = []

        def writer():
            for l in lines:
                self.p.stdin.write(l + '\n')
            self.p.stdin.flush()
        t = threading.Thread(target=writer)
        t.start()
        for _ in lines:
            out = self.p.stdout.readline()
            if not out:
                raise RuntimeError('driver died')
            res.append(out.rstrip('\n'))
        t.join()
        self.n += len(lines)
        return res

    def close(self):
        try:
            self.p.stdin.close()
            self.p.wait(timeout=5)
        except Exception:
            self.p.kill()


# ----------------------------------------------------------------------------- build + audit
class BuildResult:
    def __init__(self):
        self.ok = True
        self.errors = []      # (module, message)
        self.log = ''
        self.changed = []
        self.tables = None


def _lock():
    os.makedirs(WORK, exist_ok=True)
    f = open(os.path.join(WORK, 'lock'), 'w')
    fcntl.flock(f, fcntl.LOCK_EX)
    return f


def build(targets=('OpyVerif.All', 'driver')):
    """regenerate the Generated/*.lean files from /repo and (incrementally) rebuild"""
    sys.path.insert(0, HERE)
    import translate
    res = BuildResult()
    lock = _lock()
    try:
        try:
            res.tables = translate.run()
            res.changed = res.tables['changed']
        except Exception as ex:  # the source no longer parses the way the translator expects
            res.ok = False
            res.errors.append(('translator', repr(ex)))
            return res
        p = subprocess.run(['lake', 'build'] + list(targets), cwd=LEAN, capture_output=True, text=True)
        res.log = clean_out(p.stdout + p.stderr)
        if p.returncode != 0:
            res.ok = False
            for m in re.finditer(r'error: (OpyVerif/[\w/]+\.lean):(\d+):(\d+): (.*?)(?=\n(?:error|warning|info|✖|✔|ℹ|⚠|Some required)|\Z)', res.log, re.S):
                res.errors.append((m.group(1), f'{m.group(1)}:{m.group(2)}: {m.group(4).strip()[:600]}'))
            if not res.errors:
                res.errors.append(('lake', res.log[-1500:]))
    finally:
        lock.close()
    return res


def load_registry():
    return json.load(open(os.path.join(HERE, 'registry.json')))


def audit_list(mods, thms, failed=None):
    """`#print axioms` for the given theorems; returns (n, n_ok, bad, raw output)"""
    mods = sorted(set(mods))
    # a module that did not build (an obligation in it, or in something it imports, failed) has no .olean: its theorems
    # are reported as such, the others are audited
    built = [m for m in mods if os.path.exists(os.path.join(LEAN, '.lake', 'build', 'lib', 'lean', *m.split('.')) + '.olean')]
    # … and a module whose source imports (directly or not) a module that failed in this build only has a stale .olean from an
    # earlier build: importing it would make the whole audit file fail, so it counts as unbuilt too
    failed = set(failed or [])
    if failed:
        memo = {}

        def tainted(m, depth=0):
            if m in memo:
                return memo[m]
            memo[m] = False
            if m in failed:
                memo[m] = True
                return True
            pth = os.path.join(LEAN, *m.split('.')) + '.lean'
            if not os.path.exists(pth) or depth > 40:
                return False
            for imp in re.findall(r'^import\s+(OpyVerif\.\S+)', open(pth).read(), re.M):
                if tainted(imp, depth + 1):
                    memo[m] = True
                    return True
            return False
        built = [m for m in built if not tainted(m)]
    unbuilt = [m for m in mods if m not in built]
    mods = built
    src = '\n'.join(f'import {m}' for m in mods) + '\n' + '\n'.join(f'#print axioms {t}' for t in thms) + '\n'
    os.makedirs(WORK, exist_ok=True)
    path = os.path.join(WORK, f'Audit_{os.getpid()}.lean')
    open(path, 'w').write(src)
    try:
        p = subprocess.run(['lake', 'env', 'lean', path], cwd=LEAN, capture_output=True, text=True)
    finally:
        os.remove(path)
    out = clean_out(p.stdout + p.stderr)
    seen = {}
    flat = re.sub(r'\s+', ' ', out)
    for m in re.finditer(r"'(\S+?)' (does not depend on any axioms|depends on axioms: \[([^\]]*)\])", flat):
        seen[m.group(1)] = set(a.strip() for a in (m.group(3) or '').split(',') if a.strip())
    ok, bad = [], []
    for t in thms:
        axs = seen.get(t)
        if axs is None:
            bad.append((t, 'not found / does not elaborate'))
        elif not axs <= ALLOWED_AXIOMS:
            bad.append((t, 'axioms ' + ','.join(sorted(axs - ALLOWED_AXIOMS))))
        else:
            ok.append(t)
    return len(thms), len(ok), bad, out


def leanchecker(mods):
    """independent re-check of the compiled modules (thorough tier)"""
    try:
        p = subprocess.run(['lake', 'env', 'leanchecker'] + sorted(set(mods)), cwd=LEAN, capture_output=True, text=True,
                           timeout=900)
        return dict(ok=p.returncode == 0, modules=sorted(set(mods)), tail=clean_out(p.stdout + p.stderr)[-300:])
    except Exception as ex:
        return dict(ok=None, error=repr(ex)[:200])


def audit(prop):
    """`#print axioms` for every theorem registered for `prop`; returns (n_obligations, n_ok, details)"""
    reg = load_registry()[prop]
    mods = sorted(set(reg['modules']))
    thms = reg['theorems']
    src = '\n'.join(f'import {m}' for m in mods) + '\n' + '\n'.join(f'#print axioms {t}' for t in thms) + '\n'
    os.makedirs(WORK, exist_ok=True)
    path = os.path.join(WORK, f'Audit_{prop}_{os.getpid()}.lean')
    open(path, 'w').write(src)
    try:
        p = subprocess.run(['lake', 'env', 'lean', path], cwd=LEAN, capture_output=True, text=True)
    finally:
        os.remove(path)
    out = clean_out(p.stdout + p.stderr)
    ok, bad = [], []
    seen = {}
    for m in re.finditer(r"'([^']+)' (does not depend on any axioms|depends on axioms: \[([^\]]*)\])", out):
        name = m.group(1)
        axs = set(a.strip() for a in (m.group(3) or '').split(',') if a.strip())
        seen[name] = axs
    for t in thms:
        short = t
        axs = seen.get(t)
        if axs is None:
            # Lean prints the fully qualified name; try suffix match
            cand = [k for k in seen if k.endswith('.' + t) or k == t]
            axs = seen[cand[0]] if cand else None
        if axs is None:
            bad.append((t, 'not found / does not elaborate'))
        elif not axs <= ALLOWED_AXIOMS:
            bad.append((t, 'axioms ' + ','.join(sorted(axs - ALLOWED_AXIOMS))))
        else:
            ok.append(t)
    return len(thms), len(ok), bad, out


FORBIDDEN = re.compile(r'\b(sorry|admit|native_decide|bv_decide|implemented_by)\b|^\s*axiom\s|unsafe\s|maxHeartbeats\s+0\b', re.M)


def strip_comments(src):
    src = re.sub(r'/-.*?-/', '', src, flags=re.S)
    src = re.sub(r'--.*', '', src)
    return src


def grep_forbidden():
    hits = []
    for root, _, fs in os.walk(os.path.join(LEAN, 'OpyVerif')):
        for f in fs:
            if f.endswith('.lean'):
                p = os.path.join(root, f)
                s = strip_comments(open(p).read())
                s = re.sub(r'#print axioms.*', '', s)
                for m in FORBIDDEN.finditer(s):
                    hits.append((os.path.relpath(p, LEAN), m.group(0).strip()))
    return hits


# ----------------------------------------------------------------------------- findings
def known_findings():
    return json.load(open(os.path.join(VERIF, 'known_findings.json')))


# ----------------------------------------------------------------------------- evidence / replay
def write_evidence(prop, tier, level, coverage, assumptions, wall, violations):
    os.makedirs(EVID, exist_ok=True)
    ev = dict(property_id=prop, tier=tier, seed=SEED, level=level, coverage=coverage,
              assumptions=assumptions, wall_s=round(wall, 2), violations=violations)
    tmp = os.path.join(EVID, f'.{prop}.{os.getpid()}.tmp')
    with open(tmp, 'w') as f:
        json.dump(ev, f, indent=1, default=str)
    os.replace(tmp, os.path.join(EVID, f'{prop}.json'))


def write_replay(prop, name, payload):
    os.makedirs(REPLAYS, exist_ok=True)
    path = os.path.join(REPLAYS, f'{prop}_{name}.json')
    payload = dict(payload)
    payload['property'] = prop
    with open(path, 'w') as f:
        json.dump(payload, f, indent=1, default=str)
    return path


def scratch_dir():
    d = os.path.join(WORK, str(os.getpid()))
    os.makedirs(d, exist_ok=True)
    return d


def rm_scratch():
    shutil.rmtree(os.path.join(WORK, str(os.getpid())), ignore_errors=True)
