"""Helper inlining for the translators.

A refactoring that extracts a few statements (or an expression) into a *new* helper method / function leaves
behaviour unchanged but hides the statements the translators read.  `parse(path)` therefore returns the module's
AST with every call of a helper that is **not in the pinned method list** (harness/pinned_methods.json: the
methods and functions that existed when the framework was written) replaced by the helper's body, parameters
substituted.  Methods in the pinned list keep their identity (the site tables name them).  On the pinned
source nothing is inlined, so the translators see exactly the file.

Only two shapes are inlined (anything else is left alone and the translators will not recognise the call):
  * a statement `self.h(a, …)` / `Cls.h(a, …)` / `h(a, …)` whose helper returns nothing;
  * an expression `self.h(a, …)` / `Cls.h(a, …)` / `h(a, …)` whose helper is `return <expr>` after straight-line
    simple assignments.
"""
import ast, copy, json, os

HERE = os.path.dirname(os.path.abspath(__file__))
REPO = os.environ.get('VERIF_REPO', '/repo')
PINNED = os.path.join(HERE, 'pinned_methods.json')
_pinned = None


def pinned():
    global _pinned
    if _pinned is None:
        _pinned = json.load(open(PINNED)) if os.path.exists(PINNED) else {}
    return _pinned


def rel(path):
    path = os.path.normpath(path)
    root = os.path.normpath(REPO)
    return os.path.relpath(path, root) if path.startswith(root) else path


def _docless(body):
    return [s for s in body if not (isinstance(s, ast.Expr) and isinstance(s.value, ast.Constant))
            and not (isinstance(s, ast.Expr) and isinstance(s.value, ast.Call) and ast.unparse(s.value.func).startswith('logger.'))]


class _Subst(ast.NodeTransformer):
    def __init__(self, mapping, rename):
        self.mapping, self.rename = mapping, rename

    def visit_Name(self, n):
        if n.id in self.mapping and isinstance(n.ctx, ast.Load):
            return copy.deepcopy(self.mapping[n.id])
        if n.id in self.rename:
            return ast.copy_location(ast.Name(id=self.rename[n.id], ctx=n.ctx), n)
        return n


def _instantiate(helper, args, is_method, taken=frozenset()):
    """helper body with parameters replaced by the call's argument expressions; helper locals renamed"""
    params = [a.arg for a in helper.args.args]
    if is_method and params and params[0] in ('self', 'cls'):
        params = params[1:]
    if len(params) != len(args) or helper.args.vararg or helper.args.kwarg or helper.args.kwonlyargs:
        return None
    mapping = dict(zip(params, args))
    assigned = set()
    for n in ast.walk(helper):
        if isinstance(n, ast.Name) and isinstance(n.ctx, ast.Store) and n.id not in mapping:
            assigned.add(n.id)
    # a parameter that is re-assigned inside the helper cannot be substituted
    for n in ast.walk(helper):
        if isinstance(n, ast.Name) and isinstance(n.ctx, ast.Store) and n.id in mapping:
            return None
    # helper locals keep their names unless the calling function already uses them
    rename = {v: f'{v}__{helper.name.strip("_")}' for v in assigned if v in taken}
    body = [_Subst(mapping, rename).visit(copy.deepcopy(s)) for s in _docless(helper.body)]
    return body


def _drop_tail_returns(body):
    """the statements of a helper called for its effects only (result discarded): `return`s in tail position
    (of a side-effect-free value) are dropped; any other `return` makes the helper non-inlinable (None)"""
    body = list(body)
    while body and isinstance(body[-1], ast.Return) and (body[-1].value is None or _pure(body[-1].value)):
        body = body[:-1]
    if body and isinstance(body[-1], ast.If):
        last = body[-1]
        b1, b2 = _drop_tail_returns(last.body), _drop_tail_returns(last.orelse)
        if b1 is None or b2 is None:
            return None
        new_if = ast.If(test=last.test, body=b1 or [ast.Pass()], orelse=b2)
        body = body[:-1] + [ast.copy_location(new_if, last)]
        head = body[:-1]
    else:
        head = body
    if any(isinstance(n, ast.Return) for s_ in head for n in ast.walk(s_)):
        return None
    return body


def _as_statements(helper, args, is_method, taken=frozenset()):
    body = _instantiate(helper, args, is_method, taken)
    if body is None:
        return None
    return _drop_tail_returns(body)


def _as_expression(helper, args, is_method, taken=frozenset()):
    body = _instantiate(helper, args, is_method, taken)
    if not body or not isinstance(body[-1], ast.Return) or body[-1].value is None:
        return None
    env = {}
    for s in body[:-1]:
        if isinstance(s, ast.Assign) and len(s.targets) == 1 and isinstance(s.targets[0], ast.Name):
            env[s.targets[0].id] = _Subst(env, {}).visit(copy.deepcopy(s.value))
        else:
            return None
    return _Subst(env, {}).visit(copy.deepcopy(body[-1].value))


class _Inliner(ast.NodeTransformer):
    def __init__(self, helpers, clsname):
        self.helpers, self.clsname = helpers, clsname   # name -> (FunctionDef, is_method)
        self.count = 0
        self.taken = frozenset()

    def _target(self, call):
        f = call.func
        if call.keywords:
            return None
        if isinstance(f, ast.Attribute) and isinstance(f.value, ast.Name) and f.value.id in ('self', 'cls', self.clsname) \
                and f.attr in self.helpers and self.helpers[f.attr][1] is not None:
            return self.helpers[f.attr]
        if isinstance(f, ast.Name) and f.id in self.helpers and self.helpers[f.id][1] is None:
            return self.helpers[f.id]
        return None

    def visit_Expr(self, node):
        if isinstance(node.value, ast.Call):
            tgt = self._target(node.value)
            if tgt is not None:
                body = _as_statements(tgt[0], list(node.value.args), bool(tgt[1]), self.taken)
                if body is not None:
                    self.count += 1
                    return [self.visit(s) if not isinstance(s, list) else s for s in body] or [ast.Pass()]
        return self.generic_visit(node)

    def visit_Call(self, node):
        node = self.generic_visit(node)
        tgt = self._target(node)
        if tgt is not None:
            e = _as_expression(tgt[0], list(node.args), bool(tgt[1]), self.taken)
            if e is not None:
                self.count += 1
                return e
        return node


def _flatten(stmts):
    out = []
    for s in stmts:
        if isinstance(s, list):
            out += _flatten(s)
        else:
            out.append(s)
    return out


def inline_tree(tree, path):
    pin = pinned().get(rel(path))
    if pin is None:
        return tree, 0
    total = 0
    mod_new = {f.name: (f, None) for f in tree.body if isinstance(f, ast.FunctionDef) and f.name not in pin.get('<module>', [])}
    for rounds in range(2):
        for c in [c for c in tree.body if isinstance(c, ast.ClassDef)]:
            known = set(pin.get(c.name, []))
            helpers = dict(mod_new)
            for f in c.body:
                if isinstance(f, ast.FunctionDef) and f.name not in known and c.name in pin:
                    is_static = any(isinstance(d, ast.Name) and d.id == 'staticmethod' for d in f.decorator_list)
                    helpers[f.name] = (f, 'static' if is_static else 'method')
            if not helpers:
                continue
            inl = _Inliner({k: (v[0], (v[1] == 'method') if v[1] else None) for k, v in helpers.items()}, c.name)
            for f in c.body:
                if isinstance(f, ast.FunctionDef) and f.name not in helpers:
                    inl.taken = frozenset(n.id for n in ast.walk(f) if isinstance(n, ast.Name)) | frozenset(a.arg for a in f.args.args)
                    f.body = _flatten([inl.visit(s) for s in f.body])
            total += inl.count
        if mod_new:
            inl = _Inliner({k: (v[0], None) for k, v in mod_new.items()}, '')
            for f in tree.body:
                if isinstance(f, ast.FunctionDef) and f.name not in mod_new:
                    inl.taken = frozenset(n.id for n in ast.walk(f) if isinstance(n, ast.Name)) | frozenset(a.arg for a in f.args.args)
                    f.body = _flatten([inl.visit(s) for s in f.body])
            total += inl.count
    # a new helper whose every call was inlined no longer exists as far as the translators are concerned (its
    # statements are read where they were inlined); one that is still called somewhere stays and is read as it is
    def still_called(name, is_method):
        """any remaining reference (call, or the helper passed around as a value) outside its own definition"""
        for top in ast.walk(tree):
            if isinstance(top, ast.FunctionDef) and top.name == name:
                continue
            if isinstance(top, ast.FunctionDef):
                for n in ast.walk(top):
                    if n is top:
                        continue
                    if isinstance(n, ast.FunctionDef) and n.name == name:
                        continue
                    if is_method and isinstance(n, ast.Attribute) and n.attr == name:
                        return True
                    if not is_method and isinstance(n, ast.Name) and n.id == name and isinstance(n.ctx, ast.Load):
                        return True
        return False
    if total:
        for c in [c for c in tree.body if isinstance(c, ast.ClassDef)]:
            known = set(pin.get(c.name, []))
            if c.name in pin:
                c.body = [f for f in c.body if not (isinstance(f, ast.FunctionDef) and f.name not in known
                                                    and not still_called(f.name, True))]
        tree.body = [f for f in tree.body if not (isinstance(f, ast.FunctionDef) and f.name in mod_new
                                                  and not still_called(f.name, False))]
    ast.fix_missing_locations(tree)
    return tree, total


PURE_CALLS = {'len', 'min', 'max', 'zip', 'list', 'tuple', 'range', 'enumerate', 'int', 'float', 'abs'}


def _pure(e):
    for n in ast.walk(e):
        if isinstance(n, ast.Call):
            if not (isinstance(n.func, ast.Name) and n.func.id in PURE_CALLS) or n.keywords:
                return False
        elif not isinstance(n, (ast.Name, ast.Attribute, ast.Constant, ast.Subscript, ast.BinOp, ast.UnaryOp, ast.Tuple, ast.List,
                                ast.Load, ast.operator, ast.unaryop, ast.Slice)):
            return False
    return True


def propagate_locals(fn):
    """copy of `fn` in which every local that is assigned exactly once, from a side-effect-free expression over
    names that are themselves never re-assigned, is replaced by that expression (and its assignment dropped)"""
    fn = copy.deepcopy(fn)
    stores = {}
    for n in ast.walk(fn):
        if isinstance(n, ast.Name) and isinstance(n.ctx, ast.Store):
            stores[n.id] = stores.get(n.id, 0) + 1
        # a name whose object may be mutated (method call on it, element / attribute store, in-place operator)
        # is not a constant
        if isinstance(n, ast.Call) and isinstance(n.func, ast.Attribute) and isinstance(n.func.value, ast.Name):
            stores[n.func.value.id] = stores.get(n.func.value.id, 0) + 2
        if isinstance(n, (ast.Subscript, ast.Attribute)) and isinstance(n.ctx, (ast.Store, ast.Del)) and isinstance(n.value, ast.Name):
            stores[n.value.id] = stores.get(n.value.id, 0) + 2
        if isinstance(n, ast.AugAssign) and isinstance(n.target, ast.Name):
            stores[n.target.id] = stores.get(n.target.id, 0) + 2
    env = {}

    def strip(block):
        out = []
        for st in block:
            if isinstance(st, ast.Assign) and len(st.targets) == 1 and isinstance(st.targets[0], ast.Name) \
                    and stores.get(st.targets[0].id) == 1 and _pure(st.value) \
                    and all(stores.get(m.id, 0) == 0 or m.id in env for m in ast.walk(st.value) if isinstance(m, ast.Name)):
                env[st.targets[0].id] = _Subst(dict(env), {}).visit(copy.deepcopy(st.value))
                continue
            st = _Subst(dict(env), {}).visit(st)
            for fld in ('body', 'orelse', 'finalbody'):
                sub = getattr(st, fld, None)
                if isinstance(sub, list) and sub and isinstance(sub[0], ast.stmt):
                    setattr(st, fld, strip(sub))
            out.append(st)
        return out
    fn.body = strip(fn.body)
    ast.fix_missing_locations(fn)
    return fn


def parse(path):
    """ast of the module with new (unpinned) helpers inlined at their call sites"""
    tree = ast.parse(open(path).read())
    try:
        tree, _ = inline_tree(tree, path)
    except Exception:
        tree = ast.parse(open(path).read())
    return tree


def write_pinned():
    out = {}
    for root, _, files in os.walk(os.path.join(REPO, 'opytimizer')):
        for fl in sorted(files):
            if not fl.endswith('.py'):
                continue
            p = os.path.join(root, fl)
            t = ast.parse(open(p).read())
            d = {'<module>': [f.name for f in t.body if isinstance(f, ast.FunctionDef)]}
            for c in t.body:
                if isinstance(c, ast.ClassDef):
                    d[c.name] = sorted({f.name for f in c.body if isinstance(f, ast.FunctionDef)})
            out[rel(p)] = d
    json.dump(out, open(PINNED, 'w'), indent=1, sort_keys=True)
    return out


if __name__ == '__main__':
    import sys
    if sys.argv[1:] == ['pin']:
        print(len(write_pinned()), 'modules pinned')
