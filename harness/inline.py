"""Helper inlining for the translators.

A refactoring that extracts a few statements (or an expression) into a *new* helper method / function leaves
behaviour unchanged but hides the statements the translators read.  `parse(path)` therefore returns the module's
AST with every call of a helper that is **not in the pinned method list** (harness/pinned_methods.json: the
methods and functions that existed when the framework was written) replaced by the helper's body, parameters
substituted.  Methods in the pinned list keep their identity (the site tables name them).  On the pinned
source nothing is inlined, so the translators see exactly the file.

Only two shapes are inlined (anything else is left alone and the translators will not recognise the call):
  * a statement `self.h(a, …)` / `Cls.h(a, …)` / `h(a, …)` whose helper returns nothing;
  * an expression `self.h(a, …)` / `Cls.h(a, …)` / `h(a, …)` whose helper is `return <expr>` after straight-line
    simple assignments.
"""
import ast, copy, json, os

HERE = os.path.dirname(os.path.abspath(__file__))
REPO = os.environ.get('VERIF_REPO', '/repo')
PINNED = os.path.join(HERE, 'pinned_methods.json')
_pinned = None


def pinned():
    global _pinned
    if _pinned is None:
        _pinned = json.load(open(PINNED)) if os.path.exists(PINNED) else {}
    return _pinned


def rel(path):
    path = os.path.normpath(path)
    root = os.path.normpath(REPO)
    return os.path.relpath(path, root) if path.startswith(root) else path


def _docless(body):
    return [s for s in body if not (isinstance(s, ast.Expr) and isinstance(s.value, ast.Constant))
            and not (isinstance(s, ast.Expr) and isinstance(s.value, ast.Call) and ast.unparse(s.value.func).startswith('logger.'))]


class _Subst(ast.NodeTransformer):
    def __init__(self, mapping, rename):
        self.mapping, self.rename = mapping, rename

    def visit_Name(self, n):
        if n.id in self.mapping and isinstance(n.ctx, ast.Load):
            return copy.deepcopy(self.mapping[n.id])
        if n.id in self.rename:
            return ast.copy_location(ast.Name(id=self.rename[n.id], ctx=n.ctx), n)
        return n


def _instantiate(helper, args, is_method):
    """helper body with parameters replaced by the call's argument expressions; helper locals renamed"""
    params = [a.arg for a in helper.args.args]
    if is_method and params and params[0] in ('self', 'cls'):
        params = params[1:]
    if len(params) != len(args) or helper.args.vararg or helper.args.kwarg or helper.args.kwonlyargs:
        return None
    mapping = dict(zip(params, args))
    assigned = set()
    for n in ast.walk(helper):
        if isinstance(n, ast.Name) and isinstance(n.ctx, ast.Store) and n.id not in mapping:
            assigned.add(n.id)
    # a parameter that is re-assigned inside the helper cannot be substituted
    for n in ast.walk(helper):
        if isinstance(n, ast.Name) and isinstance(n.ctx, ast.Store) and n.id in mapping:
            return None
    rename = {v: f'{v}__{helper.name.strip("_")}' for v in assigned}
    body = [_Subst(mapping, rename).visit(copy.deepcopy(s)) for s in _docless(helper.body)]
    return body


def _as_statements(helper, args, is_method):
    body = _instantiate(helper, args, is_method)
    if body is None:
        return None
    if body and isinstance(body[-1], ast.Return) and body[-1].value is None:
        body = body[:-1]
    if any(isinstance(n, ast.Return) for s in body for n in ast.walk(s)):
        return None
    return body


def _as_expression(helper, args, is_method):
    body = _instantiate(helper, args, is_method)
    if not body or not isinstance(body[-1], ast.Return) or body[-1].value is None:
        return None
    env = {}
    for s in body[:-1]:
        if isinstance(s, ast.Assign) and len(s.targets) == 1 and isinstance(s.targets[0], ast.Name):
            env[s.targets[0].id] = _Subst(env, {}).visit(copy.deepcopy(s.value))
        else:
            return None
    return _Subst(env, {}).visit(copy.deepcopy(body[-1].value))


class _Inliner(ast.NodeTransformer):
    def __init__(self, helpers, clsname):
        self.helpers, self.clsname = helpers, clsname   # name -> (FunctionDef, is_method)
        self.count = 0

    def _target(self, call):
        f = call.func
        if call.keywords:
            return None
        if isinstance(f, ast.Attribute) and isinstance(f.value, ast.Name) and f.value.id in ('self', 'cls', self.clsname) \
                and f.attr in self.helpers and self.helpers[f.attr][1] is not None:
            return self.helpers[f.attr]
        if isinstance(f, ast.Name) and f.id in self.helpers and self.helpers[f.id][1] is None:
            return self.helpers[f.id]
        return None

    def visit_Expr(self, node):
        if isinstance(node.value, ast.Call):
            tgt = self._target(node.value)
            if tgt is not None:
                body = _as_statements(tgt[0], list(node.value.args), bool(tgt[1]))
                if body is not None:
                    self.count += 1
                    return [self.visit(s) if not isinstance(s, list) else s for s in body] or [ast.Pass()]
        return self.generic_visit(node)

    def visit_Call(self, node):
        node = self.generic_visit(node)
        tgt = self._target(node)
        if tgt is not None:
            e = _as_expression(tgt[0], list(node.args), bool(tgt[1]))
            if e is not None:
                self.count += 1
                return e
        return node


def _flatten(stmts):
    out = []
    for s in stmts:
        if isinstance(s, list):
            out += _flatten(s)
        else:
            out.append(s)
    return out


def inline_tree(tree, path):
    pin = pinned().get(rel(path))
    if pin is None:
        return tree, 0
    total = 0
    mod_new = {f.name: (f, None) for f in tree.body if isinstance(f, ast.FunctionDef) and f.name not in pin.get('<module>', [])}
    for rounds in range(2):
        for c in [c for c in tree.body if isinstance(c, ast.ClassDef)]:
            known = set(pin.get(c.name, []))
            helpers = dict(mod_new)
            for f in c.body:
                if isinstance(f, ast.FunctionDef) and f.name not in known and c.name in pin:
                    is_static = any(isinstance(d, ast.Name) and d.id == 'staticmethod' for d in f.decorator_list)
                    helpers[f.name] = (f, 'static' if is_static else 'method')
            if not helpers:
                continue
            inl = _Inliner({k: (v[0], (v[1] == 'method') if v[1] else None) for k, v in helpers.items()}, c.name)
            for f in c.body:
                if isinstance(f, ast.FunctionDef) and f.name not in helpers:
                    f.body = _flatten([inl.visit(s) for s in f.body])
            total += inl.count
        if mod_new:
            inl = _Inliner({k: (v[0], None) for k, v in mod_new.items()}, '')
            for f in tree.body:
                if isinstance(f, ast.FunctionDef) and f.name not in mod_new:
                    f.body = _flatten([inl.visit(s) for s in f.body])
            total += inl.count
    ast.fix_missing_locations(tree)
    return tree, total


def parse(path):
    """ast of the module with new (unpinned) helpers inlined at their call sites"""
    tree = ast.parse(open(path).read())
    try:
        tree, _ = inline_tree(tree, path)
    except Exception:
        tree = ast.parse(open(path).read())
    return tree


def write_pinned():
    out = {}
    for root, _, files in os.walk(os.path.join(REPO, 'opytimizer')):
        for fl in sorted(files):
            if not fl.endswith('.py'):
                continue
            p = os.path.join(root, fl)
            t = ast.parse(open(p).read())
            d = {'<module>': [f.name for f in t.body if isinstance(f, ast.FunctionDef)]}
            for c in t.body:
                if isinstance(c, ast.ClassDef):
                    d[c.name] = sorted({f.name for f in c.body if isinstance(f, ast.FunctionDef)})
            out[rel(p)] = d
    json.dump(out, open(PINNED, 'w'), indent=1, sort_keys=True)
    return out


if __name__ == '__main__':
    import sys
    if sys.argv[1:] == ['pin']:
        print(len(write_pinned()), 'modules pinned')
