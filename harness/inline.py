"""Helper inlining for the translators.

A refactoring that extracts a few statements (or an expression) into a *new* helper method / function leaves
behaviour unchanged but hides the statements the translators read.  `parse(path)` therefore returns the module's
AST with every call of a helper that is **not in the pinned method list** (harness/pinned_methods.json: the
methods and functions that existed when the framework was written) replaced by the helper's body, parameters
substituted.  Methods in the pinned list keep their identity (the site tables name them).  On the pinned
source nothing is inlined, so the translators see exactly the file.

Only two shapes are inlined (anything else is left alone and the translators will not recognise the call):
  * a statement `self.h(a, …)` / `Cls.h(a, …)` / `h(a, …)` whose helper returns nothing;
  * an expression `self.h(a, …)` / `Cls.h(a, …)` / `h(a, …)` whose helper is `return <expr>` after straight-line
    simple assignments.
"""
import ast, copy, json, os

HERE = os.path.dirname(os.path.abspath(__file__))
REPO = os.environ.get('VERIF_REPO', '/repo')
PINNED = os.path.join(HERE, 'pinned_methods.json')
_pinned = None


def pinned():
    global _pinned
    if _pinned is None:
        _pinned = json.load(open(PINNED)) if os.path.exists(PINNED) else {}
    return _pinned


def rel(path):
    path = os.path.normpath(path)
    root = os.path.normpath(REPO)
    return os.path.relpath(path, root) if path.startswith(root) else path


def _docless(body):
    return [s for s in body if not (isinstance(s, ast.Expr) and isinstance(s.value, ast.Constant))
            and not (isinstance(s, ast.Expr) and isinstance(s.value, ast.Call) and ast.unparse(s.value.func).startswith('logger.'))]


class _Subst(ast.NodeTransformer):
    def __init__(self, mapping, rename):
        self.mapping, self.rename = mapping, rename

    def visit_Name(self, n):
        if n.id in self.mapping and isinstance(n.ctx, ast.Load):
            return copy.deepcopy(self.mapping[n.id])
        if n.id in self.rename:
            return ast.copy_location(ast.Name(id=self.rename[n.id], ctx=n.ctx), n)
        return n


def _instantiate(helper, args, is_method, taken=frozenset()):
    """helper body with parameters replaced by the call's argument expressions; helper locals renamed"""
    params = [a.arg for a in helper.args.args]
    if is_method and params and params[0] in ('self', 'cls'):
        params = params[1:]
    if len(params) != len(args) or helper.args.vararg or helper.args.kwarg or helper.args.kwonlyargs:
        return None
    mapping = dict(zip(params, args))
    assigned = set()
    for n in ast.walk(helper):
        if isinstance(n, ast.Name) and isinstance(n.ctx, ast.Store) and n.id not in mapping:
            assigned.add(n.id)
    # a parameter that is re-assigned inside the helper cannot be substituted
    for n in ast.walk(helper):
        if isinstance(n, ast.Name) and isinstance(n.ctx, ast.Store) and n.id in mapping:
            return None
    # helper locals keep their names unless the calling function already uses them
    rename = {v: f'{v}__{helper.name.strip("_")}' for v in assigned if v in taken}
    body = [_Subst(mapping, rename).visit(copy.deepcopy(s)) for s in _docless(helper.body)]
    return body


def _drop_tail_returns(body):
    """the statements of a helper called for its effects only (result discarded): `return`s in tail position
    (of a side-effect-free value) are dropped; any other `return` makes the helper non-inlinable (None)"""
    body = list(body)
    while body and isinstance(body[-1], ast.Return) and (body[-1].value is None or _pure(body[-1].value)):
        body = body[:-1]
    if body and isinstance(body[-1], ast.If):
        last = body[-1]
        b1, b2 = _drop_tail_returns(last.body), _drop_tail_returns(last.orelse)
        if b1 is None or b2 is None:
            return None
        new_if = ast.If(test=last.test, body=b1 or [ast.Pass()], orelse=b2)
        body = body[:-1] + [ast.copy_location(new_if, last)]
        head = body[:-1]
    else:
        head = body
    if any(isinstance(n, ast.Return) for s_ in head for n in ast.walk(s_)):
        return None
    return body


def _nest_early_returns(body):
    """statements in which every `return` is in tail position: the statements that follow an `if` containing a return are
    moved (copied) to the ends of those of its branches that can fall through"""
    def has_return(st):
        return any(isinstance(n, ast.Return) for n in ast.walk(st))

    def append_rest(stmts, rest):
        stmts = list(stmts)
        if not rest:
            return stmts
        if stmts and isinstance(stmts[-1], (ast.Return, ast.Raise)):
            return stmts
        if stmts and isinstance(stmts[-1], ast.If) and has_return(stmts[-1]):
            last = stmts[-1]
            new = ast.copy_location(ast.If(test=last.test, body=append_rest(last.body, rest), orelse=append_rest(last.orelse, rest)), last)
            return stmts[:-1] + [new]
        return stmts + copy.deepcopy(rest)

    body = list(body or [])
    for k, st in enumerate(body):
        if isinstance(st, ast.If) and has_return(st):
            rest = _nest_early_returns(body[k + 1:])
            new = ast.copy_location(ast.If(test=st.test, body=append_rest(_nest_early_returns(st.body), rest),
                                           orelse=append_rest(_nest_early_returns(st.orelse), rest)), st)
            return body[:k] + [new]
    return body


def _tail_returns_to(body, make):
    """the statements of a helper whose every `return` is in tail position (the last statement, or the ends of the
    branches of a trailing if / else chain), with each `return v` replaced by `make(v)`; None when a return sits anywhere
    else or a path falls off the end without returning"""
    body = list(body)
    if not body:
        return None
    last = body[-1]
    head = body[:-1]
    if any(isinstance(n, ast.Return) for s_ in head for n in ast.walk(s_)):
        return None
    if isinstance(last, ast.Return):
        if last.value is None:
            return None
        return head + [make(last.value)]
    if isinstance(last, ast.If) and last.orelse:
        b1, b2 = _tail_returns_to(last.body, make), _tail_returns_to(last.orelse, make)
        if b1 is None or b2 is None:
            return None
        return head + [ast.copy_location(ast.If(test=last.test, body=b1, orelse=b2), last)]
    if isinstance(last, ast.Try) and not last.orelse and not last.finalbody and last.handlers:
        # `try: return A  except E: return B`: binding a plain name cannot raise, so the handlers see the same exceptions
        tb = _tail_returns_to(last.body, make)
        hs = [_tail_returns_to(h.body, make) for h in last.handlers]
        if tb is None or any(h is None for h in hs):
            return None
        new = ast.Try(body=tb, handlers=[ast.ExceptHandler(type=h.type, name=h.name, body=hb) for h, hb in zip(last.handlers, hs)],
                      orelse=[], finalbody=[])
        return head + [ast.copy_location(new, last)]
    return None


def _as_statements(helper, args, is_method, taken=frozenset()):
    body = _instantiate(helper, args, is_method, taken)
    if body is None:
        return None
    return _drop_tail_returns(body)


def _as_expression(helper, args, is_method, taken=frozenset()):
    body = _instantiate(helper, args, is_method, taken)
    if not body or not isinstance(body[-1], ast.Return) or body[-1].value is None:
        return None
    env = {}
    for s in body[:-1]:
        if isinstance(s, ast.Assign) and len(s.targets) == 1 and isinstance(s.targets[0], ast.Name):
            env[s.targets[0].id] = _Subst(env, {}).visit(copy.deepcopy(s.value))
        else:
            return None
    return _Subst(env, {}).visit(copy.deepcopy(body[-1].value))


class _Inliner(ast.NodeTransformer):
    def __init__(self, helpers, clsname):
        self.helpers, self.clsname = helpers, clsname   # name -> (FunctionDef, is_method)
        self.count = 0
        self.taken = frozenset()

    def _target(self, call):
        f = call.func
        if call.keywords:
            return None
        if isinstance(f, ast.Attribute) and isinstance(f.value, ast.Name) and f.value.id in ('self', 'cls', self.clsname) \
                and f.attr in self.helpers and self.helpers[f.attr][1] is not None:
            return self.helpers[f.attr]
        if isinstance(f, ast.Name) and f.id in self.helpers and self.helpers[f.id][1] is None:
            return self.helpers[f.id]
        return None

    def visit_Expr(self, node):
        # `obj.method(helper(...))` with a helper that is more than a chain of assignments: the call is hoisted into a
        # temporary first (looking up `obj.method` has no effect), then inlined as an assignment
        v = node.value
        if isinstance(v, ast.Call) and len(v.args) == 1 and not v.keywords and isinstance(v.args[0], ast.Call) \
                and isinstance(v.func, ast.Attribute) and isinstance(v.func.value, ast.Name):
            tgt = self._target(v.args[0])
            if tgt is not None and _as_expression(tgt[0], list(v.args[0].args), bool(tgt[1]), self.taken) is None:
                tmp = f'value__{tgt[0].name.strip("_")}'
                asg = ast.Assign(targets=[ast.Name(id=tmp, ctx=ast.Store())], value=v.args[0], type_comment=None)
                out = self.visit_Assign(asg)
                if isinstance(out, list):
                    call = ast.Expr(value=ast.Call(func=v.func, args=[ast.Name(id=tmp, ctx=ast.Load())], keywords=[]))
                    return out + [call]
        if isinstance(node.value, ast.Call):
            tgt = self._target(node.value)
            if tgt is not None:
                body = _as_statements(tgt[0], list(node.value.args), bool(tgt[1]), self.taken)
                if body is not None:
                    self.count += 1
                    return [self.visit(s) if not isinstance(s, list) else s for s in body] or [ast.Pass()]
        return self.generic_visit(node)

    def visit_Return(self, node):
        # `return helper(...)`: the helper's own returns become the caller's
        if isinstance(node.value, ast.Call):
            tgt = self._target(node.value)
            if tgt is not None and _as_expression(tgt[0], list(node.value.args), bool(tgt[1]), self.taken) is None:
                body = _instantiate(tgt[0], list(node.value.args), bool(tgt[1]), self.taken)
                # a helper written with early returns is first brought into if / else form (N6 in reverse is not needed:
                # `if c: return a` ; rest  ==  `if c: return a else: rest`)
                body = _tail_returns_to(_nest_early_returns(body), lambda v: ast.Return(value=v)) if body else None
                if body is not None:
                    self.count += 1
                    return [self.visit(s) for s in body]
        return self.generic_visit(node)

    def visit_Assign(self, node):
        # `T = helper(...)` (a name or a tuple of names): the helper's returns become assignments to T
        if isinstance(node.value, ast.Call) and len(node.targets) == 1 and \
                (isinstance(node.targets[0], ast.Name) or (isinstance(node.targets[0], ast.Tuple) and all(isinstance(e, ast.Name) for e in node.targets[0].elts))
                 or (isinstance(node.targets[0], (ast.Subscript, ast.Attribute)) and _pure_target(node.targets[0]))):
            tgt = self._target(node.value)
            if tgt is not None and _as_expression(tgt[0], list(node.value.args), bool(tgt[1]), self.taken) is None:
                taken = self.taken
                body = _instantiate(tgt[0], list(node.value.args), bool(tgt[1]), taken)
                # a helper that ends in `return a, b, c` of its own locals, assigned to `x, y, z = helper(…)`: the locals
                # are simply called x, y, z (when those names do not occur in the helper) and the hand-over disappears
                if body and isinstance(body[-1], ast.Return) and not any(isinstance(n, ast.Return) for s_ in body[:-1] for n in ast.walk(s_)) \
                        and not isinstance(node.targets[0], (ast.Subscript, ast.Attribute)):
                    rv, tg = body[-1].value, node.targets[0]
                    rnames = [e.id for e in rv.elts] if isinstance(rv, ast.Tuple) and all(isinstance(e, ast.Name) for e in rv.elts) else \
                        ([rv.id] if isinstance(rv, ast.Name) else None)
                    tnames = [e.id for e in tg.elts] if isinstance(tg, ast.Tuple) else [tg.id]
                    inside = {n.id for s_ in body for n in ast.walk(s_) if isinstance(n, ast.Name)}
                    stored = {n.id for s_ in body[:-1] for n in ast.walk(s_) if isinstance(n, ast.Name) and isinstance(n.ctx, ast.Store)}
                    if rnames and len(rnames) == len(tnames) and len(set(rnames)) == len(rnames) and all(r_ in stored for r_ in rnames) \
                            and not (set(tnames) & (inside - set(rnames))):
                        ren = dict(zip(rnames, tnames))
                        body = [_Subst({}, ren).visit(s_) for s_ in body[:-1]]
                        self.count += 1
                        return [self.visit(s_) for s_ in body]
                body = _tail_returns_to(_nest_early_returns(body),
                                        lambda v: ast.Assign(targets=[copy.deepcopy(node.targets[0])], value=v, type_comment=None)) if body else None
                if body is not None:
                    self.count += 1
                    return [self.visit(s) for s in body]
        return self.generic_visit(node)

    def visit_Call(self, node):
        node = self.generic_visit(node)
        tgt = self._target(node)
        if tgt is not None:
            e = _as_expression(tgt[0], list(node.args), bool(tgt[1]), self.taken)
            if e is not None:
                self.count += 1
                return e
        return node


def _flatten(stmts):
    out = []
    for s in stmts:
        if isinstance(s, list):
            out += _flatten(s)
        else:
            out.append(s)
    return out


def inline_tree(tree, path):
    pin = pinned().get(rel(path))
    if pin is None:
        return tree, 0
    total = 0
    mod_new = {f.name: (f, None) for f in tree.body if isinstance(f, ast.FunctionDef) and f.name not in pin.get('<module>', [])}
    for rounds in range(2):
        for c in [c for c in tree.body if isinstance(c, ast.ClassDef)]:
            known = set(pin.get(c.name, []))
            helpers = dict(mod_new)
            for f in c.body:
                if isinstance(f, ast.FunctionDef) and f.name not in known and c.name in pin:
                    is_static = any(isinstance(d, ast.Name) and d.id == 'staticmethod' for d in f.decorator_list)
                    helpers[f.name] = (f, 'static' if is_static else 'method')
            if not helpers:
                continue
            inl = _Inliner({k: (v[0], (v[1] == 'method') if v[1] else None) for k, v in helpers.items()}, c.name)
            for f in c.body:
                if isinstance(f, ast.FunctionDef) and f.name not in helpers:
                    inl.taken = frozenset(n.id for n in ast.walk(f) if isinstance(n, ast.Name)) | frozenset(a.arg for a in f.args.args)
                    f.body = _flatten([inl.visit(s) for s in f.body])
            total += inl.count
        if mod_new:
            inl = _Inliner({k: (v[0], None) for k, v in mod_new.items()}, '')
            for f in tree.body:
                if isinstance(f, ast.FunctionDef) and f.name not in mod_new:
                    inl.taken = frozenset(n.id for n in ast.walk(f) if isinstance(n, ast.Name)) | frozenset(a.arg for a in f.args.args)
                    f.body = _flatten([inl.visit(s) for s in f.body])
            total += inl.count
    # a new helper whose every call was inlined no longer exists as far as the translators are concerned (its
    # statements are read where they were inlined); one that is still called somewhere stays and is read as it is
    def still_called(name, is_method):
        """any remaining reference (call, or the helper passed around as a value) outside its own definition"""
        for top in ast.walk(tree):
            if isinstance(top, ast.FunctionDef) and top.name == name:
                continue
            if isinstance(top, ast.FunctionDef):
                for n in ast.walk(top):
                    if n is top:
                        continue
                    if isinstance(n, ast.FunctionDef) and n.name == name:
                        continue
                    if is_method and isinstance(n, ast.Attribute) and n.attr == name:
                        return True
                    if not is_method and isinstance(n, ast.Name) and n.id == name and isinstance(n.ctx, ast.Load):
                        return True
        return False
    if total:
        for c in [c for c in tree.body if isinstance(c, ast.ClassDef)]:
            known = set(pin.get(c.name, []))
            if c.name in pin:
                c.body = [f for f in c.body if not (isinstance(f, ast.FunctionDef) and f.name not in known
                                                    and not still_called(f.name, True))]
        tree.body = [f for f in tree.body if not (isinstance(f, ast.FunctionDef) and f.name in mod_new
                                                  and not still_called(f.name, False))]
    ast.fix_missing_locations(tree)
    return tree, total


PURE_CALLS = {'len', 'min', 'max', 'zip', 'list', 'tuple', 'range', 'enumerate', 'int', 'float', 'abs'}


def _pure_target(t):
    """a slot `X[i]` / `X.a` whose container and index are plain names, attribute chains and constants (evaluating them has no
    effect and nothing the helper does changes what they name)"""
    for n in ast.walk(t):
        if not isinstance(n, (ast.Name, ast.Attribute, ast.Subscript, ast.Constant, ast.Load, ast.Store, ast.Index if hasattr(ast, 'Index') else ast.Load)):
            return False
    return True


def _pure(e):
    for n in ast.walk(e):
        if isinstance(n, ast.Call):
            if not (isinstance(n.func, ast.Name) and n.func.id in PURE_CALLS) or n.keywords:
                return False
        elif not isinstance(n, (ast.Name, ast.Attribute, ast.Constant, ast.Subscript, ast.BinOp, ast.UnaryOp, ast.Tuple, ast.List,
                                ast.Load, ast.operator, ast.unaryop, ast.Slice)):
            return False
    return True


def propagate_locals(fn):
    """copy of `fn` in which every local that is assigned exactly once, from a side-effect-free expression over
    names that are themselves never re-assigned, is replaced by that expression (and its assignment dropped)"""
    fn = copy.deepcopy(fn)
    stores = {}
    for n in ast.walk(fn):
        if isinstance(n, ast.Name) and isinstance(n.ctx, ast.Store):
            stores[n.id] = stores.get(n.id, 0) + 1
        # a name whose object may be mutated (method call on it, element / attribute store, in-place operator)
        # is not a constant
        if isinstance(n, ast.Call) and isinstance(n.func, ast.Attribute) and isinstance(n.func.value, ast.Name):
            stores[n.func.value.id] = stores.get(n.func.value.id, 0) + 2
        if isinstance(n, (ast.Subscript, ast.Attribute)) and isinstance(n.ctx, (ast.Store, ast.Del)) and isinstance(n.value, ast.Name):
            stores[n.value.id] = stores.get(n.value.id, 0) + 2
        if isinstance(n, ast.AugAssign) and isinstance(n.target, ast.Name):
            stores[n.target.id] = stores.get(n.target.id, 0) + 2
    env = {}
    # a local that merely names an attribute chain (`position = self.position`) is an alias of that object: element
    # stores / method calls through the alias are the same through the attribute, provided the attribute itself is not
    # re-assigned in the function
    attr_stores = {ast.unparse(n) for n in ast.walk(fn) if isinstance(n, ast.Attribute) and isinstance(n.ctx, (ast.Store, ast.Del))}
    name_stores = {}
    for n in ast.walk(fn):
        if isinstance(n, ast.Name) and isinstance(n.ctx, ast.Store):
            name_stores[n.id] = name_stores.get(n.id, 0) + 1
    for n in ast.walk(fn):
        if isinstance(n, ast.Assign) and len(n.targets) == 1 and isinstance(n.targets[0], ast.Name) and isinstance(n.value, ast.Attribute) \
                and name_stores.get(n.targets[0].id) == 1 and ast.unparse(n.value) not in attr_stores \
                and not any(isinstance(m, ast.AugAssign) and isinstance(m.target, ast.Name) and m.target.id == n.targets[0].id for m in ast.walk(fn)):
            stores[n.targets[0].id] = 1

    def strip(block):
        out = []
        for st in block:
            if isinstance(st, ast.Assign) and len(st.targets) == 1 and isinstance(st.targets[0], ast.Name) \
                    and stores.get(st.targets[0].id) == 1 and _pure(st.value) \
                    and all(stores.get(m.id, 0) == 0 or m.id in env for m in ast.walk(st.value) if isinstance(m, ast.Name)):
                env[st.targets[0].id] = _Subst(dict(env), {}).visit(copy.deepcopy(st.value))
                continue
            st = _Subst(dict(env), {}).visit(st)
            for fld in ('body', 'orelse', 'finalbody'):
                sub = getattr(st, fld, None)
                if isinstance(sub, list) and sub and isinstance(sub[0], ast.stmt):
                    setattr(st, fld, strip(sub))
            out.append(st)
        return out
    fn.body = strip(fn.body)
    ast.fix_missing_locations(fn)
    return fn


def parse(path):
    """ast of the module with new (unpinned) helpers inlined at their call sites"""
    tree = ast.parse(open(path).read())
    try:
        tree, _ = inline_tree(tree, path)
    except Exception:
        tree = ast.parse(open(path).read())
    return tree


def write_pinned():
    out = {}
    for root, _, files in os.walk(os.path.join(REPO, 'opytimizer')):
        for fl in sorted(files):
            if not fl.endswith('.py'):
                continue
            p = os.path.join(root, fl)
            t = ast.parse(open(p).read())
            d = {'<module>': [f.name for f in t.body if isinstance(f, ast.FunctionDef)]}
            for c in t.body:
                if isinstance(c, ast.ClassDef):
                    d[c.name] = sorted({f.name for f in c.body if isinstance(f, ast.FunctionDef)})
            out[rel(p)] = d
    json.dump(out, open(PINNED, 'w'), indent=1, sort_keys=True)
    return out


if __name__ == '__main__':
    import sys
    if sys.argv[1:] == ['pin']:
        print(len(write_pinned()), 'modules pinned')


# ------------------------------------------------------------------ behaviour-preserving normal forms
# Applied to every module the translators read, after helper inlining.  Each rewrite maps a statement pattern to an
# equivalent one (the side conditions are checked syntactically and the rewrite is skipped when they do not hold),
# so that common refactorings read as the same program.  A rewrite that is wrong would make the translated program
# differ from the running code; the driver runs the translated programs against the real methods on every check.

def _own_level(stmts, kinds):
    """statements of kind `kinds` (Continue / Break) that belong to the loop whose body is `stmts`"""
    found = []

    def go(block):
        for s in block:
            if isinstance(s, kinds):
                found.append(s)
            if isinstance(s, (ast.For, ast.While, ast.FunctionDef, ast.ClassDef, ast.AsyncFor)):
                if isinstance(s, (ast.For, ast.While)):
                    go(s.orelse)      # the else block of an inner loop belongs to the outer one
                continue
            for fld in ('body', 'orelse', 'finalbody'):
                sub = getattr(s, fld, None)
                if isinstance(sub, list):
                    go(sub)
            for h in getattr(s, 'handlers', []) or []:
                go(h.body)
    go(stmts)
    return found


def _negate(e):
    if isinstance(e, ast.UnaryOp) and isinstance(e.op, ast.Not):
        return e.operand
    if isinstance(e, ast.Compare) and len(e.ops) == 1:
        inv = {ast.Eq: ast.NotEq, ast.NotEq: ast.Eq, ast.Is: ast.IsNot, ast.IsNot: ast.Is, ast.In: ast.NotIn, ast.NotIn: ast.In}
        # only the exact complements; `<` is not the complement of `>=` in the presence of NaN or rich comparisons
        if type(e.ops[0]) in inv and (type(e.ops[0]) in (ast.Is, ast.IsNot) or _is_len_or_const(e)):
            return ast.Compare(left=e.left, ops=[inv[type(e.ops[0])]()], comparators=e.comparators)
    return ast.UnaryOp(op=ast.Not(), operand=e)


def _is_len_or_const(e):
    """comparison between integers known syntactically (len(...) and integer literals): `!=` is `not ==` there"""
    def ok(x):
        return (isinstance(x, ast.Constant) and type(x.value) is int) or \
            (isinstance(x, ast.Call) and isinstance(x.func, ast.Name) and x.func.id == 'len')
    return ok(e.left) and ok(e.comparators[0])


def _loads(node, name):
    return sum(1 for n in ast.walk(node) if isinstance(n, ast.Name) and n.id == name and isinstance(n.ctx, ast.Load))


def _stores(node, name):
    k = 0
    for n in ast.walk(node):
        if isinstance(n, ast.Name) and n.id == name and isinstance(n.ctx, (ast.Store, ast.Del)):
            k += 1
        if isinstance(n, ast.AugAssign) and isinstance(n.target, ast.Name) and n.target.id == name:
            k += 0   # the target Name already counts as a Store
    return k


def _loads_outside_binders(fn, name):
    """loads of `name` that are not inside a `for name in …` body or a comprehension binding `name`"""
    total = _loads(fn, name)
    inside = 0
    for n in ast.walk(fn):
        if isinstance(n, ast.For) and isinstance(n.target, ast.Name) and n.target.id == name:
            inside += sum(_loads(b, name) for b in n.body)
        elif isinstance(n, (ast.ListComp, ast.SetComp, ast.GeneratorExp, ast.DictComp)) \
                and any(isinstance(g.target, ast.Name) and g.target.id == name for g in n.generators):
            inside += _loads(n, name)
    return total - inside


def _norm_block(block, fn, in_loop):
    """one pass over a statement list; returns the rewritten list"""
    out = []
    i = 0
    block = list(block)
    while i < len(block):
        st = block[i]
        nxt = block[i + 1] if i + 1 < len(block) else None
        # N1 guard clause: `if C: continue` + REST  ->  `if not C: REST`   (directly in a loop body)
        if in_loop and isinstance(st, ast.If) and not st.orelse and len(st.body) == 1 and isinstance(st.body[0], ast.Continue) \
                and i + 1 < len(block):
            rest = _norm_block(block[i + 1:], fn, in_loop)
            out.append(ast.If(test=_negate(st.test), body=rest, orelse=[]))
            return out
        # N12 guard with work: `if C: B ; continue` + REST  ->  `if C: B  else: REST`   (directly in a loop body)
        if in_loop and isinstance(st, ast.If) and not st.orelse and len(st.body) > 1 and isinstance(st.body[-1], ast.Continue) \
                and i + 1 < len(block) and not _own_level(st.body[:-1], (ast.Continue, ast.Break)):
            rest = _norm_block(block[i + 1:], fn, in_loop)
            out.append(ast.If(test=st.test, body=_norm_block(st.body[:-1], fn, in_loop), orelse=rest))
            return out
        # N6 / N7 a branch that ends in a jump: `if C: …raise  else: E` -> `if C: …raise` ; E
        #         and `if C: B  else: …raise` -> `if not C: …raise` ; B
        if isinstance(st, ast.If) and st.orelse and st.body:
            jump = (ast.Raise, ast.Return, ast.Continue, ast.Break)
            if isinstance(st.body[-1], jump):
                block[i:i + 1] = [ast.If(test=st.test, body=st.body, orelse=[])] + list(st.orelse)
                continue
            if isinstance(st.orelse[-1], jump) and not (len(st.orelse) == 1 and isinstance(st.orelse[0], ast.If)):
                block[i:i + 1] = [ast.If(test=_negate(st.test), body=st.orelse, orelse=[])] + list(st.body)
                continue
        # N9 a loop over a literal tuple of attribute reads: `for v in (a.x, a.y): BODY` -> BODY[v := a.x] ; BODY[v := a.y]
        if isinstance(st, ast.For) and not st.orelse and isinstance(st.target, ast.Name) and isinstance(st.iter, (ast.Tuple, ast.List)) \
                and 1 <= len(st.iter.elts) <= 4 and all(isinstance(e, ast.Attribute) and _pure(e) for e in st.iter.elts) \
                and _stores(ast.Module(body=st.body, type_ignores=[]), st.target.id) == 0 \
                and not _own_level(st.body, (ast.Continue, ast.Break)) \
                and _loads(fn, st.target.id) == _loads(ast.Module(body=st.body, type_ignores=[]), st.target.id) \
                and not any(isinstance(m, ast.Attribute) and isinstance(m.ctx, (ast.Store, ast.Del)) for b_ in st.body for m in ast.walk(b_)):
            unrolled = []
            for e in st.iter.elts:
                for b_ in st.body:
                    unrolled.append(_Subst({st.target.id: e}, {}).visit(copy.deepcopy(b_)))
            block[i:i + 1] = unrolled
            continue
        # N15 a loop over a literal tuple of names used only as `getattr(X, v)`: `for v in ('a', 'b'): getattr(X, v)(…)` ->
        #     `X.a(…)` ; `X.b(…)`
        if isinstance(st, ast.For) and not st.orelse and isinstance(st.target, ast.Name) and isinstance(st.iter, (ast.Tuple, ast.List)) \
                and 1 <= len(st.iter.elts) <= 5 and all(isinstance(e, ast.Constant) and isinstance(e.value, str) and e.value.isidentifier() for e in st.iter.elts) \
                and _stores(ast.Module(body=st.body, type_ignores=[]), st.target.id) == 0 and not _own_level(st.body, (ast.Continue, ast.Break)) \
                and _loads(fn, st.target.id) == _loads(ast.Module(body=st.body, type_ignores=[]), st.target.id):
            v_ = st.target.id
            uses = [m for b_ in st.body for m in ast.walk(b_) if isinstance(m, ast.Name) and m.id == v_]
            gets = [m for b_ in st.body for m in ast.walk(b_) if isinstance(m, ast.Call) and isinstance(m.func, ast.Name) and m.func.id == 'getattr'
                    and len(m.args) == 2 and not m.keywords and isinstance(m.args[1], ast.Name) and m.args[1].id == v_ and _pure(m.args[0])]
            if uses and len(uses) == len(gets):
                class _G(ast.NodeTransformer):
                    def __init__(self, name):
                        self.name = name

                    def visit_Call(self, node):
                        node = self.generic_visit(node)
                        if isinstance(node.func, ast.Name) and node.func.id == 'getattr' and len(node.args) == 2 and isinstance(node.args[1], ast.Name) \
                                and node.args[1].id == v_:
                            return ast.Attribute(value=node.args[0], attr=self.name, ctx=ast.Load())
                        return node
                unrolled = []
                for e in st.iter.elts:
                    for b_ in st.body:
                        unrolled.append(_G(e.value).visit(copy.deepcopy(b_)))
                block[i:i + 1] = unrolled
                continue
        # N10 / N11 index loops: `for i in range(len(X)): a = X[i]; BODY` -> `for i, a in enumerate(X): BODY`, and
        #   `for i in range(min(len(A), len(B))): a, b = A[i], B[i]; BODY` -> `for i, (a, b) in enumerate(zip(A, B)): BODY`
        #   (X, A, B plain names or attribute chains that the body neither rebinds nor resizes; `i` and the element names not re-assigned)
        if isinstance(st, ast.For) and not st.orelse and isinstance(st.target, ast.Name) and isinstance(st.iter, ast.Call) \
                and isinstance(st.iter.func, ast.Name) and st.iter.func.id == 'range' and len(st.iter.args) == 1 and not st.iter.keywords \
                and len(st.body) >= 1 and isinstance(st.body[0], ast.Assign) and len(st.body[0].targets) == 1:
            iv = st.target.id
            arg = st.iter.args[0]
            first = st.body[0]

            def _len_of(e):
                return e.args[0] if isinstance(e, ast.Call) and isinstance(e.func, ast.Name) and e.func.id == 'len' and len(e.args) == 1 and not e.keywords else None
            seqs = None
            if _len_of(arg) is not None:
                seqs = [_len_of(arg)]
            elif isinstance(arg, ast.Call) and isinstance(arg.func, ast.Name) and arg.func.id == 'min' and len(arg.args) == 2 and not arg.keywords \
                    and all(_len_of(a) is not None for a in arg.args):
                seqs = [_len_of(a) for a in arg.args]
            if seqs and all(_pure(q) and isinstance(q, (ast.Name, ast.Attribute)) for q in seqs):
                tg, vl = first.targets[0], first.value
                elems = None
                if len(seqs) == 1 and isinstance(tg, ast.Name) and ast.unparse(vl) == f'{ast.unparse(seqs[0])}[{iv}]':
                    elems = [tg]
                elif len(seqs) == 2 and isinstance(tg, ast.Tuple) and isinstance(vl, ast.Tuple) and len(tg.elts) == 2 and len(vl.elts) == 2 \
                        and all(isinstance(e_, ast.Name) for e_ in tg.elts) \
                        and [ast.unparse(x) for x in vl.elts] == [f'{ast.unparse(q)}[{iv}]' for q in seqs]:
                    elems = list(tg.elts)
                rest = st.body[1:]
                restm = ast.Module(body=rest, type_ignores=[])
                seq_src = {ast.unparse(q) for q in seqs}
                resized = any(isinstance(m, ast.Call) and isinstance(m.func, ast.Attribute) and ast.unparse(m.func.value) in seq_src
                              and m.func.attr in ('append', 'insert', 'pop', 'remove', 'clear', 'extend', 'sort', 'reverse') for m in ast.walk(restm)) \
                    or any(isinstance(m, (ast.Name, ast.Attribute)) and isinstance(m.ctx, (ast.Store, ast.Del)) and ast.unparse(m) in seq_src for m in ast.walk(restm)) \
                    or any(isinstance(m, ast.Delete) for m in ast.walk(restm))
                if elems and not resized and _stores(restm, iv) == 0 and all(_stores(restm, e_.id) == 0 for e_ in elems) \
                        and _stores(fn, iv) == 1 and _loads(fn, iv) == _loads(ast.Module(body=st.body, type_ignores=[]), iv):
                    src = seqs[0] if len(seqs) == 1 else ast.Call(func=ast.Name(id='zip', ctx=ast.Load()), args=list(seqs), keywords=[])
                    elt = ast.Name(id=elems[0].id, ctx=ast.Store()) if len(elems) == 1 else \
                        ast.Tuple(elts=[ast.Name(id=e_.id, ctx=ast.Store()) for e_ in elems], ctx=ast.Store())
                    used = _loads(restm, iv) > 0
                    if used:
                        new_for = ast.For(target=ast.Tuple(elts=[ast.Name(id=iv, ctx=ast.Store()), elt], ctx=ast.Store()),
                                          iter=ast.Call(func=ast.Name(id='enumerate', ctx=ast.Load()), args=[src], keywords=[]),
                                          body=rest or [ast.Pass()], orelse=[], type_comment=None)
                    else:
                        new_for = ast.For(target=elt, iter=src, body=rest or [ast.Pass()], orelse=[], type_comment=None)
                    block[i:i + 1] = [new_for]
                    continue
        # N13 index loop that never names the element: `for i in range(len(X)): BODY` -> `for i, _ in enumerate(X): BODY`
        #   (X a plain name / attribute chain that BODY neither rebinds nor resizes; `_` not read in BODY)
        if isinstance(st, ast.For) and not st.orelse and isinstance(st.target, ast.Name) and isinstance(st.iter, ast.Call) \
                and isinstance(st.iter.func, ast.Name) and st.iter.func.id == 'range' and len(st.iter.args) == 1 and not st.iter.keywords:
            a0 = st.iter.args[0]
            q = a0.args[0] if isinstance(a0, ast.Call) and isinstance(a0.func, ast.Name) and a0.func.id == 'len' and len(a0.args) == 1 and not a0.keywords else None
            if q is not None and isinstance(q, (ast.Name, ast.Attribute)) and _pure(q):
                iv = st.target.id
                bodym = ast.Module(body=st.body, type_ignores=[])
                qs = ast.unparse(q)
                resized = any(isinstance(m, ast.Call) and isinstance(m.func, ast.Attribute) and ast.unparse(m.func.value) == qs
                              and m.func.attr in ('append', 'insert', 'pop', 'remove', 'clear', 'extend', 'sort', 'reverse', 'resize') for m in ast.walk(bodym)) \
                    or any(isinstance(m, (ast.Name, ast.Attribute)) and isinstance(m.ctx, (ast.Store, ast.Del)) and ast.unparse(m) == qs for m in ast.walk(bodym)) \
                    or any(isinstance(m, ast.Delete) for m in ast.walk(bodym))
                # the root object of the chain (`agent` in `agent.position`) must not be re-bound either
                root = q
                while isinstance(root, ast.Attribute):
                    root = root.value
                rebound = isinstance(root, ast.Name) and _stores(bodym, root.id) > 0
                if not resized and not rebound and _stores(bodym, iv) == 0 and _loads(bodym, '_') == 0 and _stores(bodym, '_') == 0 \
                        and _stores(fn, iv) == 1 and _loads(fn, iv) == _loads(bodym, iv):
                    block[i:i + 1] = [ast.For(target=ast.Tuple(elts=[ast.Name(id=iv, ctx=ast.Store()), ast.Name(id='_', ctx=ast.Store())], ctx=ast.Store()),
                                              iter=ast.Call(func=ast.Name(id='enumerate', ctx=ast.Load()), args=[q], keywords=[]),
                                              body=st.body, orelse=[], type_comment=None)]
                    continue
        # N14 conditional expression as a statement: `T = A if C else B` -> `if C: T = A  else: T = B`
        #   (T a name, or a slot whose container and index are plain names / attribute chains / constants)
        if isinstance(st, ast.Assign) and len(st.targets) == 1 and isinstance(st.value, ast.IfExp) \
                and (isinstance(st.targets[0], ast.Name) or (isinstance(st.targets[0], (ast.Subscript, ast.Attribute)) and _pure_target(st.targets[0]))):
            v = st.value
            block[i:i + 1] = [ast.If(test=v.test,
                                     body=[ast.Assign(targets=[copy.deepcopy(st.targets[0])], value=v.body, type_comment=None)],
                                     orelse=[ast.Assign(targets=[copy.deepcopy(st.targets[0])], value=v.orelse, type_comment=None)])]
            continue
        # N2 explicit counter: `k = 0` ; `for a in X: BODY; k += 1`  ->  `for k, a in enumerate(X): BODY`
        if isinstance(st, ast.Assign) and len(st.targets) == 1 and isinstance(st.targets[0], ast.Name) \
                and isinstance(st.value, ast.Constant) and st.value.value == 0 and type(st.value.value) is int \
                and isinstance(nxt, ast.For) and not nxt.orelse and nxt.body:
            k = st.targets[0].id
            last = nxt.body[-1]
            if isinstance(last, ast.AugAssign) and isinstance(last.op, ast.Add) and isinstance(last.target, ast.Name) and last.target.id == k \
                    and isinstance(last.value, ast.Constant) and last.value.value == 1 and type(last.value.value) is int \
                    and not _own_level(nxt.body, (ast.Continue,)) \
                    and _stores(fn, k) == 2 and _loads(fn, k) == _loads(ast.Module(body=nxt.body[:-1], type_ignores=[]), k) \
                    and not (isinstance(nxt.iter, ast.Call) and isinstance(nxt.iter.func, ast.Name) and nxt.iter.func.id == 'enumerate') \
                    and _loads(nxt.iter, k) == 0:
                new = ast.For(target=ast.Tuple(elts=[ast.Name(id=k, ctx=ast.Store()), nxt.target], ctx=ast.Store()),
                              iter=ast.Call(func=ast.Name(id='enumerate', ctx=ast.Load()), args=[nxt.iter], keywords=[]),
                              body=nxt.body[:-1] or [ast.Pass()], orelse=[], type_comment=None)
                block[i:i + 2] = [new]
                continue
        # N3 single-use temporary: `t = E` ; `TARGET = t` / `return t`  ->  `TARGET = E` / `return E`
        if isinstance(st, ast.Assign) and len(st.targets) == 1 and isinstance(st.targets[0], ast.Name) and nxt is not None:
            t = st.targets[0].id
            if _stores(fn, t) == 1 and _loads(fn, t) == 1:
                if isinstance(nxt, ast.Assign) and len(nxt.targets) == 1 and isinstance(nxt.value, ast.Name) and nxt.value.id == t \
                        and not isinstance(nxt.targets[0], ast.Name):
                    block[i:i + 2] = [ast.Assign(targets=nxt.targets, value=st.value, type_comment=None)]
                    continue
                # … or handed, as the only argument, to a method of a local object the expression does not mention
                # (`a = Agent(…)` ; `agents.append(a)` -> `agents.append(Agent(…))`)
                if isinstance(nxt, ast.Expr) and isinstance(nxt.value, ast.Call) and isinstance(nxt.value.func, ast.Attribute) \
                        and isinstance(nxt.value.func.value, ast.Name) and len(nxt.value.args) == 1 and not nxt.value.keywords \
                        and isinstance(nxt.value.args[0], ast.Name) and nxt.value.args[0].id == t \
                        and nxt.value.func.value.id != t and _loads(st.value, nxt.value.func.value.id) == 0:
                    block[i:i + 2] = [ast.Expr(value=ast.Call(func=nxt.value.func, args=[st.value], keywords=[]))]
                    continue
                if isinstance(nxt, ast.Return) and isinstance(nxt.value, ast.Name) and nxt.value.id == t:
                    block[i:i + 2] = [ast.Return(value=st.value)]
                    continue
        # N4 list built by a loop: `out = []` ; `for v in X: out.append(E)`  ->  `out = [E for v in X]`
        if isinstance(st, ast.Assign) and len(st.targets) == 1 and isinstance(st.targets[0], ast.Name) \
                and isinstance(st.value, ast.List) and not st.value.elts and isinstance(nxt, ast.For) and not nxt.orelse \
                and len(nxt.body) == 1 and isinstance(nxt.target, ast.Name):
            o, v = st.targets[0].id, nxt.target.id
            b = nxt.body[0]
            if isinstance(b, ast.Expr) and isinstance(b.value, ast.Call) and isinstance(b.value.func, ast.Attribute) \
                    and b.value.func.attr == 'append' and isinstance(b.value.func.value, ast.Name) and b.value.func.value.id == o \
                    and len(b.value.args) == 1 and not b.value.keywords and _loads(b.value.args[0], o) == 0 and _loads(nxt.iter, o) == 0 \
                    and _loads_outside_binders(fn, v) == 0 and _stores(nxt.body[0], v) == 0:
                comp = ast.ListComp(elt=b.value.args[0], generators=[ast.comprehension(target=nxt.target, iter=nxt.iter, ifs=[], is_async=0)])
                block[i:i + 2] = [ast.Assign(targets=st.targets, value=comp, type_comment=None)]
                continue
        # N5 loop flag: `f = True` ; `while f: BODY; f = C`  ->  `while True: BODY; if not C: break`
        if isinstance(st, ast.Assign) and len(st.targets) == 1 and isinstance(st.targets[0], ast.Name) \
                and isinstance(st.value, ast.Constant) and st.value.value is True and isinstance(nxt, ast.While) and not nxt.orelse \
                and isinstance(nxt.test, ast.Name) and nxt.test.id == st.targets[0].id and nxt.body:
            f = st.targets[0].id
            last = nxt.body[-1]
            if isinstance(last, ast.Assign) and len(last.targets) == 1 and isinstance(last.targets[0], ast.Name) and last.targets[0].id == f \
                    and _stores(fn, f) == 2 and _loads(fn, f) == 1 and not _own_level(nxt.body, (ast.Continue,)):
                new = ast.While(test=ast.Constant(value=True), body=nxt.body[:-1] + [ast.If(test=_negate(last.value), body=[ast.Break()], orelse=[])],
                                orelse=[])
                block[i:i + 2] = [new]
                continue
        # recurse
        for fld in ('body', 'orelse', 'finalbody'):
            sub = getattr(st, fld, None)
            if isinstance(sub, list) and sub and isinstance(sub[0], ast.stmt) and not isinstance(st, (ast.FunctionDef, ast.ClassDef)):
                loop_body = isinstance(st, (ast.For, ast.While)) and fld == 'body'
                setattr(st, fld, _norm_block(sub, fn, loop_body if isinstance(st, (ast.For, ast.While)) else (in_loop and not isinstance(st, (ast.With, ast.Try)) and False)))
        for h in getattr(st, 'handlers', []) or []:
            h.body = _norm_block(h.body, fn, False)
        out.append(st)
        i += 1
    return out


OBJECTIVE_CALLS = {'function', 'function.pointer'}


def _canon_locals(fn):
    """role-based names for two locals the sweep translators speak about: the local that receives the objective's value
    is called `fit`, the index of the one `enumerate` loop is called `i` (only when those names are free)"""
    ren = {}
    bound = {n.id for n in ast.walk(fn) if isinstance(n, ast.Name) and isinstance(n.ctx, ast.Store)} | {a.arg for a in fn.args.args}
    fits = {st.targets[0].id for st in ast.walk(fn) if isinstance(st, ast.Assign) and len(st.targets) == 1 and isinstance(st.targets[0], ast.Name)
            and isinstance(st.value, ast.Call) and ast.unparse(st.value.func) in OBJECTIVE_CALLS}
    if len(fits) == 1 and 'fit' not in bound:
        ren[next(iter(fits))] = 'fit'
    enums = [st for st in ast.walk(fn) if isinstance(st, ast.For) and isinstance(st.iter, ast.Call) and isinstance(st.iter.func, ast.Name)
             and st.iter.func.id == 'enumerate' and isinstance(st.target, ast.Tuple) and st.target.elts and isinstance(st.target.elts[0], ast.Name)]
    if len(enums) == 1 and 'i' not in bound and _stores(fn, enums[0].target.elts[0].id) == 1:
        ren[enums[0].target.elts[0].id] = 'i'
    # … and the local that holds the task's History object is called `history`
    hists = {st.targets[0].id for st in ast.walk(fn) if isinstance(st, ast.Assign) and len(st.targets) == 1 and isinstance(st.targets[0], ast.Name)
             and isinstance(st.value, ast.Call) and ast.unparse(st.value.func).split('.')[-1] == 'History'}
    if len(hists) == 1 and 'history' not in bound and _stores(fn, next(iter(hists))) == 1:
        ren[next(iter(hists))] = 'history'
    if ren:
        for n in ast.walk(fn):
            if isinstance(n, ast.Name) and n.id in ren:
                n.id = ren[n.id]
    return fn


class _FoldFStrings(ast.NodeTransformer):
    """N8 an f-string all of whose fields are string literals (after a helper's argument was substituted) is that string"""
    def visit_JoinedStr(self, node):
        self.generic_visit(node)
        parts = []
        for v in node.values:
            if isinstance(v, ast.Constant) and isinstance(v.value, str):
                parts.append(v.value)
            elif isinstance(v, ast.FormattedValue) and isinstance(v.value, ast.Constant) and isinstance(v.value.value, str) \
                    and v.conversion == -1 and v.format_spec is None:
                parts.append(v.value.value)
            else:
                return node
        return ast.copy_location(ast.Constant(value=''.join(parts)), node)


def normalise_tree(tree):
    tree = _FoldFStrings().visit(tree)
    for fn in [n for n in ast.walk(tree) if isinstance(n, ast.FunctionDef)]:
        for _ in range(4):
            before = ast.dump(fn)
            fn.body = _norm_block(fn.body, fn, False)
            if ast.dump(fn) == before:
                break
        _canon_locals(fn)
    ast.fix_missing_locations(tree)
    return tree


_parse_inlined = parse


def parse(path):
    tree = _parse_inlined(path)
    if os.environ.get('VERIF_NO_NORMALISE'):
        return tree
    try:
        return normalise_tree(copy.deepcopy(tree))
    except Exception:
        return tree
