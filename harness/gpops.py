"""Shared by C08 / C09: drive TreeSpace.grow, GP._mutate, GP._cross, GP._reproduction under
scripted draws and compare with the Lean model (canonical forms) and with Python references."""
import collections
import common, lib, treeutil as T


class Script:
    """replaces opytimizer.math.random.generate_uniform_random_number for integer index draws"""

    def __init__(self, rng, forced=(), clamp=False):
        self.rng = rng
        self.clamp = clamp
        self.forced = list(forced)
        self.log = []

    def install(self):
        L = lib.load()
        import opytimizer.math.random as r
        self.mod = r
        self.orig = r.generate_uniform_random_number
        np = L['np']

        def scripted(*args, **kw):
            if 'size' in kw or len(args) > 2:
                return self.orig(*args, **kw)
            low = args[0] if len(args) > 0 else 0.0
            high = args[1] if len(args) > 1 else 1.0
            if self.forced:
                d = self.forced.pop(0)
                # a forced draw recorded under another reading of the code may lie outside the range asked for now: a
                # uniform draw never does
                if self.clamp and int(high) > int(low):
                    d = min(max(d, int(low)), int(high) - 1)
            else:
                d = self.rng.randrange(int(low), max(int(low) + 1, int(high)))
            self.log.append((int(low), int(high), d))
            return np.array([d + 0.25])
        r.generate_uniform_random_number = scripted
        return self

    def remove(self):
        self.mod.generate_uniform_random_number = self.orig


def make_space(rng, n_trees=2, funcs=None, n_terminals=None, min_depth=1, max_depth=None, nv=1):
    L = lib.load()
    np = L['np']
    funcs = funcs if funcs is not None else rng.sample(T.OPS, rng.randint(1, 5))
    nT = n_terminals or rng.randint(1, 3)
    mx = max_depth if max_depth is not None else min_depth + rng.randint(0, 3)
    np.random.seed(rng.randrange(1 << 30))
    sp = L['TreeSpace'](n_trees=n_trees, n_terminals=nT, n_variables=nv, n_iterations=1, min_depth=min_depth,
                        max_depth=mx, functions=funcs, lower_bound=[0.0] * nv, upper_bound=[1.0] * nv)
    return sp


def model_grow(drv, sp, draws, k, cmd='t.grow'):
    """`cmd='w.grow'` runs the method as the translator read it (GrowProg) instead of the hand-written model"""
    funcs = [T.OPS.index(f) for f in sp.functions]
    out = drv.ask(f'{cmd} {common.enc_ints(funcs)} {sp.n_terminals} {k} {common.enc_ints(draws)}')
    if out == 'error':
        return None
    tree, rest = out.split(' ')
    return tree


def struct(n):
    if n is None:
        return None
    return (str(n.name), n.type, struct(n.left), struct(n.right))


def replace_slot(root, slot_parent, side, new_struct):
    """structure of `root` with the child of `slot_parent` on `side` replaced"""
    def go(n):
        if n is None:
            return None
        l = new_struct if (n is slot_parent and side) else go(n.left)
        r = new_struct if (n is slot_parent and not side) else go(n.right)
        return (str(n.name), n.type, l, r)
    return go(root)


def slot_of(root, p):
    """(parent node, side) selected by find_node(p) according to its *definition*"""
    pre = T.ref_pre(root)
    e = T.ref_find(root, p)
    if e[0] != 'slot':
        return None
    q = next(n for n in pre if id(n) == e[1])
    return q, e[2]


def labels(n):
    return collections.Counter(str(x.name) for x in T.ref_pre(n))


def node_ids(n):
    return [id(x) for x in T.walk(n)[0]]


def arrays_shared(a, b):
    L = lib.load()
    np = L['np']
    va = [x.value for x in T.walk(a)[0] if x.value is not None]
    vb = [x.value for x in T.walk(b)[0] if x.value is not None]
    return any(np.shares_memory(x, y) for x in va for y in vb)
