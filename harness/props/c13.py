"""C13 — hypercomplex span() maps the unit box into the bounds; HyperSpace keeps agents in the unit box."""
import math
import common, lib, findings
from comp import Comp
from common import enc_bits, dec_bits, fbits


def allowance(lb, ub):
    return 2 * max(math.ulp(abs(lb)) if lb else 5e-324, math.ulp(abs(ub)) if ub else 5e-324, math.ulp(abs(ub - lb)) if ub != lb else 5e-324)


def gen_array(rng, np, v, d):
    mode = rng.choice(['random', 'zeros', 'ones', 'corner', 'denormal', 'axis'])
    a = np.empty((v, d))
    for j in range(v):
        for k in range(d):
            a[j, k] = {'random': rng.random(), 'zeros': 0.0, 'ones': 1.0, 'corner': float(rng.random() < 0.5),
                       'denormal': rng.choice([5e-324, 1e-310, 0.0, 1.0]), 'axis': 1.0 if k == 0 else 0.0}[mode]
    return mode, a


def gen_bounds(rng, v):
    mode = rng.choice(['unit', 'neg', 'huge', 'degenerate', 'offset', 'tiny', 'asym', 'nearmax'])
    lb, ub = [], []
    for j in range(v):
        if mode == 'unit':
            l, u = 0.0, 1.0
        elif mode == 'neg':
            l = -round(rng.uniform(1, 9), 2); u = l + round(rng.uniform(0.1, 5), 2)
        elif mode == 'huge':
            l, u = -1e12 * rng.random(), 1e12 * rng.random()
        elif mode == 'nearmax':
            # a finite range close to the largest double: the map must not overflow on the way
            fm = 1.7976931348623157e308
            l, u = rng.choice([(0.0, 0.9 * fm), (-0.45 * fm, 0.45 * fm), (-0.9 * fm, 0.0), (0.25 * fm, 0.95 * fm)])
        elif mode == 'degenerate':
            l = round(rng.uniform(-3, 3), 2); u = l
        elif mode == 'offset':
            l = round(rng.uniform(-5, 5), 1); u = l + round(rng.uniform(0.1, 7), 1)
        elif mode == 'tiny':
            l = 1e-9 * rng.random(); u = l + 1e-12
        else:
            l, u = -0.8, 2.4
        lb.append(l); ub.append(u)
    return mode, lb, ub


def judge(C, np, span, arr, lb, ub, out, rp):
    known_ids = {f['id'] for f in findings.load()['findings']}
    for j in range(len(lb)):
        a = allowance(lb[j], ub[j])
        y = float(out[j])
        if not (lb[j] - a <= y <= ub[j] + a):
            C.issue('span-out-of-bounds', 'oracle', rp, variable=j, value=y, lb=lb[j], ub=ub[j])
        elif not (lb[j] <= y <= ub[j]):
            C.issue('span-rounding-excursion', 'oracle', rp, variable=j, value=y, lb=lb[j], ub=ub[j],
                    known='K7' if 'K7' in known_ids else None)
    if np.all(arr == 0) and not np.array_equal(out, np.asarray(lb, dtype=float)):
        C.issue('zeros-not-lower-bound', 'oracle', rp, out=out.tolist())
    if np.all(arr == 1):
        for j in range(len(lb)):
            if abs(out[j] - ub[j]) > allowance(lb[j], ub[j]):
                C.issue('ones-not-upper-bound', 'oracle', rp, out=out.tolist())


def held_population(L, np, p):
    """A caller that fetches the population of a hypercomplex space ONCE, keeps the agent objects, moves them in place
    (`position +=`, or a new array through the agent's position setter) and calls `space.check_limits()` after every move
    without reading `space.agents` again; after every call each kept agent must be inside the unit box (looked at through
    the kept references first, through the space at the very end).  Deterministic given `p`; returns the failures."""
    np.random.seed(p['seed'])
    sp = L['HyperSpace'](n_agents=p['n_agents'], n_variables=p['v'], n_dimensions=p['d'], n_iterations=1,
                         lower_bound=p['lb'], upper_bound=p['ub'])
    held = list(sp.agents)
    bad = []

    def outside(a):
        q = np.asarray(a.position, dtype=float)
        return int(np.sum(~((q >= 0) & (q <= 1))))

    for step in range(p['steps']):
        for i, a in enumerate(held):
            delta = np.random.normal(0, p['sigma'], a.position.shape)
            if i == step % len(held):
                delta = np.abs(delta) + 1.5        # this one certainly leaves the box (upwards; downwards on odd steps)
                if step % 2:
                    delta = -delta
            if p['assign']:
                a.position = a.position + delta
            else:
                a.position += delta
        for _ in range(p['calls']):
            sp.check_limits()
        n_out = sum(outside(a) for a in held)
        if n_out:
            bad.append(dict(step=step, components_outside=n_out, example=[x.position.tolist() for x in held if outside(x)][0]))
    if len(sp.agents) != len(held) or any(x is not y for x, y in zip(sp.agents, held)):
        bad.append(dict(step='end', population_replaced=True))
    elif sum(outside(a) for a in sp.agents):
        bad.append(dict(step='end', components_outside=sum(outside(a) for a in sp.agents)))
    return bad


def check(ctx):
    L = lib.load()
    np = L['np']
    import opytimizer.math.hypercomplex as hc
    C = Comp(ctx, 'one case = one (array in [0,1]^(v x d), bounds) pair through the real span() and the Lean Float twin of the model proved about over the reals (bit-exact, d <= 7), with the float-level range oracle (2-ulp allowance), end points, dependence on the norm only and monotonicity in the norm; non-trivial = v != d or a corner/denormal array or a negative/huge/degenerate range',
             ['real-number theorems; IEEE rounding modelled (K7: excursions <= 2 ulp)', 'd <= 7 so that NumPy\'s reduction is a left fold'])
    drv = common.Driver()
    try:
        for lb_, ub_ in (([-0.5], [0.5]), ([-0.5, 0.25], [0.5, 2.75]), ([0.1, -3.3, 1e-3], [0.9, 7.7, 2e-3])):
            v_ = len(lb_)
            for corner in (0, 1):
                for d_ in (1, 2, 3):
                    ai = np.full((v_, d_), corner, dtype=np.int64)
                    of_ = hc.span(ai.astype(float), lb_, ub_)
                    rp_ = dict(how='span', arr=ai.tolist(), lb=lb_, ub=ub_, dtype='int64')
                    try:
                        oi_ = hc.span(ai, lb_, ub_)
                    except Exception as ex:
                        C.issue('span-depends-on-dtype', 'oracle', rp_, error=type(ex).__name__ + ': ' + str(ex)[:80])
                        continue
                    if not np.array_equal(np.asarray(oi_), np.asarray(of_), equal_nan=True):
                        C.issue('span-depends-on-dtype', 'oracle', rp_, integer=np.asarray(oi_).tolist(), floats=np.asarray(of_).tolist())
                    judge(C, np, hc.span, ai.astype(float), lb_, ub_, np.asarray(oi_, dtype=float), rp_)
                    C.case(key=('int-corner', tuple(lb_), corner, d_), nontrivial=True, kind='int-corner')
        reps = 400 if ctx['tier'] == 'quick' else 6000
        lines, exp, meta = [], [], []
        for k in range(reps):
            v, d = C.rng.randint(1, 7), C.rng.randint(1, 7)
            amode, arr = gen_array(C.rng, np, v, d)
            bmode, lb, ub = gen_bounds(C.rng, v)
            out = hc.span(arr, lb, ub)
            rp = dict(how='span', arr=arr.tolist(), lb=lb, ub=ub)
            if tuple(out.shape) != (v,):
                C.issue('span-shape', 'oracle', rp, shape=out.shape)
                continue
            judge(C, np, hc.span, arr, lb, ub, out, rp)
            # depends only on the norm: permuting the dimensions of every variable changes nothing but rounding
            perm = np.array([row[C.rng.sample(range(d), d)] for row in arr])
            out2 = hc.span(perm, lb, ub)
            for j in range(v):
                if abs(out2[j] - out[j]) > 4 * allowance(lb[j], ub[j]) + 4 * math.ulp(abs(out[j]) + 1e-300):
                    C.issue('span-depends-on-more-than-norm', 'oracle', rp, a=out.tolist(), b=out2.tolist())
            # monotone in the norm: scaling the array down cannot increase the image
            out3 = hc.span(arr * 0.5, lb, ub)
            for j in range(v):
                if out3[j] > out[j] + allowance(lb[j], ub[j]):
                    C.issue('span-not-monotone', 'oracle', rp, full=out.tolist(), half=out3.tolist())
            # bounds given as arrays (as spaces hold them), same objects used twice: arguments untouched, same answer
            lba, uba, arr2 = np.array(lb, dtype=float), np.array(ub, dtype=float), np.array(arr, copy=True)
            o1 = hc.span(arr2, lba, uba)
            o2 = hc.span(arr2, lba, uba)
            if not (np.array_equal(lba, np.array(lb, dtype=float)) and np.array_equal(uba, np.array(ub, dtype=float)) and np.array_equal(arr2, arr)):
                C.issue('span-modified-its-arguments', 'oracle', dict(rp, bounds='ndarray'))
            elif not (np.array_equal(o1, out, equal_nan=True) and np.array_equal(o2, out, equal_nan=True)):
                C.issue('span-not-a-function-of-its-arguments', 'oracle', dict(rp, bounds='ndarray'), first=o1.tolist(), second=o2.tolist(), lists=out.tolist())
            # the same point written with whole numbers (unit-box corners as an integer-typed array): the same image
            if np.all((arr == 0) | (arr == 1)):
                try:
                    oi = hc.span(arr.astype(np.int64), lb, ub)
                    if not np.array_equal(oi, out, equal_nan=True):
                        C.issue('span-depends-on-dtype', 'oracle', dict(rp, dtype='int64'), integer=np.asarray(oi).tolist(), floats=out.tolist())
                except Exception as ex:
                    C.issue('span-depends-on-dtype', 'oracle', dict(rp, dtype='int64'), error=type(ex).__name__ + ': ' + str(ex)[:80])
            lines.append(f"n.span {enc_bits(lb)} {enc_bits(ub)} {';'.join(enc_bits(r) for r in arr)}")
            exp.append([fbits(x) for x in out])
            meta.append(rp)
            C.case(key=(enc_bits(arr.reshape(-1)), tuple(lb), tuple(ub)), nontrivial=(v != d or amode in ('corner', 'denormal') or bmode != 'unit'),
                   kind=f'{amode}/{bmode}', sample=dict(rp, out=out.tolist()) if v != d else None)
        outs = drv.ask_many(lines)
        for o, x, rp in zip(outs, exp, meta):
            m = [] if o == '-' else [int(t) for t in o.split(',')]
            if m != x:
                C.issue('span-mismatch', 'correspondence', rp, model=[common.bits2f(b) for b in m], real=[common.bits2f(b) for b in x])
        # `span` as the translator read it from the current source, evaluated row by row in Lean Float (bit-exact):
        # validates the translator's reading against the running code
        tl, tx = [], []
        for x, rp in list(zip(exp, meta))[:150]:
            for j, row in enumerate(rp['arr']):
                tl.append(f"fx span - lb={fbits(float(rp['lb'][j]))},ub={fbits(float(rp['ub'][j]))} {enc_bits(row)}")
                tx.append((x[j], rp))
        for o, (xb, rp) in zip(drv.ask_many(tl), tx):
            if not o.isdigit() or int(o) != xb:
                C.issue('translated-span-mismatch', 'correspondence', rp, model=o[:60], real=xb)
                break
        C.extra['translated_span_rows'] = len(tl)
        # hypercomplex spaces stay in the unit box for any declared bounds
        for k in range(30 if ctx['tier'] == 'quick' else 300):
            v, d = C.rng.randint(1, 4), C.rng.randint(1, 4)
            bmode, lb, ub = gen_bounds(C.rng, v)
            np.random.seed(C.rng.randrange(1 << 30))
            sp = L['HyperSpace'](n_agents=3, n_variables=v, n_dimensions=d, n_iterations=1, lower_bound=lb, upper_bound=ub)
            if any(np.any(a.position < 0) or np.any(a.position > 1) for a in sp.agents):
                C.issue('hyper-initial-position-outside-unit-box', 'oracle', dict(how='hyper', lb=lb, ub=ub, v=v, d=d))
            if k < (2 if ctx['tier'] == 'quick' else 10):
                # a large space: a sampling rule whose tails leave the unit box with small probability shows here
                big = L['HyperSpace'](n_agents=300, n_variables=8, n_dimensions=32, n_iterations=1, lower_bound=[-1.0] * 8, upper_bound=[2.0] * 8)
                lo_ = min(float(a.position.min()) for a in big.agents)
                hi_ = max(float(a.position.max()) for a in big.agents)
                if lo_ < 0 or hi_ > 1:
                    C.issue('hyper-initial-position-outside-unit-box', 'oracle', dict(how='hyper-big', seed=k), low=lo_, high=hi_)
                C.case(key=('hyper-big', k), nontrivial=True, kind='hyper-big')
            for a in sp.agents:
                a.position += np.random.normal(0, 3, a.position.shape)
            rp = dict(how='hyper', lb=lb, ub=ub, v=v, d=d)
            # the agent's own limit enforcement (what trial-evaluating optimisers call) is the unit box too
            a0 = sp.agents[0]
            a0.check_limits()
            if np.any(a0.position < 0) or np.any(a0.position > 1):
                C.issue('hyper-agent-own-limits-not-unit-box', 'oracle', rp, pos=a0.position.tolist(), agent_lb=np.asarray(a0.lb).tolist(), agent_ub=np.asarray(a0.ub).tolist())
            sp.check_limits()
            for a in sp.agents:
                if np.any(a.position < 0) or np.any(a.position > 1):
                    C.issue('hyper-agent-outside-unit-box', 'oracle', rp, pos=a.position.tolist())
                s = hc.span(a.position, lb, ub)
                judge(C, np, hc.span, a.position, lb, ub, s, dict(how='span', arr=a.position.tolist(), lb=lb, ub=ub))
            C.case(key=('hyper', tuple(lb), tuple(ub), v, d), nontrivial=bmode != 'unit', kind='hyperspace')
        # ... also for a caller that keeps the agent objects and never asks the space for them again between checks
        for k in range(6 if ctx['tier'] == 'quick' else 40):
            v, d = C.rng.randint(1, 4), C.rng.randint(1, 4)
            bmode, lb, ub = gen_bounds(C.rng, v)
            p = dict(how='hyper-held', lb=lb, ub=ub, v=v, d=d, n_agents=C.rng.randint(1, 5), steps=C.rng.randint(3, 6),
                     sigma=C.rng.choice([0.4, 3.0]), assign=bool(k % 2), calls=1 + (k % 3 == 2), seed=C.rng.randrange(1 << 30))
            bad = held_population(L, np, p)
            if bad:
                C.issue('hyper-agent-outside-unit-box', 'oracle', p, scenario='population kept by the caller, check_limits() after every move',
                        first=bad[0], failing_steps=[b['step'] for b in bad])
            C.case(key=('hyper-held', tuple(lb), tuple(ub), v, d, p['n_agents'], p['steps'], p['assign']), nontrivial=True, kind='hyperspace-held-population')
        # optimisation runs on hypercomplex spaces with bounds outside [0, 1]: every evaluated point in the unit box
        import runpass, runlevel
        kinds = ['ABC', 'HS', 'SA', 'BHA', 'PSO', 'CS', 'FPA', 'BA'] if ctx['tier'] == 'quick' else [k for k in runlevel.KINDS if k != 'GP']
        for kind in kinds:
            cfg = dict(kind=kind, space='hyper', n_agents=4, n_vars=2, n_dims=C.rng.randint(1, 3), n_iter=3, box='offset',
                       lb=[-10.0, -3.0], ub=[10.0, 7.0], objective='sphere', rettype='py', hyper={}, adv=0.15, hook='observer',
                       store_best_only=False, seed=C.rng.randrange(1 << 30))
            for variant in (cfg, dict(cfg, reassign_bounds=True, n_iter=6, n_agents=6, adv=0.3, objective='outside', seed=cfg['seed'] + 1)):
                # (second variant: the bounds re-declared through the space's setters after construction — same values)
                r = runpass.analyse_run(variant, drv, props=['C01'])
                for i in r['issues']['C01']:
                    if not i.get('known'):
                        C.issue('hyper-run-' + i['what'], 'oracle', dict(how='runlevel', cfg=variant, what=i['what']), detail=str(i)[:300])
                        break
                C.case(key=('hyper-run', kind, bool(variant.get('reassign_bounds'))), nontrivial=True, kind='hyper-run')
    finally:
        drv.close()
    return C.result()


def search(ctx, corr, broken):
    res = check(dict(ctx, tier='thorough'))
    for i in res['issues']:
        if i['layer'] == 'oracle' and not i.get('known'):
            return i
    return None


def replay(prop, payload):
    L = lib.load()
    np = L['np']
    import opytimizer.math.hypercomplex as hc
    if payload.get('how') == 'runlevel':
        import runpass
        drv = common.Driver()
        try:
            r = runpass.analyse_run(payload['cfg'], drv, props=['C01'])
        finally:
            drv.close()
        return any(not i.get('known') for i in r['issues']['C01'])
    if payload.get('how') == 'hyper-held':
        return bool(held_population(L, np, payload))
    if payload.get('how') != 'span':
        res = check(dict(seed=0, tier='quick', prop=prop))
        return any(i['layer'] == 'oracle' and not i.get('known') for i in res['issues'])
    C = Comp(dict(seed=0, tier='quick'), '')
    arr = np.array(payload['arr'], dtype=float)
    if payload.get('bounds') == 'ndarray':
        # bounds handed over as float arrays, the same objects used for two calls
        lb, ub = payload['lb'], payload['ub']
        lba, uba, arr2 = np.array(lb, dtype=float), np.array(ub, dtype=float), np.array(arr, copy=True)
        o1 = hc.span(arr2, lba, uba)
        o2 = hc.span(arr2, lba, uba)
        return (not (np.array_equal(lba, np.array(lb, dtype=float)) and np.array_equal(uba, np.array(ub, dtype=float))
                     and np.array_equal(arr2, arr))) or not np.array_equal(o1, o2, equal_nan=True)
    if payload.get('dtype') == 'int64':
        try:
            oi = hc.span(np.array(payload['arr'], dtype=np.int64), payload['lb'], payload['ub'])
        except Exception:
            return True
        of_ = hc.span(arr, payload['lb'], payload['ub'])
        return not np.array_equal(np.asarray(oi), np.asarray(of_), equal_nan=True)
    out = hc.span(arr, payload['lb'], payload['ub'])
    judge(C, np, hc.span, arr, payload['lb'], payload['ub'], out, payload)
    return any(not i.get('known') for i in C.issues)
