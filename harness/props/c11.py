"""C11 — tree measurements and traversals agree with their definitions."""
import common, lib, treeutil as T
from comp import Comp


def check_tree(C, drv, root, tag, exhaustive_idx=True, recipe=None):
    L = lib.load()
    nodes, dup = T.walk(root)
    idx = {id(n): i for i, n in enumerate(nodes)}
    enc = T.enc_tree(root)
    n = len(nodes)
    # real code
    # nodes the traversal lists that are not in the tree at all get index -1 (a stale / foreign node)
    real_pre = [idx.get(id(x), -1) for x in root.pre_order]
    real_post = [idx.get(id(x), -1) for x in root.post_order]
    real_props = (root.min_depth, root.max_depth, root.n_leaves, root.n_nodes)
    ps = list(range(0, n + 2))
    real_find = []
    for p in ps:
        try:
            a, b = root.find_node(p)
            real_find.append('noslot' if a is None else f'slot {idx.get(id(a), -1)} {1 if b else 0}')
        except AttributeError:
            real_find.append('error')
    lines = [f't.pre {enc}', f't.post {enc}', f't.props {enc}'] + [f't.find {enc} {p}' for p in ps]
    outs = drv.ask_many(lines)
    # the traversal programs as the translator read them from the current source, run by the Lean interpreter
    wouts = drv.ask_many([f'w.pre {enc}', f'w.post {enc}'])
    if not dup and -1 not in real_pre and -1 not in real_post:
        if common.dec_ints(wouts[0]) != real_pre:
            C.issue('translated-pre-order-mismatch', 'correspondence', dict(how='tree', tree=enc), model=wouts[0][:120], real=real_pre)
        if common.dec_ints(wouts[1]) != real_post:
            C.issue('translated-post-order-mismatch', 'correspondence', dict(how='tree', tree=enc), model=wouts[1][:120], real=real_post)
        C.extra['translated_walks_run'] = C.extra.get('translated_walks_run', 0) + 2
        po = drv.ask(f'w.props {enc}')
        if po != ' '.join(str(v) for v in real_props):
            C.issue('translated-properties-mismatch', 'correspondence', dict(how='tree', tree=enc), model=po, real=real_props)
        fouts = drv.ask_many([f'w.find {enc} {p}' for p in ps])
        for p, o, r in zip(ps, fouts, real_find):
            if o != r:
                C.issue('translated-find-node-mismatch', 'correspondence', dict(how='tree', tree=enc, p=p), model=o, real=r)
                break
    model_pre = common.dec_ints(outs[0])
    model_post = common.dec_ints(outs[1])
    rp = dict(how='tree', tree=enc)
    if recipe is not None:
        rp['recipe'] = recipe   # the operations on the real code that produced this tree (replayed as a whole)
    if model_pre != real_pre:
        C.issue('pre-order-mismatch', 'correspondence', rp, model=model_pre, real=real_pre)
    if model_post != real_post:
        C.issue('post-order-mismatch', 'correspondence', rp, model=model_post, real=real_post)
    if outs[2] != ' '.join(str(v) for v in real_props):
        C.issue('properties-mismatch', 'correspondence', rp, model=outs[2], real=real_props)
    for p, o, r in zip(ps, outs[3:], real_find):
        if o != r:
            C.issue('find-node-mismatch', 'correspondence', dict(rp, p=p), model=o, real=r)
    # direct oracle: the definitions
    ref = T.ref_props(root)
    if real_props != (ref['min_depth'], ref['max_depth'], ref['n_leaves'], ref['n_nodes']):
        C.issue('measurement-wrong', 'oracle', rp, real=real_props, reference=ref)
    if real_pre != [idx[id(x)] for x in T.ref_pre(root)]:
        C.issue('pre-order-wrong', 'oracle', rp, real=real_pre)
    if real_post != [idx[id(x)] for x in T.ref_post(root)]:
        C.issue('post-order-wrong', 'oracle', rp, real=real_post)
    for p, r in zip(ps, real_find):
        if p >= 1:
            e = T.ref_find(root, p)
            es = 'noslot' if e[0] == 'noslot' else ('error' if e[0] == 'error' else f'slot {idx[e[1]]} {1 if e[2] else 0}')
            if es != r:
                C.issue('find-node-wrong', 'oracle', dict(rp, p=p), real=r, reference=es)
    C.case(key=enc, nontrivial=n >= 3, kind=tag, sample=dict(tree=enc, pre=real_pre, post=real_post, props=real_props,
                                                                  find=dict(zip(ps, real_find))))


def _tup(x):
    return tuple(_tup(y) for y in x) if isinstance(x, (list, tuple)) else x


def run_recipe(C, drv, rc):
    """a short history of operations on real Node objects, every intermediate tree checked; deterministic
    given the recipe, so a replay file reproduces it"""
    import copy as _copy
    L = lib.load()
    np = L['np']
    rc = dict(rc)
    if rc['kind'] == 'history':
        root = T.build(_tup(rc['shape']))
        check_tree(C, drv, root, 'history-before', recipe=rc)
        nodes, _ = T.walk(root)
        deep = [n for n in nodes if n.parent is not None and n.parent.parent is not None]
        if not deep:
            return
        d_ = deep[rc['pick'] % len(deep)]
        branch = T.build(_tup(rc['branch']))
        par = d_.parent
        if d_.flag:
            par.left = branch
            branch.flag = True
        else:
            par.right = branch
            branch.flag = False
        branch.parent = par
        check_tree(C, drv, root, 'history-after-edit', recipe=rc)
        check_tree(C, drv, _copy.deepcopy(root), 'history-deepcopy', recipe=rc)
    elif rc['kind'] == 'subtree':
        root = T.build(_tup(rc['shape']))
        nodes, _ = T.walk(root)
        if rc.get('measured_first'):
            _ = (root.pre_order, root.n_nodes)
        for k_, nd_ in enumerate(nodes):
            if nd_.parent is not None:
                check_part(C, nd_, 'subtree', dict(rc, at=k_))
    elif rc['kind'] == 'childlinks':
        def mk(s_):
            if s_ == 'L':
                return L['Node'](name=0, type='TERMINAL', value=np.array([[0.5]]))
            kids = [mk(c_) for c_ in s_[1:]]
            return L['Node'](name='ABS' if s_[0] == 'U' else 'SUM', type='FUNCTION', left=kids[0], right=kids[1] if len(kids) > 1 else None)
        check_part(C, mk(_tup(rc['shape'])), 'childlinks', dict(rc, at=0))
    elif rc['kind'] == 'topdown':
        # a tree assembled top-down, the root measured after every step; `parent.<side> = child` is done before
        # `child.parent = parent` (order 'child-first') or after it
        def mkleaf():
            return L['Node'](name=0, type='TERMINAL', value=np.array([[0.5]]))
        def mkfun(shape):
            return L['Node'](name='ABS' if shape[0] == 'U' else 'SUM', type='FUNCTION')
        shape = _tup(rc['shape'])
        if shape == 'L':
            return
        root = mkfun(shape)
        todo = [(root, shape)]
        step = 0
        while todo:
            par, sh = todo.pop(0)
            for k_, sub in enumerate(sh[1:]):
                ch = mkleaf() if sub == 'L' else mkfun(sub)
                if rc['order'] == 'child-first':
                    if k_ == 0:
                        par.left = ch
                    else:
                        par.right = ch
                        ch.flag = False
                    _ = (root.n_nodes, root.max_depth) if rc.get('measure_between') else None
                    ch.parent = par
                else:
                    ch.parent = par
                    if k_ == 0:
                        par.left = ch
                    else:
                        par.right = ch
                        ch.flag = False
                step += 1
                check_part(C, root, 'topdown', dict(rc, at=step))
                if sub != 'L':
                    todo.append((ch, sub))
        check_tree(C, drv, root, 'topdown-finished', recipe=rc)
    elif rc['kind'] == 'childlinks-edit':
        def mk(s_):
            if s_ == 'L':
                return L['Node'](name=0, type='TERMINAL', value=np.array([[0.5]]))
            kids = [mk(c_) for c_ in s_[1:]]
            return L['Node'](name='ABS' if s_[0] == 'U' else 'SUM', type='FUNCTION', left=kids[0], right=kids[1] if len(kids) > 1 else None)
        root = mk(_tup(rc['shape']))
        check_part(C, root, 'childlinks', dict(rc, at=0))
        # replace a grandchild (no parent links anywhere), measure again
        inner = [n for n in T.walk(root)[0] if n is not root and n.type == 'FUNCTION']
        if inner:
            d_ = inner[rc['pick'] % len(inner)]
            d_.left = mk(_tup(rc['branch']))
            check_part(C, root, 'childlinks', dict(rc, at=1))
    elif rc['kind'] == 'large':
        import sys as _sys
        _sys.setrecursionlimit(max(_sys.getrecursionlimit(), 5000))
        nm_ = rc['name']
        kind_, n_ = nm_.split('-')
        n_ = int(n_)
        s_ = 'L'
        if kind_ == 'chain':
            for _ in range(n_):
                s_ = ('U', s_)
        elif kind_ == 'comb':
            for _ in range(n_):
                s_ = ('B', s_, 'L')
        else:
            def _f(d_):
                return 'L' if d_ == 0 else ('B', _f(d_ - 1), _f(d_ - 1))
            s_ = _f(n_)
        check_part(C, T.build(s_), 'large', dict(rc, at=0))
    elif rc['kind'] == 'link-order':
        side = rc['side']
        p_ = L['Node'](name='SUM', type='FUNCTION')
        other = L['Node'](name=0, type='TERMINAL', value=np.array([[0.5]]))
        ch = L['Node'](name='ABS', type='FUNCTION')
        inner = L['Node'](name='SUM', type='FUNCTION')
        leaf = L['Node'](name=0, type='TERMINAL', value=np.array([[0.5]]))
        leaf2 = L['Node'](name=0, type='TERMINAL', value=np.array([[0.5]]))
        ch.left = inner
        inner.parent = ch
        inner.left = leaf
        leaf.parent = inner
        inner.right = leaf2
        leaf2.flag = False
        leaf2.parent = inner
        if side:
            p_.right = other; other.flag = False
        else:
            p_.left = other
        other.parent = p_
        for step in rc['order']:
            if step == 'flag':
                ch.flag = side
            elif step == 'parent':
                ch.parent = p_
            elif side:
                p_.left = ch
            else:
                p_.right = ch
        check_tree(C, drv, p_, 'link-order', recipe=rc)
    elif rc['kind'] == 'mirror':
        # the two children of one binary node re-seated inside their parent (a mirror: left <-> right), flags following,
        # measured before and after; every order of the four assignments the sequence rc['order'] names
        import random as _random
        r_ = _random.Random(rc['seed'])
        root = T.build(_tup(rc['shape']))
        nodes, _ = T.walk(root)
        bins = [n for n in nodes if n.left is not None and n.right is not None]
        if not bins:
            return
        n_ = bins[rc['at'] % len(bins)]
        if rc.get('measure_first'):
            _ = (root.n_nodes, root.n_leaves, root.min_depth, root.max_depth, root.pre_order, root.post_order)
        a, b = n_.left, n_.right
        for step in rc['order']:
            if step == 'left':
                n_.left = b
            elif step == 'right':
                n_.right = a
            elif step == 'flag-b':
                b.flag = True
            else:
                a.flag = False
        check_tree(C, drv, root, 'mirror', recipe=rc)
    elif rc['kind'] == 'pruned':
        # one argument of a binary node is taken away (`node.left = None` / `node.right = None`): what remains is
        # still a tree (a node whose only child hangs on the right, or a binary operator with its first argument only),
        # and "every node exactly once, root-left-right" is stated for every tree
        root = T.build(_tup(rc['shape']))
        bins = [n for n in T.walk(root)[0] if n.left is not None and n.right is not None]
        if not bins:
            return
        n_ = bins[rc['at'] % len(bins)]
        if rc.get('measure_first'):
            _ = (root.n_nodes, root.n_leaves, root.min_depth, root.max_depth, root.pre_order, root.post_order)
        if rc['side'] == 'left':
            n_.left = None
        else:
            n_.right = None
        check_tree(C, drv, root, 'pruned-' + rc['side'], recipe=rc)
        for k_, nd_ in enumerate(T.walk(root)[0]):
            if nd_.parent is not None and nd_.type == 'FUNCTION':
                check_part(C, nd_, 'subtree', dict(rc, sub=k_))
    elif rc['kind'] == 'copies':
        import gc, pickle, random as _random
        r_ = _random.Random(rc['seed'])
        shapes_ = T.shapes_upto(3)
        # all source trees are built first: from here on no setter runs, trees only come to life as copies, are
        # measured and are freed again (the next copy may reuse the freed addresses)
        pool_ = [T.build(r_.choice(shapes_)) for _ in range(40)]
        blobs_ = [pickle.dumps(t_) for t_ in pool_]
        for k in range(rc['n']):
            i_ = r_.randrange(len(pool_))
            cpy = _copy.deepcopy(pool_[i_]) if k % 2 else pickle.loads(blobs_[i_])
            check_tree(C, drv, cpy, 'fresh-copy', recipe=rc)
            del cpy
            if k % 4 != 3:
                gc.collect()
    elif rc['kind'] == 'gp':
        import gpops, random as _random
        gp = L['kinds']['GP']()
        fa, mo = T.build(_tup(rc['fa'])), T.build(_tup(rc['mo']), ops=None)
        _ = (fa.pre_order, fa.post_order, fa.n_nodes, mo.pre_order, mo.n_nodes)
        pk = rc['picks']
        sc = gpops.Script(_random.Random(0), forced=[1 + pk[0] % fa.n_nodes, 1 + pk[1] % mo.n_nodes]).install()
        try:
            o1, o2 = gp._cross(fa, mo, fa.n_nodes, mo.n_nodes)
        except AttributeError:
            return
        finally:
            sc.remove()
        for o in (o1, o2):
            check_tree(C, drv, o, 'offspring', recipe=rc)
        # second generation: the offspring are crossed again
        sc = gpops.Script(_random.Random(0), forced=[1 + pk[2] % o1.n_nodes, 1 + pk[3] % o2.n_nodes]).install()
        try:
            p1, p2 = gp._cross(o1, o2, o1.n_nodes, o2.n_nodes)
        except AttributeError:
            return
        finally:
            sc.remove()
        for o in (p1, p2, o1, o2):
            check_tree(C, drv, o, 'second-generation', recipe=rc)


def check_part(C, root, tag, recipe):
    """traversals and measurements of a node regarded as the top of its own tree although the object graph around it is
    not a stand-alone, fully linked tree (it hangs inside a larger tree, or carries child links only): judged against
    the recursive reference over child links; find_node only beyond the range"""
    nodes, dup = T.walk(root)
    idx = {id(n): i for i, n in enumerate(nodes)}
    rp = dict(how='tree', tree=T.enc_tree(root), recipe=recipe)
    real_pre = [idx.get(id(x), -1) for x in root.pre_order]
    real_post = [idx.get(id(x), -1) for x in root.post_order]
    ref = T.ref_props(root)
    real_props = (root.min_depth, root.max_depth, root.n_leaves, root.n_nodes)
    if real_props != (ref['min_depth'], ref['max_depth'], ref['n_leaves'], ref['n_nodes']):
        C.issue('measurement-wrong', 'oracle', rp, real=real_props, reference=ref, part=tag)
    if real_pre != [idx[id(x)] for x in T.ref_pre(root)]:
        C.issue('pre-order-wrong', 'oracle', rp, real=real_pre, part=tag)
    if real_post != [idx[id(x)] for x in T.ref_post(root)]:
        C.issue('post-order-wrong', 'oracle', rp, real=real_post, part=tag)
    if tag == 'subtree':
        # the enclosing tree was built (and fully linked) by the harness: the stored links are the structure.  The slot
        # of a terminal is where it hangs; the slot of a function is where its parent hangs — also when that parent is
        # the node the method was called on (its slot lies in the enclosing tree)
        for p in range(1, len(nodes)):
            nd = nodes[p] if [id(x) for x in T.ref_pre(root)] == [id(x) for x in nodes] else T.ref_pre(root)[p]
            if nd.type == 'TERMINAL':
                want = (nd.parent, nd.flag)
            else:
                par = nd.parent
                want = (par.parent, par.flag) if par.parent is not None else (None, False)
            try:
                got = root.find_node(p)
            except Exception as ex:
                got = (type(ex).__name__, None)
            if not (got[0] is want[0] and bool(got[1]) == bool(want[1])):
                C.issue('find-node-wrong', 'oracle', dict(rp, p=p), real=str(got[1]), reference=str(want[1]), part=tag,
                        same_owner=got[0] is want[0])
    for p in (len(nodes), len(nodes) + 1, len(nodes) + 5):
        try:
            a, b = root.find_node(p)
        except Exception as ex:
            C.issue('find-node-wrong', 'oracle', dict(rp, p=p), real=type(ex).__name__, reference='noslot', part=tag)
            continue
        if a is not None or b is not False:
            C.issue('find-node-wrong', 'oracle', dict(rp, p=p), real='slot', reference='noslot', part=tag)
    C.case(key=(tag, rp['tree'], recipe.get('at')), nontrivial=len(nodes) >= 2, kind=tag)


def check(ctx):
    L = lib.load()
    np = L['np']
    C = Comp(ctx, 'one case = one tree: pre_order, post_order, the four measurements and find_node(p) for every p in 0..n_nodes+1 compared between the real Node code, the Lean model and a recursive reference; non-trivial = trees with at least 3 nodes; exhaustive over all shapes to depth 3',
             ['trees are proper trees (distinct node objects)'])
    drv = common.Driver()
    try:
        depth = 3
        for s in T.shapes_upto(depth):
            check_tree(C, drv, T.build(s), f'shape-depth-{T.shape_depth(s)}')
        C.exhaustive = True
        C.extra['exhaustive_over'] = f'all {len(T.shapes_upto(depth))} shapes over unary/binary nodes up to depth {depth}, every index 0..n_nodes+1'
        # grown trees of random function sets (and, thorough, sampled depth-4 shapes)
        n_grown = 40 if ctx['tier'] == 'quick' else 400
        for k in range(n_grown):
            fs = C.rng.sample(T.OPS, C.rng.randint(1, 6))
            np.random.seed(C.rng.randrange(1 << 30))
            mn = C.rng.randint(1, 2)
            sp = L['TreeSpace'](n_trees=1, n_terminals=C.rng.randint(1, 3), n_variables=1, n_iterations=1,
                                min_depth=mn, max_depth=mn + C.rng.randint(0, 4), functions=fs,
                                lower_bound=[0], upper_bound=[1])
            check_tree(C, drv, sp.trees[0], 'grown')
        # history: the same tree object is measured, edited in place below the root, and measured again
        import itertools as _it
        shapes2 = [s_ for s_ in T.shapes_upto(3) if T.shape_size(s_) >= 4]
        for k in range(60 if ctx['tier'] == 'quick' else 600):
            s_ = C.rng.choice(shapes2)
            run_recipe(C, drv, dict(kind='history', shape=s_, pick=C.rng.randrange(1 << 20), branch=C.rng.choice(T.shapes_upto(2))))
        # a node inside a larger tree regarded as the top of its own sub-tree; trees assembled through the constructor's
        # left= / right= arguments only (no parent links): traversals and measurements follow the child links
        for s_ in T.shapes_upto(2 if ctx['tier'] == 'quick' else 3):
            if s_ != 'L':
                run_recipe(C, drv, dict(kind='subtree', shape=s_, measured_first=bool(T.shape_size(s_) % 2)))
                run_recipe(C, drv, dict(kind='childlinks', shape=s_))
        for s_ in [x for x in T.shapes_upto(3) if T.shape_size(x) >= 3][:: (7 if ctx['tier'] == 'quick' else 1)]:
            for order in ('child-first', 'parent-first'):
                run_recipe(C, drv, dict(kind='topdown', shape=s_, order=order, measure_between=bool(T.shape_size(s_) % 2)))
            run_recipe(C, drv, dict(kind='childlinks-edit', shape=s_, pick=C.rng.randrange(1 << 10), branch=C.rng.choice(T.shapes_upto(2))))
        # large trees (beyond 256 nodes per level-order index, beyond the recursion-free traversals' usual sizes): a unary
        # chain, a comb and a full binary tree, judged against the recursive reference
        import sys as _sys
        _sys.setrecursionlimit(max(_sys.getrecursionlimit(), 5000))
        def _chain(n_):
            s_ = 'L'
            for _ in range(n_):
                s_ = ('U', s_)
            return s_
        def _comb(n_):
            s_ = 'L'
            for _ in range(n_):
                s_ = ('B', s_, 'L')
            return s_
        def _full(d_):
            return 'L' if d_ == 0 else ('B', _full(d_ - 1), _full(d_ - 1))
        for nm_, sh_ in (('chain-300', _chain(300)), ('comb-140', _comb(140)), ('full-9', _full(9 if ctx['tier'] == 'thorough' else 8)), ('chain-260', _chain(260))):
            check_part(C, T.build(sh_), 'large', dict(kind='large', name=nm_, at=0))
        # every order of the three linking steps of a right (and left) child
        for side in (False, True):
            for order in _it.permutations(['flag', 'parent', 'attach']):
                run_recipe(C, drv, dict(kind='link-order', side=side, order=list(order)))
        # children re-seated inside their own parent (mirrored), in every order of the four assignments
        mshapes = [sh for sh in T.shapes_upto(3) if 'B' in str(sh)]
        for k, order in enumerate(_it.permutations(['left', 'right', 'flag-b', 'flag-a'])):
            run_recipe(C, drv, dict(kind='mirror', shape=C.rng.choice(mshapes), at=C.rng.randrange(8), order=list(order), seed=k, measure_first=bool(k % 2)))
        # one argument of a binary node pruned away: nodes with a right child only / binary operators with one argument
        # (every shape to depth 2, every binary node, either side; deeper shapes sampled)
        for s_ in T.shapes_upto(2):
            for at in range(sum(1 for n_ in T.walk(T.build(s_))[0] if n_.right is not None)):
                for side in ('left', 'right'):
                    run_recipe(C, drv, dict(kind='pruned', shape=s_, at=at, side=side, measure_first=bool(at % 2)))
        for k in range(12 if ctx['tier'] == 'quick' else 200):
            run_recipe(C, drv, dict(kind='pruned', shape=C.rng.choice(mshapes), at=C.rng.randrange(8),
                                    side=('left', 'right')[k % 2], measure_first=bool(k % 3)))
        # trees produced by the GP operators from parents that had been traversed before
        for k in range(40 if ctx['tier'] == 'quick' else 400):
            run_recipe(C, drv, dict(kind='gp', fa=C.rng.choice(shapes2), mo=C.rng.choice(shapes2),
                                    picks=[C.rng.randrange(1 << 20) for _ in range(4)]))
        # trees that come to life without any setter running (deep copies, unpickled copies), measured right after
        # other trees were measured and freed: what a tree reports depends on the tree alone
        run_recipe(C, drv, dict(kind='copies', seed=C.rng.randrange(1 << 20), n=120 if ctx['tier'] == 'quick' else 1200))
        if ctx['tier'] == 'thorough':
            d3 = T.shapes_upto(3)
            for k in range(300):
                a, b = C.rng.choice(d3), C.rng.choice(d3)
                s = ('B', a, b) if C.rng.random() < 0.7 else ('U', a)
                check_tree(C, drv, T.build(s), 'sampled-depth-4')
    finally:
        drv.close()
    return C.result()


def search(ctx, corr, broken):
    res = check(dict(ctx, tier='thorough'))
    for i in res['issues']:
        if i['layer'] == 'oracle':
            return i
    return None


def replay(prop, payload):
    L = lib.load()
    # rebuild the shape from the encoding and re-run the oracle
    drv = common.Driver()
    try:
        C = Comp(dict(seed=0, tier='quick'), '')
        if payload.get('recipe'):
            # (object-address reuse decides whether the 'copies' recipe hits: a few attempts)
            for attempt in range(6 if payload['recipe'].get('kind') == 'copies' else 1):
                run_recipe(C, drv, payload['recipe'])
                if any(i['layer'] == 'oracle' for i in C.issues):
                    break
        else:
            root = decode(payload['tree'])
            check_tree(C, drv, root, 'replay')
        return any(i['layer'] == 'oracle' for i in C.issues)
    finally:
        drv.close()


def decode(enc):
    """driver encoding -> real Node tree (links rebuilt structurally)"""
    L = lib.load()
    Node, np = L['Node'], L['np']
    toks = enc.split('/')
    pos = [0]

    def go():
        t = toks[pos[0]]
        pos[0] += 1
        if t == '_':
            return None
        f = t.split(':')
        if f[2] == '1':
            n = Node(name=int(f[3]), type='TERMINAL', value=np.array([[0.5]]))
        else:
            n = Node(name=T.OPS[int(f[3])], type='FUNCTION')
        l = go()
        r = go()
        n.left, n.right = l, r
        if l is not None:
            l.parent = n
        if r is not None:
            r.parent = n
            r.flag = False
        return n
    return go()
