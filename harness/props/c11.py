"""C11 — tree measurements and traversals agree with their definitions."""
import common, lib, treeutil as T
from comp import Comp


def check_tree(C, drv, root, tag, exhaustive_idx=True):
    L = lib.load()
    nodes, dup = T.walk(root)
    idx = {id(n): i for i, n in enumerate(nodes)}
    enc = T.enc_tree(root)
    n = len(nodes)
    # real code
    real_pre = [idx[id(x)] for x in root.pre_order]
    real_post = [idx[id(x)] for x in root.post_order]
    real_props = (root.min_depth, root.max_depth, root.n_leaves, root.n_nodes)
    ps = list(range(0, n + 2))
    real_find = []
    for p in ps:
        try:
            a, b = root.find_node(p)
            real_find.append('noslot' if a is None else f'slot {idx[id(a)]} {1 if b else 0}')
        except AttributeError:
            real_find.append('error')
    lines = [f't.pre {enc}', f't.post {enc}', f't.props {enc}'] + [f't.find {enc} {p}' for p in ps]
    outs = drv.ask_many(lines)
    model_pre = common.dec_ints(outs[0])
    model_post = common.dec_ints(outs[1])
    rp = dict(how='tree', tree=enc)
    if model_pre != real_pre:
        C.issue('pre-order-mismatch', 'correspondence', rp, model=model_pre, real=real_pre)
    if model_post != real_post:
        C.issue('post-order-mismatch', 'correspondence', rp, model=model_post, real=real_post)
    if outs[2] != ' '.join(str(v) for v in real_props):
        C.issue('properties-mismatch', 'correspondence', rp, model=outs[2], real=real_props)
    for p, o, r in zip(ps, outs[3:], real_find):
        if o != r:
            C.issue('find-node-mismatch', 'correspondence', dict(rp, p=p), model=o, real=r)
    # direct oracle: the definitions
    ref = T.ref_props(root)
    if real_props != (ref['min_depth'], ref['max_depth'], ref['n_leaves'], ref['n_nodes']):
        C.issue('measurement-wrong', 'oracle', rp, real=real_props, reference=ref)
    if real_pre != [idx[id(x)] for x in T.ref_pre(root)]:
        C.issue('pre-order-wrong', 'oracle', rp, real=real_pre)
    if real_post != [idx[id(x)] for x in T.ref_post(root)]:
        C.issue('post-order-wrong', 'oracle', rp, real=real_post)
    for p, r in zip(ps, real_find):
        if p >= 1:
            e = T.ref_find(root, p)
            es = 'noslot' if e[0] == 'noslot' else ('error' if e[0] == 'error' else f'slot {idx[e[1]]} {1 if e[2] else 0}')
            if es != r:
                C.issue('find-node-wrong', 'oracle', dict(rp, p=p), real=r, reference=es)
    C.case(key=enc, nontrivial=n >= 3, kind=tag, sample=dict(tree=enc, pre=real_pre, post=real_post, props=real_props,
                                                                  find=dict(zip(ps, real_find))))


def check(ctx):
    L = lib.load()
    np = L['np']
    C = Comp(ctx, 'one case = one tree: pre_order, post_order, the four measurements and find_node(p) for every p in 0..n_nodes+1 compared between the real Node code, the Lean model and a recursive reference; non-trivial = trees with at least 3 nodes; exhaustive over all shapes to depth 3',
             ['trees are proper trees (distinct node objects)'])
    drv = common.Driver()
    try:
        depth = 3
        for s in T.shapes_upto(depth):
            check_tree(C, drv, T.build(s), f'shape-depth-{T.shape_depth(s)}')
        C.exhaustive = True
        C.extra['exhaustive_over'] = f'all {len(T.shapes_upto(depth))} shapes over unary/binary nodes up to depth {depth}, every index 0..n_nodes+1'
        # grown trees of random function sets (and, thorough, sampled depth-4 shapes)
        n_grown = 40 if ctx['tier'] == 'quick' else 400
        for k in range(n_grown):
            fs = C.rng.sample(T.OPS, C.rng.randint(1, 6))
            np.random.seed(C.rng.randrange(1 << 30))
            mn = C.rng.randint(1, 2)
            sp = L['TreeSpace'](n_trees=1, n_terminals=C.rng.randint(1, 3), n_variables=1, n_iterations=1,
                                min_depth=mn, max_depth=mn + C.rng.randint(0, 4), functions=fs,
                                lower_bound=[0], upper_bound=[1])
            check_tree(C, drv, sp.trees[0], 'grown')
        if ctx['tier'] == 'thorough':
            d3 = T.shapes_upto(3)
            for k in range(300):
                a, b = C.rng.choice(d3), C.rng.choice(d3)
                s = ('B', a, b) if C.rng.random() < 0.7 else ('U', a)
                check_tree(C, drv, T.build(s), 'sampled-depth-4')
    finally:
        drv.close()
    return C.result()


def search(ctx, corr, broken):
    res = check(dict(ctx, tier='thorough'))
    for i in res['issues']:
        if i['layer'] == 'oracle':
            return i
    return None


def replay(prop, payload):
    L = lib.load()
    # rebuild the shape from the encoding and re-run the oracle
    drv = common.Driver()
    try:
        C = Comp(dict(seed=0, tier='quick'), '')
        root = decode(payload['tree'])
        check_tree(C, drv, root, 'replay')
        return bool(C.issues)
    finally:
        drv.close()


def decode(enc):
    """driver encoding -> real Node tree (links rebuilt structurally)"""
    L = lib.load()
    Node, np = L['Node'], L['np']
    toks = enc.split('/')
    pos = [0]

    def go():
        t = toks[pos[0]]
        pos[0] += 1
        if t == '_':
            return None
        f = t.split(':')
        if f[2] == '1':
            n = Node(name=int(f[3]), type='TERMINAL', value=np.array([[0.5]]))
        else:
            n = Node(name=T.OPS[int(f[3])], type='FUNCTION')
        l = go()
        r = go()
        n.left, n.right = l, r
        if l is not None:
            l.parent = n
        if r is not None:
            r.parent = n
            r.flag = False
        return n
    return go()
