"""C19 — histories survive save/load unchanged; get() returns the requested series."""
import itertools, os
import common, lib, runlevel, treeutil as T
from comp import Comp
from common import fkey


def enc_rec(x):
    """nested lists / tuples of numbers -> driver Rec tokens"""
    if isinstance(x, (list, tuple)):
        return '.'.join(['['] + [enc_rec(y) for y in x] + [']'])
    try:
        return f'n{fkey(float(x))}'
    except Exception:
        return 'o0'


def dec_rec(tokens):
    it = iter(tokens)

    def go(tok):
        if tok == '[':
            out = []
            for t in it:
                if t == ']':
                    return out
                out.append(go(t))
            return out
        return int(tok[1:])
    return go(next(it))


def tolist_keys(a):
    if hasattr(a, 'tolist'):
        a = a.tolist()
    if isinstance(a, (list, tuple)):
        return [tolist_keys(x) for x in a]
    return fkey(float(a))


def valid_indices(records):
    """index tuples that address a component of every record (depth = regular depth - 1)"""
    r0 = records[0]
    out = []

    def regular_depth(x):
        # depth of the regular prefix of NumPy's shape discovery for this record structure
        if not isinstance(x, (list, tuple)):
            return 0
        ds = [regular_depth(y) for y in x]
        shapes = [shape_of(y) for y in x]
        return 1 + common_prefix_len(shapes)

    def shape_of(x):
        if not isinstance(x, (list, tuple)):
            return []
        subs = [shape_of(y) for y in x]
        cp = subs[0] if subs else []
        for s in subs[1:]:
            k = 0
            while k < len(cp) and k < len(s) and cp[k] == s[k]:
                k += 1
            cp = cp[:k]
        return [len(x)] + cp

    def common_prefix_len(shapes):
        cp = shapes[0] if shapes else []
        for s in shapes[1:]:
            k = 0
            while k < len(cp) and k < len(s) and cp[k] == s[k]:
                k += 1
            cp = cp[:k]
        return len(cp)
    shape = shape_of(list(records))
    dims = shape[1:]
    return [tuple(ix) for ix in itertools.product(*[range(d) for d in dims])], len(dims)


def shape_dims(records):
    """axis sizes below the record axis (as valid_indices discovers them)"""
    idxs, depth = valid_indices(records)
    if not idxs:
        return []
    return [max(ix[k] for ix in idxs) + 1 for k in range(depth)]


def component(rec, idx):
    for i in idx:
        rec = rec[i]
    return rec


def check_get(C, drv, L, h, key, tag):
    np = L['np']
    e = L['e']
    records = getattr(h, key)
    idxs, depth = valid_indices(records)
    recs_enc = enc_rec(list(records))
    if len(idxs) > 40:
        idxs = C.rng.sample(idxs, 40)
    lines, real = [], []
    for ix in idxs:
        rp = dict(how='get', key=key, index=list(ix), records=recs_enc)
        try:
            out = h.get(key, ix)
            got = tolist_keys(out)
        except Exception as ex:
            C.issue('get-raised', 'oracle', rp, error=type(ex).__name__ + ': ' + str(ex)[:80])
            continue
        # definition: component `ix` of every record, in iteration order, stacked as np.hstack does
        comps = [component(r, ix) for r in records]
        exp = tolist_keys(np.hstack([np.asarray(c) for c in comps]))
        if got != exp:
            C.issue('get-wrong-series', 'oracle', rp, got=str(got)[:200], expected=str(exp)[:200])
        # negative entries count from the end of their axis (down to minus the axis size, which is element 0)
        dims_ = shape_dims(records)
        if dims_ and len(dims_) == len(ix):
            for mode in ('all-negative', 'minus-size'):
                ixm = tuple(i_ - d_ for i_, d_ in zip(ix, dims_)) if mode == 'all-negative' else tuple((-d_ if i_ == 0 else i_) for i_, d_ in zip(ix, dims_))
                if ixm == tuple(ix):
                    continue
                try:
                    outm = tolist_keys(h.get(key, ixm))
                    if outm != got:
                        C.issue('get-wrong-series', 'oracle', dict(rp, index=list(ixm), same_as=list(ix)), got=str(outm)[:200], expected=str(got)[:200])
                except Exception as ex:
                    C.issue('get-raised', 'oracle', dict(rp, index=list(ixm), same_as=list(ix)), error=type(ex).__name__ + ': ' + str(ex)[:80])
        # the same index written with NumPy integers (what np.argmin / np.arange hand out) addresses the same component
        for conv, nm in ((np.int64, 'int64'), (np.intp, 'intp')):
            ixn = tuple(conv(i_) for i_ in ix)
            try:
                outn = tolist_keys(h.get(key, ixn))
                if outn != got:
                    C.issue('get-wrong-series', 'oracle', dict(rp, index_type=nm), got=str(outn)[:200], expected=str(got)[:200])
            except Exception as ex:
                C.issue('get-raised', 'oracle', dict(rp, index_type=nm), error=type(ex).__name__ + ': ' + str(ex)[:80])
            break
        lines.append(f"h.get {recs_enc} 1 {common.enc_ints(ix)}")
        real.append((rp, got))
        C.case(key=(tag, key, ix, recs_enc[:60]), nontrivial=len(records) > 1, kind=f'get-{key}',
               sample=dict(key=key, index=list(ix), n_records=len(records), result_shape=list(np.shape(out))) if len(records) > 1 else None)
    outs = drv.ask_many(lines)
    for o, (rp, got) in zip(outs, real):
        if not o.startswith('ok '):
            C.issue('get-mismatch', 'correspondence', rp, model=o[:100])
            continue
        m = dec_rec(o[3:].split('.'))
        if m != got:
            C.issue('get-mismatch', 'correspondence', rp, model=str(m)[:200], real=str(got)[:200])
    # rejections
    for bad, want, tok in (([0] * depth, e.TypeError, 'TypeError'), (tuple([0] * (depth + 1)), e.SizeError, 'SizeError'),
                           (tuple([0] * max(0, depth - 1)) if depth > 0 else (0, 0), e.SizeError, 'SizeError'), (0, e.TypeError, 'TypeError')):
        rp = dict(how='get-reject', key=key, index=repr(bad), records=recs_enc)
        try:
            h.get(key, bad)
            C.issue('bad-index-accepted', 'oracle', rp)
        except want:
            pass
        except Exception as ex:
            C.issue('bad-index-wrong-error', 'oracle', rp, got=type(ex).__name__, expected=want.__name__)
        if isinstance(bad, (list, tuple)):
            o = drv.ask(f"h.get {recs_enc} {1 if isinstance(bad, tuple) else 0} {common.enc_ints(bad)}")
            if o != tok:
                C.issue('get-reject-mismatch', 'correspondence', rp, model=o[:60], real=tok)
        C.case(key=(tag, key, 'reject', repr(bad)), nontrivial=True, kind='get-reject')


def slice_indices(dims, rng, extra=12):
    """index tuples of the legal length whose entries are integers or slices (at least one slice): every pattern of
    {first element, last element, whole axis} always, plus a seeded sample of partial / reversed / strided slices"""
    per_axis = [[0, d - 1, slice(None)] for d in dims]
    out = [ix for ix in itertools.product(*per_axis) if any(isinstance(i, slice) for i in ix)]
    seen = set(map(repr, out))
    for _ in range(extra):
        ix = tuple(rng.choice([rng.randrange(d), -rng.randrange(1, d + 1), slice(None), slice(0, max(1, d - 1)), slice(1, None),
                               slice(None, None, -1), slice(None, None, 2), slice(-1, None)]) for d in dims)
        if any(isinstance(i, slice) for i in ix) and repr(ix) not in seen:
            seen.add(repr(ix))
            out.append(ix)
    return out


def check_get_slices(C, L, h, key, tag):
    """keys whose records form a regular numeric array (local-best positions, user-dumped vectors / matrices / tensors):
    an index tuple may address a whole sub-array of the record with slices; get() returns, for every recorded iteration in
    order, that component, stacked as np.hstack stacks them"""
    np = L['np']
    records = getattr(h, key)
    try:
        arr = np.asarray(records)
    except ValueError:
        return
    if arr.dtype == object or arr.dtype.kind not in 'fiu' or arr.ndim < 2 or 0 in arr.shape:
        return
    recs_enc = enc_rec(arr.tolist())
    if not hasattr(C, 'slice_rng'):
        import random as _random
        C.slice_rng = _random.Random(C.ctx['seed'] * 7919 + 3)
    for ix in slice_indices(arr.shape[1:], C.slice_rng):
        rp = dict(how='get-slices', key=key, index=[repr(i) for i in ix], records=recs_enc, record_shape=list(arr.shape[1:]))
        try:
            out = np.asarray(h.get(key, ix))
        except Exception as ex:
            C.issue('get-raised', 'oracle', rp, error=type(ex).__name__ + ': ' + str(ex)[:80])
            continue
        exp = np.hstack([np.asarray(r_)[ix] for r_ in records])
        if out.shape != exp.shape or tolist_keys(out) != tolist_keys(exp):
            C.issue('get-wrong-series', 'oracle', rp, got_shape=list(out.shape), expected_shape=list(exp.shape),
                    got=str(out.tolist())[:200], expected=str(exp.tolist())[:200])
        C.case(key=(tag, key, 'slices', repr(ix), recs_enc[:60]), nontrivial=len(records) > 1, kind=f'get-slices-{key}',
               sample=dict(key=key, index=[repr(i) for i in ix], n_records=len(records), result_shape=list(out.shape)) if arr.ndim >= 4 else None)


def same_attr(a, b):
    L = lib.load()
    Node = L['Node']
    if isinstance(a, Node) and isinstance(b, Node):
        return T.canon(a) == T.canon(b)
    if isinstance(a, (list, tuple)) and isinstance(b, (list, tuple)):
        return type(a) == type(b) and len(a) == len(b) and all(same_attr(x, y) for x, y in zip(a, b))
    try:
        return a == b or (a != a and b != b)
    except Exception:
        return False


def check(ctx):
    L = lib.load()
    np = L['np']
    C = Comp(ctx, 'one case = one History.get(key, index) call on a history produced by a real optimisation run (every optimiser, both store_best_only values, every recorded key, every valid index tuple up to 40 per key, plus wrong-type / wrong-size indices), compared with the Lean model of get (shape discovery, path, hstack) and with the definition (component of every record in iteration order); or one save/load round trip into a fresh History; non-trivial = histories with more than one record',
             ['pickle round-trips plain data (trusted)', 'load() into a fresh History'])
    drv = common.Driver()
    scratch = common.scratch_dir()
    try:
        cfgs = {}
        for c in runlevel.gen_configs('thorough' if ctx['tier'] == 'thorough' else 'quick', ctx['seed']):
            k = (c['kind'], c['store_best_only'])
            if k not in cfgs or (ctx['tier'] == 'thorough' and C.rng.random() < 0.05):
                cfgs[k if ctx['tier'] == 'quick' else (k, len(cfgs))] = dict(c, hook='observer', n_iter=max(2, c['n_iter']))
        # GP histories whose recorded best trees are real trees (several nodes, parent/child cycles), not lone terminals
        gps = [c for c in cfgs.values() if c['kind'] == 'GP']
        for j, g in enumerate(gps[:2]):
            cfgs[('GP-deep', j)] = dict(g, functions=list(runlevel.FUNCSETS[j % 2]), min_depth=2, max_depth=4,
                                        n_agents=max(g['n_agents'], 10), seed=g['seed'] + 5 + j)
        # histories that hold +inf (an objective with a hard constraint): get() returns what was recorded
        base = [c for c in cfgs.values() if c['kind'] in ('SCA', 'HC', 'FA') and c['space'] == 'search' and not c['store_best_only']]
        for j, g in enumerate(base[:2]):
            cfgs[('infpen', j)] = dict(g, objective='infpen', box='wide', lb=[-4.0] * g['n_vars'], ub=[6.0] * g['n_vars'], n_agents=max(g['n_agents'], 5))
        n_hist = 0
        prev_hist = None
        import hist_digest
        family = []
        for k, c in cfgs.items():
            if ctx['tier'] == 'thorough' and n_hist >= 150:
                break
            rec = runlevel.record_run(c)
            if rec['error'] is not None:
                continue
            h = rec['history']
            n_hist += 1
            for key in ('agents', 'best_agent', 'local'):
                if hasattr(h, key):
                    check_get(C, drv, L, h, key, f"{c['kind']}")
            for key in vars(h):
                if isinstance(getattr(h, key), list) and getattr(h, key):
                    check_get_slices(C, L, h, key, f"{c['kind']}")
            # the same instance after its records changed: one more dump, then every series again
            if hasattr(h, 'agents') or hasattr(h, 'best_agent'):
                sp_ = rec['space']
                kw = {}
                if hasattr(h, 'agents'):
                    kw['agents'] = sp_.agents
                kw['best_agent'] = sp_.best_agent
                if hasattr(h, 'local') and len(h.local):
                    kw['local'] = np.array(h.local[-1]) + 0.125
                for a_ in sp_.agents:
                    a_.position = a_.position + 0.0625
                    a_.fit = float(a_.fit) + 1.0 if isinstance(a_.fit, (int, float)) else a_.fit
                if isinstance(h.best_agent[-1][1], (int, float)):
                    sp_.best_agent.fit = float(sp_.best_agent.fit) - 0.5
                if 'best_tree' in vars(h):
                    kw['best_tree'] = h.best_tree[-1]
                h.dump(**kw)
                for key in ('agents', 'best_agent', 'local'):
                    if hasattr(h, key):
                        check_get(C, drv, L, h, key, f"{c['kind']}-after-dump")
            # every other recorded key is a series too: user-dumped integers (exactly), the elapsed time, GP's best trees
            rp_o = dict(how='other-keys', cfg=c)
            try:
                big = [2 ** 60 + 1, 5, -7]
                hu = L['History']()
                for b_ in big:
                    hu.dump(counter=b_, pair=[b_, 1])
                got = hu.get('counter', ())
                if [int(x) for x in got] != big or str(np.asarray(got).dtype).startswith('float'):
                    C.issue('get-wrong-values', 'oracle', dict(rp_o, key='counter'), got=repr(got)[:80], want=big)
                got = hu.get('pair', (0,))
                if [int(x) for x in got] != big:
                    C.issue('get-wrong-values', 'oracle', dict(rp_o, key='pair'), got=repr(got)[:80], want=big)
                if hasattr(h, 'time'):
                    got = h.get('time', ())
                    if [float(x) for x in got] != [float(x) for x in h.time]:
                        C.issue('get-wrong-values', 'oracle', dict(rp_o, key='time'), got=repr(got)[:80])
                if 'best_tree' in vars(h):
                    got = h.get('best_tree', ())
                    if len(got) != len(h.best_tree) or any(a_ is not b_ for a_, b_ in zip(got, h.best_tree)):
                        C.issue('get-wrong-values', 'oracle', dict(rp_o, key='best_tree'), got=repr(got)[:80])
                C.case(key=('other-keys', c['kind'], c['store_best_only']), nontrivial=True, kind='get-other-keys')
            except Exception as ex:
                C.issue('get-raised', 'oracle', rp_o, error=type(ex).__name__ + ': ' + str(ex)[:80])
            # save / load
            path = os.path.join(scratch, f'h_{n_hist}.pkl')
            rp = dict(how='saveload', cfg=c)
            try:
                h.save(path)
                h2 = L['History']()
                h2.load(path)
            except Exception as ex:
                C.issue('save-load-raised', 'oracle', rp, error=type(ex).__name__ + ': ' + str(ex)[:80])
                C.case(key=('saveload', c['kind'], c['store_best_only']), nontrivial=True, kind='saveload')
                prev_hist = None
                continue
            finally:
                if os.path.exists(path):
                    os.remove(path)
            # a History that nothing was dumped into shows no series, whatever other histories of the process hold
            import hist_digest
            fresh = L['History']()
            leaked = [k_ for k_ in hist_digest.NAMES if k_ != 'store_best_only' and hasattr(fresh, k_) and getattr(fresh, k_)]
            if leaked:
                C.issue('fresh-history-not-empty', 'oracle', dict(how='fresh-history', cfg=c), attributes=leaked)
            # what the user reads (attribute access) from the loaded object is what was saved — also in another process
            if hist_digest.visible(h2, L['Node']) != hist_digest.visible(h, L['Node']):
                C.issue('value-differs-after-load', 'oracle', rp, key='(attribute access)')
            if n_hist <= (2 if ctx['tier'] == 'quick' else 12):
                import subprocess, sys as _sys, json as _json
                p_ = os.path.join(scratch, 'other_process.pkl')
                h.save(p_)
                pr = subprocess.run([_sys.executable, os.path.join(os.path.dirname(os.path.abspath(hist_digest.__file__)), 'hist_digest.py'), p_],
                                    capture_output=True, text=True, env=dict(os.environ), timeout=120)
                os.remove(p_)
                try:
                    got = _json.loads(pr.stdout.strip().splitlines()[-1])
                except Exception:
                    got = None
                if got is None:
                    C.issue('other-process-load-failed', 'correspondence', dict(how='saveload-other-process', cfg=c), err=pr.stderr[-200:])
                elif got['digest'] != hist_digest.digest(h, L['Node']) or got['fresh_nonempty']:
                    C.issue('value-differs-after-load', 'oracle', dict(how='saveload-other-process', cfg=c), fresh_nonempty=got['fresh_nonempty'])
                C.case(key=('saveload-other-process', c['kind'], c['store_best_only']), nontrivial=True, kind='saveload-other-process')
            a, b = vars(h), vars(h2)
            if set(a) != set(b):
                C.issue('attributes-differ-after-load', 'oracle', rp, saved=sorted(a), loaded=sorted(b))
            else:
                for kk in a:
                    if not same_attr(a[kk], b[kk]):
                        C.issue('value-differs-after-load', 'oracle', rp, key=kk)
            o = drv.ask('h.load store_best_only=[.] ' + '&'.join(f'{kk}=[.]' for kk in a))
            if sorted(o.split(',')) != sorted(a):
                C.issue('load-mismatch', 'correspondence', rp, model=o, real=sorted(a))
            C.case(key=('saveload', c['kind'], c['store_best_only']), nontrivial=True, kind='saveload')
            # load() into the History object a script has at hand: constructed with either recording flag, empty or already
            # holding other records under the keys of the file.  What it exposes afterwards is what was saved (the flag too)
            import copy as _copy
            for flag_ in (False, True):
                for holds in ('empty', 'other-records'):
                    rpr = dict(how='saveload-receiver', cfg=c, receiver_store_best_only=flag_, receiver=holds)
                    pr_ = os.path.join(scratch, 'receiver.pkl')
                    try:
                        h.save(pr_)
                        hr = L['History'](store_best_only=flag_)
                        if holds == 'other-records':
                            for kk_, vv_ in vars(h).items():
                                if isinstance(vv_, list) and vv_:
                                    setattr(hr, kk_, [_copy.deepcopy(vv_[-1])] * (len(vv_) + 1))
                        hr.load(pr_)
                        a_, b_ = vars(h), vars(hr)
                        if set(a_) != set(b_):
                            C.issue('attributes-differ-after-load', 'oracle', rpr, saved=sorted(a_), loaded=sorted(b_))
                        elif any(not same_attr(a_[kk], b_[kk]) for kk in a_):
                            C.issue('value-differs-after-load', 'oracle', rpr, key=[kk for kk in a_ if not same_attr(a_[kk], b_[kk])][0])
                        elif hist_digest.visible(hr, L['Node']) != hist_digest.visible(h, L['Node']):
                            C.issue('value-differs-after-load', 'oracle', rpr, key='(attribute access)')
                    except Exception as ex:
                        C.issue('save-load-raised', 'oracle', rpr, error=type(ex).__name__ + ': ' + str(ex)[:80])
                    finally:
                        if os.path.exists(pr_):
                            os.remove(pr_)
                    C.case(key=('saveload-receiver', c['kind'], c['store_best_only'], flag_, holds), nontrivial=True, kind='saveload-receiver')
            # bare file name (current directory) and loading into an instance that has answered get() before
            cwd = os.getcwd()
            os.chdir(scratch)
            try:
                try:
                    h.save('bare_name.pkl')
                    h3 = L['History']()
                    h3.load('bare_name.pkl')
                    os.remove('bare_name.pkl')
                    if set(vars(h3)) != set(vars(h)) or any(not same_attr(vars(h)[kk], vars(h3)[kk]) for kk in vars(h)):
                        C.issue('value-differs-after-load', 'oracle', dict(how='saveload-bare', cfg=c))
                except Exception as ex:
                    C.issue('save-load-raised', 'oracle', dict(how='saveload-bare', cfg=c), error=type(ex).__name__ + ': ' + str(ex)[:80])
            finally:
                os.chdir(cwd)
            # the same unchanged file loaded twice, the first loaded history extended in between: the second load
            # must again be exactly what was saved (a loaded history shares nothing with later loads)
            try:
                p3 = os.path.join(scratch, 'twice.pkl')
                h.save(p3)
                ha = L['History']()
                ha.load(p3)
                kw2 = {}
                if hasattr(ha, 'agents'):
                    kw2['agents'] = rec['space'].agents
                kw2['best_agent'] = rec['space'].best_agent
                ha.dump(**kw2)
                for kk_, vv_ in vars(ha).items():
                    if isinstance(vv_, list) and vv_ and kk_ not in kw2:
                        vv_.append(vv_[-1])
                hb = L['History']()
                hb.load(p3)
                os.remove(p3)
                if set(vars(hb)) != set(vars(h)) or any(not same_attr(vars(h)[kk], vars(hb)[kk]) for kk in vars(h)):
                    C.issue('value-differs-after-load', 'oracle', dict(how='saveload-twice', cfg=c))
                C.case(key=('saveload-twice', c['kind'], c['store_best_only']), nontrivial=True, kind='saveload-twice')
            except Exception as ex:
                C.issue('save-load-raised', 'oracle', dict(how='saveload-twice', cfg=c), error=type(ex).__name__ + ': ' + str(ex)[:80])
            if prev_hist is not None and hasattr(prev_hist, 'best_agent'):
                # `prev_hist` has answered get() already; load this run into it and ask again
                p2 = os.path.join(scratch, 'reuse.pkl')
                h.save(p2)
                prev_hist.load(p2)
                os.remove(p2)
                for key in ('agents', 'best_agent', 'local'):
                    if hasattr(h, key) and hasattr(prev_hist, key) and same_attr(getattr(prev_hist, key), getattr(h, key)):
                        check_get(C, drv, L, prev_hist, key, f"{c['kind']}-reused-instance")
            prev_hist = h
            if len(family) < 4 and all(hist_digest.digest(h, L['Node']) != hist_digest.digest(g_, L['Node']) for g_, _ in family):
                family.append((h, c))
        # hand-built histories whose keys are regular numeric arrays of 3-4 axes (records x agents x variables x dimensions for
        # the local-best positions of a swarm in a search / hypercomplex space; user-dumped vectors, matrices and tensors)
        for (n_rec, n_ag, n_var, n_dim) in ((4, 3, 2, 1), (3, 2, 3, 4), (1, 2, 2, 2), (5, 1, 1, 3)):
            hh = L['History']()
            for t_ in range(n_rec):
                base_ = (np.arange(n_ag * n_var * n_dim, dtype=float).reshape(n_ag, n_var, n_dim) + 1) / 8.0 + 100.0 * t_
                hh.dump(local=base_, vec=(base_[0, :, 0] * 2).tolist(), mat=(base_[0] - 0.5).tolist(), tensor=(-base_).tolist(),
                        counts=(np.arange(n_var * n_dim).reshape(n_var, n_dim) + 10 * t_).tolist())
            for key in ('local', 'vec', 'mat', 'tensor', 'counts'):
                check_get_slices(C, L, hh, key, f'hand-built-{n_rec}x{n_ag}x{n_var}x{n_dim}')
        # fitness values of other numeric classes than float (exact rationals, decimals): what was saved is what is loaded
        import fractions as _fr, decimal as _dec
        for kind_, mk_ in (('HC', lambda v: _fr.Fraction(int(round(v * 4096)), 4096)), ('PSO', lambda v: _dec.Decimal(repr(round(v, 6)))),
                           ('SA', lambda v: _fr.Fraction(int(round(v * 64)), 64))):
            rpf = dict(how='saveload-numeric-class', kind=kind_)
            try:
                np.random.seed(31)
                spf = L['SearchSpace'](n_agents=3, n_variables=2, n_iterations=3, lower_bound=[-2, -2], upper_bound=[2, 2])
                obj = (lambda mk__: (lambda x: mk__(float(np.sum(np.asarray(x, dtype=float) ** 2)))))(mk_)
                hf = L['Opytimizer'](space=spf, optimizer=L['kinds'][kind_](), function=L['Function'](pointer=obj)).start()
            except Exception as ex:
                # (a kind that cannot work with such values at all is not this check's business)
                C.case(key=('saveload-numeric-class', kind_, 'unsupported'), nontrivial=False, kind='saveload-numeric-class-unsupported')
                continue
            pf = os.path.join(scratch, f'numeric_{kind_}.pkl')
            try:
                hf.save(pf)
                hg = L['History']()
                hg.load(pf)
                a_, b_ = vars(hf), vars(hg)
                if set(a_) != set(b_) or any(not same_attr(a_[k_], b_[k_]) for k_ in a_):
                    C.issue('value-differs-after-load', 'oracle', rpf)
            except Exception as ex:
                C.issue('save-load-raised', 'oracle', rpf, error=type(ex).__name__ + ': ' + str(ex)[:80])
            finally:
                if os.path.exists(pf):
                    os.remove(pf)
            C.case(key=('saveload-numeric-class', kind_), nontrivial=True, kind='saveload-numeric-class')
        # several histories saved side by side in one directory (a hyperparameter sweep, one file per seed): every name given
        # to save() reads back, through load() of that same name, the history that was saved under it
        import shutil as _sh
        for names in (['run.0', 'run.1', 'run.2'], ['sweep_w0.5', 'sweep_w0.7', 'sweep_w0.9'], ['task.full', 'task.best'],
                      ['a.b.pkl', 'a.c.pkl'], ['plain_a', 'plain_b'], ['x1.v', 'x2.v'], ['h.pkl', 'h.pkl.bak', 'h']):
            if len(family) < 2:
                break
            d_ = os.path.join(scratch, 'side_by_side')
            os.makedirs(d_, exist_ok=True)
            rpn = dict(how='saveload-names', names=names, cfgs=[c_ for _, c_ in family[:len(names)]])
            try:
                used = list(zip(names, family))
                for nm_, (h_, _) in used:
                    h_.save(os.path.join(d_, nm_))
                for nm_, (h_, _) in used:
                    hl = L['History']()
                    hl.load(os.path.join(d_, nm_))
                    if hist_digest.digest(hl, L['Node']) != hist_digest.digest(h_, L['Node']):
                        C.issue('value-differs-after-load', 'oracle', rpn, name=nm_)
                        break
            except Exception as ex:
                C.issue('save-load-raised', 'oracle', rpn, error=type(ex).__name__ + ': ' + str(ex)[:80])
            finally:
                _sh.rmtree(d_, ignore_errors=True)
            C.case(key=('saveload-names', tuple(names)), nontrivial=True, kind='saveload-names')
        C.extra['histories'] = n_hist
    finally:
        drv.close()
    return C.result()


def search(ctx, corr, broken):
    res = check(dict(ctx, tier='thorough'))
    for i in res['issues']:
        if i['layer'] == 'oracle':
            return i
    return None


def replay(prop, payload):
    res = check(dict(seed=0, tier='quick', prop=prop))
    return any(i['layer'] == 'oracle' for i in res['issues'])
