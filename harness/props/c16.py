"""C16 — a weighted function is exactly the weighted sum of its components."""
import json, random
import common, lib, runpass, runlevel
from comp import Comp
from common import enc_bits, fbits, bits2f


def one(C, drv, L, np, n, rp_extra=None):
    ws = [C.rng.choice([0.0, -1.5, 1.0, 1e6, 0.25, 3, -2, 1e-9]) if C.rng.random() < 0.6 else round(C.rng.uniform(-5, 5), 3) for _ in range(n)]
    vals = [C.rng.choice([0.0, 1.0, -7.5, 1e8, 2, -3]) if C.rng.random() < 0.5 else C.rng.uniform(-100, 100) for _ in range(n)]
    calls = []
    x = np.array([[C.rng.uniform(-2, 2)] for _ in range(C.rng.randint(1, 3))])
    x0 = np.array(x, copy=True)

    def mk(i):
        def f(z):
            calls.append((i, z is x, np.array_equal(z, x0)))
            return vals[i]
        return f
    wf = L['WeightedFunction'](functions=[mk(i) for i in range(n)], weights=list(ws))
    out = wf.pointer(x)
    rp = dict(how='weighted', ws=ws, vals=vals)
    ref = 0
    for w, v in zip(ws, vals):
        ref += w * v
    if not (float(out) == float(ref)):
        C.issue('not-the-weighted-sum', 'oracle', rp, got=float(out), reference=float(ref))
    if [c[0] for c in calls] != list(range(n)):
        C.issue('components-not-called-once-in-order', 'oracle', rp, calls=[c[0] for c in calls])
    if not all(c[1] and c[2] for c in calls) or not np.array_equal(x, x0):
        C.issue('argument-modified-or-replaced', 'oracle', rp)
    o = drv.ask(f'n.weighted {enc_bits(float(w) for w in ws)} {enc_bits(float(v) for v in vals)}')
    if int(o) != fbits(float(out)) and not (bits2f(o) == float(out)):
        C.issue('weighted-mismatch', 'correspondence', rp, model=bits2f(o), real=float(out))
    # components of every callable kind (function, callable object, bound method, partial): "for every list of
    # single-argument functions"
    import functools

    class Comp_:
        def __init__(self, v):
            self.v = v

        def __call__(self, z):
            return self.v

        def m(self, z):
            return self.v
    kinds = [lambda v: Comp_(v), lambda v: Comp_(v).m, lambda v: functools.partial((lambda a, z: a), v), lambda v: (lambda z: v)]
    try:
        fk = L['WeightedFunction'](functions=[kinds[(i + n) % len(kinds)](vals[i]) for i in range(n)], weights=list(ws))
        outk = fk.pointer(x)
        if not (float(outk) == float(ref)):
            C.issue('not-the-weighted-sum', 'oracle', dict(rp, how='weighted-callable-kinds'), got=float(outk), reference=float(ref))
    except Exception as ex:
        C.issue('weighted-raised', 'oracle', dict(rp, how='weighted-callable-kinds'), error=type(ex).__name__ + ': ' + str(ex)[:80])
    # the weights (and the components) of an existing object replaced through the public setters: the value follows
    try:
        ws2 = [w + 1.5 for w in ws]
        calls.clear()
        wf.weights = ws2
        out2 = wf.pointer(x)
        ref2 = 0
        for w, v in zip(ws2, vals):
            ref2 += w * v
        if not (float(out2) == float(ref2)):
            C.issue('not-the-weighted-sum', 'oracle', dict(rp, how='weighted-after-setting-weights', ws2=ws2), got=float(out2), reference=float(ref2))
        vals2 = [v - 2.0 for v in vals]
        wf.functions = [L['Function'](pointer=(lambda v_: (lambda z: v_))(v_)) for v_ in vals2]
        out3 = wf.pointer(x)
        ref3 = 0
        for w, v in zip(ws2, vals2):
            ref3 += w * v
        if not (float(out3) == float(ref3)):
            C.issue('not-the-weighted-sum', 'oracle', dict(rp, how='weighted-after-setting-functions'), got=float(out3), reference=float(ref3))
        # … and edited in place after a first evaluation (the list the object holds is the one it reads)
        ws3 = list(wf.weights)
        if ws3:
            wf.weights[0] = ws3[0] - 3.25
            ws3[0] = ws3[0] - 3.25
            out4 = wf.pointer(x)
            ref4 = 0
            for w, v in zip(ws3, vals2):
                ref4 += w * v
            if not (float(out4) == float(ref4)):
                C.issue('not-the-weighted-sum', 'oracle', dict(rp, how='weighted-after-editing-weights-in-place'), got=float(out4), reference=float(ref4))
            wf.functions[0] = L['Function'](pointer=lambda z: 41.5)
            out5 = wf.pointer(x)
            ref5 = 0
            for w, v in zip(ws3, [41.5] + vals2[1:]):
                ref5 += w * v
            if not (float(out5) == float(ref5)):
                C.issue('not-the-weighted-sum', 'oracle', dict(rp, how='weighted-after-editing-functions-in-place'), got=float(out5), reference=float(ref5))
    except Exception as ex:
        C.issue('weighted-raised', 'oracle', dict(rp, how='weighted-after-setters'), error=type(ex).__name__ + ': ' + str(ex)[:80])
    # components that return (views of) their argument: the caller's array must come back untouched and every
    # component must see the original argument
    xv = np.array([[C.rng.uniform(-2, 2)] for _ in range(C.rng.randint(1, 3))])
    xv0 = np.array(xv, copy=True)
    seen_args = []
    views = [lambda z: (seen_args.append(np.array(z, copy=True)), z[0])[1], lambda z: (seen_args.append(np.array(z, copy=True)), z.ravel())[1],
             lambda z: (seen_args.append(np.array(z, copy=True)), z)[1], lambda z: (seen_args.append(np.array(z, copy=True)), float(np.sum(z)))[1]]
    vk = C.rng.randrange(len(views))          # all components of one function return the same kind of value
    comps = [views[vk] for _ in range(n)]
    fv = L['WeightedFunction'](functions=[(lambda g: (lambda z: g(z)))(g) for g in comps], weights=list(ws))
    try:
        outv = fv.pointer(xv)
        if not np.array_equal(xv, xv0):
            C.issue('argument-modified-or-replaced', 'oracle', dict(how='weighted-view', ws=ws), before=xv0.tolist(), after=xv.tolist())
        elif any(not np.array_equal(a, xv0) for a in seen_args):
            C.issue('component-saw-modified-argument', 'oracle', dict(how='weighted-view', ws=ws))
        else:
            wantv = 0
            for w, g in zip(ws, comps):
                wantv = wantv + w * g(np.array(xv0, copy=True))
            if not np.array_equal(np.asarray(outv, dtype=float), np.asarray(wantv, dtype=float), equal_nan=True):
                C.issue('not-the-weighted-sum', 'oracle', dict(how='weighted-view', ws=ws), got=np.asarray(outv).tolist(), reference=np.asarray(wantv).tolist())
    except Exception as ex:
        C.issue('weighted-raised', 'oracle', dict(how='weighted-view', ws=ws), error=type(ex).__name__ + ': ' + str(ex)[:80])
    # a second call on the same array object after an in-place change, and a repeated call on equal input:
    # the value must follow the argument and every component must be evaluated again
    calls.clear()
    f2 = L['WeightedFunction'](functions=[(lambda i: (lambda z: float(np.sum(z)) * (i + 1)))(i) for i in range(n)], weights=list(ws))
    seen = []
    f3 = L['WeightedFunction'](functions=[(lambda i: (lambda z: (seen.append(i), float(np.sum(z)) * (i + 1))[1]))(i) for i in range(n)], weights=list(ws))
    buf = np.array(x0, copy=True)
    for step in range(3):
        want = 0
        for i, w in enumerate(ws):
            want += w * (float(np.sum(buf)) * (i + 1))
        seen.clear()
        got = f3.pointer(buf)
        if float(got) != float(want):
            C.issue('stale-value-after-in-place-change', 'oracle', dict(how='weighted-seq', ws=ws, step=step), got=float(got), expected=float(want))
            break
        if seen != list(range(n)):
            C.issue('components-not-called-once-in-order', 'oracle', dict(how='weighted-seq', ws=ws, step=step), calls=list(seen))
            break
        if step == 0:
            pass            # same input again
        else:
            buf += 0.5      # mutate the very same array in place
    C.case(key=(tuple(ws), tuple(vals)), nontrivial=n >= 2 and any(w != 1 for w in ws), kind=f'n={n}',
           sample=dict(rp, value=float(out)) if n >= 3 else None)


# --- integer-typed arguments ---------------------------------------------------------------------------------------
# "for ... every input array": components written for integer arrays (exact sums, floor division, remainders, bit
# masks) must be handed the caller's integer array itself, and the value is the exact integer sum of weight * value
INT_COMPS = {
    'total': (lambda z: z.sum(), lambda xs: sum(xs)),
    'first': (lambda z: z.reshape(-1)[0], lambda xs: xs[0]),
    'parity-of-last': (lambda z: z.reshape(-1)[-1] % 2, lambda xs: xs[-1] % 2),
    'sum-of-halves': (lambda z: (z // 2).sum(), lambda xs: sum(v // 2 for v in xs)),
    'low-bits': (lambda z: (z & 7).sum(), lambda xs: sum(v & 7 for v in xs)),
    'total-minus-first': (lambda z: z.sum() - z.reshape(-1)[0], lambda xs: sum(xs) - xs[0]),
}


def gen_int_case(rng):
    """payload of one integer-argument case (weights and entries small enough that no integer of the reference sum
    leaves the dtype NumPy computes it in)"""
    dtype = rng.choice(['int64', 'int64', 'int32', 'uint32', 'int16', 'uint8', 'uint64'])
    shape = rng.choice([(2,), (3,), (4,), (2, 1), (3, 1), (2, 2)])
    size = shape[0] * (shape[1] if len(shape) > 1 else 1)
    top = {'int64': 2 ** 20, 'uint64': 2 ** 20, 'int32': 2 ** 24, 'uint32': 2 ** 24, 'int16': 400, 'uint8': 3}[dtype]
    lo = 0 if dtype.startswith('u') else -top
    xs = [rng.randint(lo, top) for _ in range(size)]
    if dtype in ('int64', 'uint64') and rng.random() < 0.7:
        # one entry beyond 2**53 (an integer a float does not hold) next to small ones
        xs[rng.randrange(size)] = 2 ** rng.randint(54, 57) + rng.randint(1, 99)
    n = rng.randint(1, 5)
    ws_top = 1 if dtype in ('uint8', 'int16') else 3
    return dict(how='weighted-int', dtype=dtype, shape=list(shape), x=xs, comps=[rng.choice(sorted(INT_COMPS)) for _ in range(n)],
                ws=[rng.randint(0 if dtype.startswith('u') else -ws_top, ws_top) for _ in range(n)])


def run_int_case(L, np, p):
    """-> list of (what, details) the case violates"""
    from fractions import Fraction
    x = np.array(p['x'], dtype=p['dtype']).reshape(p['shape'])
    if [int(v) for v in x.reshape(-1)] != list(p['x']):
        return []                           # the entries do not fit the dtype: not a case
    x0 = np.array(x, copy=True)
    calls = []

    def mk(i, name):
        def f(z):
            calls.append((i, z is x, getattr(z, 'dtype', None) == x0.dtype and np.array_equal(z, x0)))
            return INT_COMPS[name][0](z)
        return f
    wf = L['WeightedFunction'](functions=[mk(i, c_) for i, c_ in enumerate(p['comps'])], weights=list(p['ws']))
    try:
        out = wf.pointer(x)
    except Exception as ex:
        return [('weighted-raised', dict(error=type(ex).__name__ + ': ' + str(ex)[:80]))]
    bad = []
    want = sum(w * INT_COMPS[c_][1](list(p['x'])) for w, c_ in zip(p['ws'], p['comps']))
    try:
        got = Fraction(out.item() if hasattr(out, 'item') else out)
    except Exception:
        got = None
    if got != want:
        bad.append(('not-the-weighted-sum', dict(got=repr(out), reference=want)))
    if [c[0] for c in calls] != list(range(len(p['comps']))):
        bad.append(('components-not-called-once-in-order', dict(calls=[c[0] for c in calls])))
    if not all(c[1] and c[2] for c in calls) or x.dtype != x0.dtype or not np.array_equal(x, x0):
        bad.append(('argument-modified-or-replaced', dict(same_object=[c[1] for c in calls], same_dtype_and_entries=[c[2] for c in calls])))
    return bad


# --- a callable listed more than once ------------------------------------------------------------------------------
# "for every list of single-argument functions": every entry of the list is a component of its own, evaluated once per
# call in list order - also when one (stateful, call-counting) callable stands at several positions
def gen_repeated_case(rng):
    n = rng.randint(2, 6)
    k = rng.randint(1, n - 1)               # fewer callables than positions: at least one stands twice
    return dict(how='weighted-repeated', slots=[rng.randrange(k) for _ in range(n)],
                ws=[rng.choice([0.0, 0.5, 0.5, -1.5, 1.0, 2.0, 3, -2, 0.25]) for _ in range(n)],
                vals=[rng.randint(-40, 40) * 0.25 for _ in range(k)], steps=[rng.randint(1, 9) * 0.125 for _ in range(k)],
                via=rng.choice(['constructor', 'constructor', 'setter']))


def run_repeated_case(L, np, p):
    slots, ws, vals, steps = p['slots'], p['ws'], p['vals'], p['steps']
    calls, count = [], [0] * len(vals)

    def mk(j):
        def f(z):
            calls.append(j)
            count[j] += 1
            return vals[j] + (count[j] - 1) * steps[j]      # another reading at every evaluation
        return f
    fs = [mk(j) for j in range(len(vals))]
    try:
        if p['via'] == 'constructor':
            wf = L['WeightedFunction'](functions=[fs[j] for j in slots], weights=list(ws))
        else:
            wf = L['WeightedFunction'](functions=[(lambda z: 0.0) for _ in slots], weights=list(ws))
            Fs = [L['Function'](pointer=f) for f in fs]
            wf.functions = [Fs[j] for j in slots]
        x = np.array([[0.5], [-1.5]])
        bad = []
        seen = [0] * len(vals)
        for call in range(2):
            del calls[:]
            out = wf.pointer(x)
            ref = 0
            for j, w in zip(slots, ws):
                ref += w * (vals[j] + seen[j] * steps[j])
                seen[j] += 1
            if calls != list(slots):
                bad.append(('components-not-called-once-in-order', dict(call=call, calls=list(calls), listed=list(slots))))
            if not (float(out) == float(ref)):
                bad.append(('not-the-weighted-sum', dict(call=call, got=float(out), reference=float(ref))))
            if bad:
                break
        return bad
    except Exception as ex:
        return [('weighted-raised', dict(error=type(ex).__name__ + ': ' + str(ex)[:80]))]


def check(ctx):
    L = lib.load()
    np = L['np']
    C = Comp(ctx, 'one case = one WeightedFunction (1-6 recording components with scripted values, zero/negative/large/int weights) evaluated once: value compared bit-exactly with the Lean fold and with a Python reference, call log (each component exactly once, in order, on the very argument, unmodified); plus optimisation runs with a WeightedFunction objective; non-trivial = at least two components and a weight different from 1',
             ['components are single-argument callables', 'equally long lists'])
    drv = common.Driver()
    rng2 = random.Random(ctx['seed'] * 7919 + 16)
    try:
        for k in range(300 if ctx['tier'] == 'quick' else 5000):
            one(C, drv, L, np, C.rng.randint(1, 6))
            # integer-typed arguments and component lists naming one callable several times (own random stream)
            for gen, run, kind in ((gen_int_case, run_int_case, 'integer-argument'), (gen_repeated_case, run_repeated_case, 'repeated-callable')):
                p_ = gen(rng2)
                for what, det in run(L, np, p_):
                    C.issue(what, 'oracle', p_, **det)
                C.case(key=(kind, json.dumps(p_, sort_keys=True)), nontrivial=len(p_['ws']) >= 2, kind=kind)
        # optimisable wherever a plain Function is: every kind once with the weighted objective
        for kind in runlevel.KINDS:
            cfg = next(c for c in runlevel.gen_configs('thorough', ctx['seed']) if c['kind'] == kind)
            cfg = dict(cfg, objective='weighted', hook='observer')
            if kind == 'WCA':
                cfg['n_agents'] = max(cfg['n_agents'], 3)
            CORR = {'clip-mismatch', 'pattern', 'schedule-mismatch', 'truth-flag', 'budget-table-mismatch'}

            def issues_of(c_):
                r_ = runpass.analyse_run(c_, drv, props=['C03', 'C02', 'C20'])
                return [i for p in ('C03', 'C02', 'C20') for i in r_['issues'][p] if not i.get('known') and i['what'] not in CORR]
            cfgs = [cfg]
            # single-agent task (optimisers that move agents in place re-use one array between evaluations)
            if kind not in ('WCA', 'GP'):
                cfgs.append(dict(cfg, n_agents=1, n_iter=4))
            for c_ in cfgs:
                bad = issues_of(c_)
                if bad:
                    # specific to the weighted objective only if the same task with a plain Function returning the same
                    # values is fine (anything else belongs to the property that owns the optimizer's behaviour)
                    plain = {i['what'] for i in issues_of(dict(c_, objective='weightedplain'))}
                    own = [i for i in bad if i['what'] not in plain]
                    if own:
                        C.issue('weighted-objective-run', 'oracle', dict(how='runlevel', cfg=c_), detail=own[:2])
            C.case(key=('run', kind), nontrivial=True, kind='optimise-' + kind)
    finally:
        drv.close()
    return C.result()


def search(ctx, corr, broken):
    res = check(dict(ctx, tier='thorough'))
    for i in res['issues']:
        if i['layer'] == 'oracle':
            return i
    return None


def replay(prop, payload):
    L = lib.load()
    np = L['np']
    if payload['how'] == 'weighted-int':
        return bool(run_int_case(L, np, payload))
    if payload['how'] == 'weighted-repeated':
        return bool(run_repeated_case(L, np, payload))
    if payload['how'] != 'weighted':
        return True
    ws, vals = payload['ws'], payload['vals']
    wf = L['WeightedFunction'](functions=[(lambda i: (lambda z: vals[i]))(i) for i in range(len(ws))], weights=list(ws))
    out = wf.pointer(np.zeros((1, 1)))
    ref = 0
    for w, v in zip(ws, vals):
        ref += w * v
    return float(out) != float(ref)
