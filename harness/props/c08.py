"""C08 — every GP tree is a well-formed expression tree, disjoint from all others."""
import common, lib, treeutil as T, gpops, runpass, runlevel
from comp import Comp


def check(ctx):
    L = lib.load()
    np = L['np']
    C = Comp(ctx, 'one case = one tree-producing operation on the real code (grow under scripted draws, _mutate at a forced point, _cross at a forced pair of points, or one recorded GP run whose whole forest is checked at every record): result compared with the Lean model (canonical form) and judged by the Python well-formedness oracle (arity, links, flags, root, no node twice, terminal shape, disjointness, depth); non-trivial = result with at least 3 nodes; exhaustive over all pairs of parent shapes to depth 2 and all point pairs',
             ['copy.deepcopy produces a disjoint structure', 'draws inside the range the code requests'])
    drv = common.Driver()
    gp = L['kinds']['GP']()
    try:
        # ---- grow
        reps = 120 if ctx['tier'] == 'quick' else 1500
        for k in range(reps):
            sc = gpops.Script(C.rng).install()
            try:
                sp = gpops.make_space(C.rng, n_trees=1)
                first_functions = list(sp.functions)
                if k % 3 == 1:
                    # the function set is replaced through its setter after construction (same length, other arities at
                    # the same index; or another length): what grows afterwards follows the *current* set
                    pool = [f for f in T.OPS]
                    C.rng.shuffle(pool)
                    new = pool[:len(first_functions)] if k % 2 else pool[:C.rng.randint(1, 5)]
                    sp.functions = new
                inplace = False
                if k % 3 == 2 and len(sp.functions) >= 1:
                    # … or the list the space holds is edited in place (reversed, sorted, one entry replaced): what grows
                    # afterwards still follows the list as it is now
                    inplace = True
                    how_ = k % 9
                    if how_ == 2:
                        sp.functions.reverse()
                    elif how_ == 5:
                        sp.functions.sort()
                    else:
                        cur = sp.functions[0]
                        other = [f for f in T.OPS if (f in T.UN) != (cur in T.UN)]
                        sp.functions[0] = C.rng.choice(other)
                sc.log.clear()
                err = None
                # grow is also called directly with depths other than the space's own (a shallower or a deeper budget)
                gmin, gmax = sp.min_depth, sp.max_depth
                if k % 4 == 3:
                    gmin = C.rng.randint(1, 2)
                    gmax = gmin + C.rng.randint(0, 2)
                    while gmax == sp.max_depth and gmin == sp.min_depth:
                        gmax += 1
                try:
                    t = sp.grow(gmin, gmax)
                except Exception as ex:
                    err = type(ex).__name__ + ': ' + str(ex)[:80]
                draws = [d for _, _, d in sc.log]
            finally:
                sc.remove()
            if err is not None:
                C.issue('grow-raised', 'oracle', dict(how='grow', functions=list(sp.functions), n_terminals=sp.n_terminals, min_depth=gmin,
                                                      max_depth=gmax, draws=draws, first_functions=first_functions, inplace=inplace, space_max_depth=sp.max_depth), error=err)
                continue
            real = T.canon(t)
            model = gpops.model_grow(drv, sp, draws, gmax - gmin)
            rp = dict(how='grow', functions=list(sp.functions), n_terminals=sp.n_terminals, min_depth=gmin,
                      max_depth=gmax, draws=draws, first_functions=first_functions, inplace=inplace, space_max_depth=sp.max_depth)
            if model != real:
                C.issue('grow-mismatch', 'correspondence', rp, model=model, real=real)
            wmodel = gpops.model_grow(drv, sp, draws, gmax - gmin, cmd='w.grow')
            if wmodel != real:
                C.issue('translated-grow-mismatch', 'correspondence', rp, model=wmodel, real=real)
            C.extra['translated_grow_runs'] = C.extra.get('translated_grow_runs', 0) + 1
            defects = T.wf_oracle(t, sp.n_variables, sp.n_dimensions)
            if defects:
                C.issue('grown-tree-malformed', 'oracle', rp, defects=defects)
            # (depths count from `min_depth`: a call grow(lo, hi) may add hi - lo levels below its root)
            if t.max_depth > gmax - gmin:
                C.issue('grown-tree-too-deep', 'oracle', rp, depth=t.max_depth, budget=gmax - gmin)
            C.case(key=('grow', real), nontrivial=t.n_nodes >= 3, kind='grow', sample=dict(rp, tree=real))
        # ---- cross: exhaustive over pairs of shapes and points
        depth = 2
        shapes = T.shapes_upto(depth)
        pairs = [(a, b) for a in shapes for b in shapes]
        if ctx['tier'] == 'quick':
            pairs = [p for i, p in enumerate(pairs) if True]
        n_cross = 0
        for fa, mo in pairs:
            terms = [np.array([[0.25]]), np.array([[0.75]])]
            nf, nm = T.shape_size(fa), T.shape_size(mo)
            for pf in range(1, nf + 1):
                for pm in range(1, nm + 1):
                    father = T.build(fa, terminals=terms, term_ids=[0, 1])
                    mother = T.build(mo, ops=['COS' if s == 'U' else 'MUL' for s in op_kinds(mo)], terminals=terms, term_ids=[1, 0])
                    fb, mb = T.canon(father), T.canon(mother)
                    fids, mids = gpops.node_ids(father), gpops.node_ids(mother)
                    sc = gpops.Script(C.rng, forced=[pf, pm]).install()
                    try:
                        o1, o2 = gp._cross(father, mother, nf, nm)
                    except AttributeError:
                        continue
                    finally:
                        sc.remove()
                    n_cross += 1
                    rp = dict(how='cross', father=T.enc_tree(father), mother=T.enc_tree(mother), pf=pf, pm=pm)
                    out = drv.ask(f't.cross {T.enc_tree(father)} {T.enc_tree(mother, base=100)} {pf} {pm}')
                    real = T.canon(o1) + ' ' + T.canon(o2)
                    if out != real:
                        C.issue('cross-mismatch', 'correspondence', rp, model=out[:300], real=real[:300])
                    for name, o in (('first', o1), ('second', o2)):
                        d = T.wf_oracle(o, 1, 1)
                        if d:
                            C.issue('offspring-malformed', 'oracle', rp, which=name, defects=d)
                    ids1, ids2 = set(gpops.node_ids(o1)), set(gpops.node_ids(o2))
                    if ids1 & ids2 or (ids1 | ids2) & set(fids + mids):
                        C.issue('offspring-share-nodes', 'oracle', rp)
                    C.case(key=('cross', fb, mb, pf, pm), nontrivial=(nf >= 3 or nm >= 3), kind='cross',
                           sample=dict(rp, offspring=real) if nf >= 3 and nm >= 3 and pf >= 2 else None)
        C.exhaustive = True
        C.extra['exhaustive_over'] = f'_cross: all {len(pairs)} ordered pairs of shapes up to depth {depth} x every pair of points 1..n_nodes ({n_cross} calls)'
        # ---- mutate at every point of every shape
        for s in T.shapes_upto(3 if ctx['tier'] == 'thorough' else 2):
            n = T.shape_size(s)
            for p in range(1, n + 2):
                sc = gpops.Script(C.rng).install()
                try:
                    sp = gpops.make_space(C.rng, n_trees=1)
                    tree = T.build(s, terminals=[t.position for t in sp.terminals], term_ids=list(range(sp.n_terminals)))
                    before = T.canon(tree)
                    sc.forced = [p]
                    sc.log.clear()
                    try:
                        res = gp._mutate(sp, tree, n)
                    except AttributeError:
                        continue
                    draws = [d for _, _, d in sc.log][1:]
                finally:
                    sc.remove()
                branch = gpops.model_grow(drv, sp, draws, sp.max_depth - sp.min_depth) if draws else None
                rp = dict(how='mutate', tree=T.enc_tree(tree), point=p, functions=sp.functions, n_terminals=sp.n_terminals,
                          min_depth=sp.min_depth, max_depth=sp.max_depth, draws=draws)
                if branch is not None:
                    out = drv.ask(f't.mutate {T.enc_tree(tree)} {p} {T.reoffset(branch, 1000)}')
                    if out != T.canon(res):
                        C.issue('mutate-mismatch', 'correspondence', rp, model=out[:300], real=T.canon(res)[:300])
                d = T.wf_oracle(res, sp.n_variables, sp.n_dimensions)
                if d:
                    C.issue('mutant-malformed', 'oracle', rp, defects=d)
                if set(gpops.node_ids(res)) & set(gpops.node_ids(tree)):
                    C.issue('mutant-shares-nodes', 'oracle', rp)
                if T.canon(tree) != before:
                    C.issue('mutation-changed-parent', 'oracle', rp)
                C.case(key=('mutate', before, p, tuple(draws)), nontrivial=n >= 3, kind='mutate')
        # ---- whole GP runs: the forest at every record
        cfgs = [c for c in runlevel.gen_configs(ctx['tier'], ctx['seed']) if c['kind'] == 'GP']
        if ctx['tier'] == 'quick':
            cfgs = cfgs + [c for c in runlevel.gen_configs('thorough', ctx['seed'] + 5) if c['kind'] == 'GP'][:25]
        # degenerate depth ranges (min_depth == max_depth), a single terminal, every tree re-created by mutation:
        # whatever the operators re-create is a freshly grown tree inside the space's depth budget
        deg = []
        for j, c in enumerate(cfgs[:8 if ctx['tier'] == 'quick' else 40]):
            d_ = 1 + j % 3
            deg.append(dict(c, min_depth=d_, max_depth=d_, n_terminals=1 + j % 2, n_agents=10, n_iter=6,
                            functions=list(runlevel.FUNCSETS[j % len(runlevel.FUNCSETS)]),
                            hyper={'p_reproduction': 0.2, 'p_mutation': 1.0 if j % 2 else 0.6, 'p_crossover': 0.3, 'prunning_ratio': 0.0}))
        cfgs = cfgs + deg
        forests = 0
        for c in cfgs:
            c = dict(c, n_iter=max(c['n_iter'], 3))
            r = runpass.analyse_run(c, drv, props=['C08'])
            forests += r['stats']['C08'].get('forests', 0)
            for i in r['issues']['C08']:
                i['replay'] = dict(how='runlevel', cfg=c, what=i['what'])
                if not i.get('known'):
                    C.issue(i['what'], 'oracle', i['replay'], detail=i)
            C.case(key=('run', c['seed']), nontrivial=r['error'] is None, kind='gp-run')
        C.extra['forests_checked_in_runs'] = forests
        # the population loops themselves (`_crossover`, `_mutation`) under a scripted tournament, also on populations as deep
        # as bloat leaves them, with individuals selected twice: the forest stays disjoint and the loops are the ones the
        # translator read (compared with `Gen.crossLoop` / `Gen.mutLoop` on the same draws)
        from props import c09 as _c09
        for k in range(16 if ctx['tier'] == 'quick' else 160):
            n = C.rng.randint(6, 12)
            npairs = C.rng.choice([2, 2, 3])
            sel = C.rng.sample(range(n), 2 * npairs) if k % 3 else [C.rng.randrange(n) for _ in range(2 * npairs)]
            _c09.check_crossover(C, n, sel, C.rng.randrange(1 << 30), drv=drv, deep=(k % 2 == 0))
            selm = [C.rng.randrange(n) for _ in range(C.rng.randint(2, 5))]
            _c09.check_mutation(C, drv, n, selm, C.rng.randrange(1 << 30), single=[selm[0]] if k % 2 == 0 else ())
        # individuals as deep as long bloating runs leave them, handed to every operator
        deep_cases(C, ctx['tier'])
    finally:
        drv.close()
    return C.result()


def _deep_tree(depth, lean, terms):
    """a proper tree `depth` levels deep, built without recursion: a comb of binary operators whose spine continues
    on the right ('right'), on the left ('left') or alternates ('zig'); leaves are copies of the terminal arrays"""
    L = lib.load()
    Node, np = L['Node'], L['np']
    count = [0]

    def leaf():
        k = count[0] % len(terms)
        count[0] += 1
        return Node(name=k, type='TERMINAL', value=np.array(terms[k], copy=True))
    root = cur = Node(name='SUM', type='FUNCTION')
    for i in range(depth):
        nxt = leaf() if i == depth - 1 else Node(name='SUM' if i % 3 else 'MUL', type='FUNCTION')
        other = leaf()
        on_right = lean == 'right' or (lean == 'zig' and i % 2 == 1)
        l_, r_ = (other, nxt) if on_right else (nxt, other)
        cur.left = l_
        l_.flag = True
        l_.parent = cur
        cur.right = r_
        r_.flag = False
        r_.parent = cur
        cur = nxt
    return root


def _links(root):
    """everything a tree's nodes hold, without recursion (identity of the node, of its children and parent, flag)"""
    return [(id(n), str(n.name), n.type, id(n.left) if n.left is not None else None,
             id(n.right) if n.right is not None else None, id(n.parent) if n.parent is not None else None, n.flag)
            for n in T.walk(root)[0]]


def deep_case(C, rc):
    """one GP operator applied to individuals as deep as long bloating runs leave them (far deeper than any depth limit
    of the space, up to and beyond the depth `copy.deepcopy` manages under Python's recursion limit).  Python's
    RecursionError is outside the property (nothing was produced); every tree that IS produced must be a proper tree,
    disjoint from its parents and from the rest of the forest, and the parents stay as they were."""
    import random as _r, sys as _sys
    import opytimizer.math.general as g
    L = lib.load()
    np = L['np']
    rp = dict(rc, how='deep')
    rng = _r.Random(rc['seed'])
    np.random.seed(rc['seed'])
    gp = L['kinds']['GP'](hyperparams=dict(rc.get('hyper') or {}))
    sp = L['TreeSpace'](n_trees=rc.get('n', 4), n_terminals=2, n_variables=1, n_iterations=1, min_depth=1, max_depth=3,
                        functions=['SUM', 'MUL', 'ABS'], lower_bound=[0.0], upper_bound=[1.0])
    terms = [t_.position for t_ in sp.terminals]
    deep = [_deep_tree(d_, rc['lean'], terms) for d_ in rc['depths']]
    for d_ in deep:
        if T.wf_oracle(d_, 1, 1):
            raise RuntimeError('harness: the deep tree is not a proper tree')
    parents_before = [_links(d_) for d_ in deep]
    produced, forest = [], None
    old_limit = _sys.getrecursionlimit()
    _sys.setrecursionlimit(1000)
    sc = gpops.Script(rng, forced=list(rc.get('points') or [])).install()
    orig_t = g.tournament_selection
    outcome = 'returned'
    try:
        op = rc['op']
        if op == 'mutate':
            pt = rc['points'][0]
            sc.forced = [pt if pt > 0 else deep[0].n_nodes + pt]
            produced = [gp._mutate(sp, deep[0], deep[0].n_nodes)]
        elif op == 'cross':
            mother = deep[1] if len(deep) > 1 else sp.trees[1]
            if len(deep) == 1:
                parents_before.append(_links(mother))
                deep.append(mother)
            pf, pm = rc['points']
            sc.forced = [pf if pf > 0 else deep[0].n_nodes + pf, pm if pm > 0 else mother.n_nodes + pm]
            if rc.get('swap'):
                produced = list(gp._cross(mother, deep[0], mother.n_nodes, deep[0].n_nodes))
            else:
                produced = list(gp._cross(deep[0], mother, deep[0].n_nodes, mother.n_nodes))
        else:
            # operators working on the population: the deep individuals sit in the first slots
            for i_, d_ in enumerate(deep):
                sp.trees[i_] = d_
            for i_, a_ in enumerate(sp.agents):
                a_.fit = float(i_ + 1)
            g.tournament_selection = lambda fit, k: list(rc['selected'])[:k] if k <= len(rc['selected']) else list(rc['selected'])
            forest = sp
            if op == 'reproduction':
                gp._reproduction(sp)
            elif op == 'crossover':
                gp._crossover(sp)
            elif op == 'mutation':
                gp._mutation(sp)
            elif op == 'evaluate':
                # the first individual evaluated becomes the best tree (a deep copy)
                sp.best_agent.fit = L['c'].FLOAT_MAX
                gp._evaluate(sp, L['Function'](lambda x: float(np.sum(x ** 2))))
    except RecursionError:
        outcome = 'recursion-limit'
    finally:
        sc.remove()
        g.tournament_selection = orig_t
        _sys.setrecursionlimit(old_limit)
    # ---- the oracle
    for k_, o in enumerate(produced):
        d_ = T.wf_oracle(o, 1, 1)
        if d_:
            C.issue('deep-offspring-malformed', 'oracle', rp, which=k_, defects=sorted(set(d_))[:6], n_defects=len(d_))
    if produced:
        ids = [set(gpops.node_ids(o)) for o in produced]
        pids = set(x for d_ in deep for x in gpops.node_ids(d_))
        if any(i_ & pids for i_ in ids) or (len(ids) == 2 and ids[0] & ids[1]):
            C.issue('deep-offspring-share-nodes', 'oracle', rp)
    if forest is not None:
        whole = list(forest.trees) + [forest.best_tree]
        seen = {}
        for k_, t_ in enumerate(whole):
            name = f'trees[{k_}]' if k_ < len(forest.trees) else 'best_tree'
            d_ = T.wf_oracle(t_, 1, 1)
            if d_:
                C.issue('deep-forest-tree-malformed', 'oracle', rp, which=name, defects=sorted(set(d_))[:6], n_defects=len(d_), outcome=outcome)
            for x in gpops.node_ids(t_):
                if x in seen and seen[x] != name:
                    C.issue('deep-forest-not-disjoint', 'oracle', rp, trees=[seen[x], name], outcome=outcome)
                    break
                seen[x] = name
        if len(forest.trees) != rc.get('n', 4) or len(forest.agents) != rc.get('n', 4):
            C.issue('deep-population-size', 'oracle', rp)
    if rc['op'] in ('mutate', 'cross', 'reproduction', 'evaluate'):
        # these never edit the individuals they read (the loops replace slots; the objects formerly there are dropped)
        if [_links(d_) for d_ in deep] != parents_before:
            C.issue('deep-parent-changed', 'oracle', rp, outcome=outcome)
    C.extra.setdefault('deep_outcomes', {}).setdefault(outcome, 0)
    C.extra['deep_outcomes'][outcome] += 1
    C.case(key=('deep', rc['op'], tuple(rc['depths']), rc['lean'], tuple(rc.get('points') or ()), rc['seed']),
           nontrivial=outcome == 'returned', kind='deep-' + rc['op'] + ('' if outcome == 'returned' else '-recursion-limit'))


def deep_cases(C, tier):
    """the grid of deep cases: every operator x depths on either side of what `copy.deepcopy` manages"""
    k = 0
    for depth in (60, 150, 320, 450, 800):
        for lean in ('right', 'zig', 'left'):
            if tier == 'quick' and lean == 'left' and depth not in (150, 450):
                continue
            k += 1
            seed = 1000 * depth + k
            deep_case(C, dict(op='mutate', depths=[depth], lean=lean, points=[(2, -1, depth, -depth)[k % 4]], seed=seed))
            deep_case(C, dict(op='cross', depths=[depth], lean=lean, points=[(-2, 3, depth)[k % 3], 2], swap=bool(k % 2), seed=seed))
            deep_case(C, dict(op='cross', depths=[depth, 40 + depth // 2], lean=lean, points=[-3, (2, -1)[k % 2]], seed=seed))
            deep_case(C, dict(op='reproduction', depths=[depth], lean=lean, selected=[0], hyper={'p_reproduction': 0.3}, seed=seed))
            deep_case(C, dict(op='evaluate', depths=[depth], lean=lean, selected=[], seed=seed))
            deep_case(C, dict(op='crossover', depths=[depth, depth + 7], lean=lean, selected=[0, 2, 1, 3], n=6,
                              hyper={'p_crossover': 0.6, 'prunning_ratio': 0.0}, seed=seed))
            deep_case(C, dict(op='mutation', depths=[depth], lean=lean, selected=[0, 1], n=6,
                              hyper={'p_mutation': 0.4, 'prunning_ratio': 0.0}, seed=seed))


def op_kinds(s):
    if s == 'L':
        return []
    out = [s[0]]
    for c in s[1:]:
        out += op_kinds(c)
    return out


def search(ctx, corr, broken):
    res = check(dict(ctx, tier='thorough'))
    for i in res['issues']:
        if i['layer'] == 'oracle':
            return i
    return None


def replay(prop, payload):
    from props.c11 import decode
    L = lib.load()
    gp = L['kinds']['GP']()
    import random
    if payload['how'] in ('crossover', 'mutation'):
        from props import c09 as _c09
        return _c09.replay(prop, payload)
    if payload['how'] == 'deep':
        C = Comp(dict(seed=0, tier='quick'), '')
        deep_case(C, {k_: v_ for k_, v_ in payload.items() if k_ != 'how'})
        return any(i['layer'] == 'oracle' for i in C.issues)
    if payload['how'] == 'cross':
        f, m = decode(payload['father']), decode(payload['mother'])
        sc = gpops.Script(random.Random(0), forced=[payload['pf'], payload['pm']]).install()
        try:
            o1, o2 = gp._cross(f, m, f.n_nodes, m.n_nodes)
        finally:
            sc.remove()
        ids = set(gpops.node_ids(o1)) & set(gpops.node_ids(o2))
        return bool(T.wf_oracle(o1, 1, 1) or T.wf_oracle(o2, 1, 1) or ids
                    or (set(gpops.node_ids(o1)) | set(gpops.node_ids(o2))) & set(gpops.node_ids(f) + gpops.node_ids(m)))
    if payload['how'] == 'runlevel':
        drv = common.Driver()
        try:
            r = runpass.analyse_run(payload['cfg'], drv, props=['C08'])
        finally:
            drv.close()
        return bool(r['issues']['C08'])
    if payload['how'] == 'grow':
        rng = random.Random(0)
        sc = gpops.Script(rng, clamp=True).install()      # (the constructor grows the initial trees with unforced draws)
        try:
            np = L['np']
            np.random.seed(0)
            sp = L['TreeSpace'](n_trees=1, n_terminals=payload['n_terminals'], n_variables=1, n_iterations=1,
                                min_depth=payload.get('space_max_depth', payload['max_depth']), max_depth=payload.get('space_max_depth', payload['max_depth']),
                                functions=payload.get('first_functions', payload['functions']), lower_bound=[0.0], upper_bound=[1.0])
            if payload.get('first_functions', payload['functions']) != payload['functions']:
                if payload.get('inplace'):
                    sp.functions[:] = list(payload['functions'])
                else:
                    sp.functions = list(payload['functions'])
            sc.forced = list(payload['draws'])
            try:
                t = sp.grow(payload['min_depth'], payload['max_depth'])
            except Exception:
                return True
        finally:
            sc.remove()
        return bool(T.wf_oracle(t, 1, 1)) or t.max_depth > payload['max_depth'] - payload['min_depth']
    return True
