"""C08 — every GP tree is a well-formed expression tree, disjoint from all others."""
import common, lib, treeutil as T, gpops, runpass, runlevel
from comp import Comp


def check(ctx):
    L = lib.load()
    np = L['np']
    C = Comp(ctx, 'one case = one tree-producing operation on the real code (grow under scripted draws, _mutate at a forced point, _cross at a forced pair of points, or one recorded GP run whose whole forest is checked at every record): result compared with the Lean model (canonical form) and judged by the Python well-formedness oracle (arity, links, flags, root, no node twice, terminal shape, disjointness, depth); non-trivial = result with at least 3 nodes; exhaustive over all pairs of parent shapes to depth 2 and all point pairs',
             ['copy.deepcopy produces a disjoint structure', 'draws inside the range the code requests'])
    drv = common.Driver()
    gp = L['kinds']['GP']()
    try:
        # ---- grow
        reps = 120 if ctx['tier'] == 'quick' else 1500
        for k in range(reps):
            sc = gpops.Script(C.rng).install()
            try:
                sp = gpops.make_space(C.rng, n_trees=1)
                first_functions = list(sp.functions)
                if k % 3 == 1:
                    # the function set is replaced through its setter after construction (same length, other arities at
                    # the same index; or another length): what grows afterwards follows the *current* set
                    pool = [f for f in T.OPS]
                    C.rng.shuffle(pool)
                    new = pool[:len(first_functions)] if k % 2 else pool[:C.rng.randint(1, 5)]
                    sp.functions = new
                inplace = False
                if k % 3 == 2 and len(sp.functions) >= 1:
                    # … or the list the space holds is edited in place (reversed, sorted, one entry replaced): what grows
                    # afterwards still follows the list as it is now
                    inplace = True
                    how_ = k % 9
                    if how_ == 2:
                        sp.functions.reverse()
                    elif how_ == 5:
                        sp.functions.sort()
                    else:
                        cur = sp.functions[0]
                        other = [f for f in T.OPS if (f in T.UN) != (cur in T.UN)]
                        sp.functions[0] = C.rng.choice(other)
                sc.log.clear()
                err = None
                # grow is also called directly with depths other than the space's own (a shallower or a deeper budget)
                gmin, gmax = sp.min_depth, sp.max_depth
                if k % 4 == 3:
                    gmin = C.rng.randint(1, 2)
                    gmax = gmin + C.rng.randint(0, 2)
                    while gmax == sp.max_depth and gmin == sp.min_depth:
                        gmax += 1
                try:
                    t = sp.grow(gmin, gmax)
                except Exception as ex:
                    err = type(ex).__name__ + ': ' + str(ex)[:80]
                draws = [d for _, _, d in sc.log]
            finally:
                sc.remove()
            if err is not None:
                C.issue('grow-raised', 'oracle', dict(how='grow', functions=list(sp.functions), n_terminals=sp.n_terminals, min_depth=gmin,
                                                      max_depth=gmax, draws=draws, first_functions=first_functions, inplace=inplace, space_max_depth=sp.max_depth), error=err)
                continue
            real = T.canon(t)
            model = gpops.model_grow(drv, sp, draws, gmax - gmin)
            rp = dict(how='grow', functions=list(sp.functions), n_terminals=sp.n_terminals, min_depth=gmin,
                      max_depth=gmax, draws=draws, first_functions=first_functions, inplace=inplace, space_max_depth=sp.max_depth)
            if model != real:
                C.issue('grow-mismatch', 'correspondence', rp, model=model, real=real)
            wmodel = gpops.model_grow(drv, sp, draws, gmax - gmin, cmd='w.grow')
            if wmodel != real:
                C.issue('translated-grow-mismatch', 'correspondence', rp, model=wmodel, real=real)
            C.extra['translated_grow_runs'] = C.extra.get('translated_grow_runs', 0) + 1
            defects = T.wf_oracle(t, sp.n_variables, sp.n_dimensions)
            if defects:
                C.issue('grown-tree-malformed', 'oracle', rp, defects=defects)
            # (depths count from `min_depth`: a call grow(lo, hi) may add hi - lo levels below its root)
            if t.max_depth > gmax - gmin:
                C.issue('grown-tree-too-deep', 'oracle', rp, depth=t.max_depth, budget=gmax - gmin)
            C.case(key=('grow', real), nontrivial=t.n_nodes >= 3, kind='grow', sample=dict(rp, tree=real))
        # ---- cross: exhaustive over pairs of shapes and points
        depth = 2
        shapes = T.shapes_upto(depth)
        pairs = [(a, b) for a in shapes for b in shapes]
        if ctx['tier'] == 'quick':
            pairs = [p for i, p in enumerate(pairs) if True]
        n_cross = 0
        for fa, mo in pairs:
            terms = [np.array([[0.25]]), np.array([[0.75]])]
            nf, nm = T.shape_size(fa), T.shape_size(mo)
            for pf in range(1, nf + 1):
                for pm in range(1, nm + 1):
                    father = T.build(fa, terminals=terms, term_ids=[0, 1])
                    mother = T.build(mo, ops=['COS' if s == 'U' else 'MUL' for s in op_kinds(mo)], terminals=terms, term_ids=[1, 0])
                    fb, mb = T.canon(father), T.canon(mother)
                    fids, mids = gpops.node_ids(father), gpops.node_ids(mother)
                    sc = gpops.Script(C.rng, forced=[pf, pm]).install()
                    try:
                        o1, o2 = gp._cross(father, mother, nf, nm)
                    except AttributeError:
                        continue
                    finally:
                        sc.remove()
                    n_cross += 1
                    rp = dict(how='cross', father=T.enc_tree(father), mother=T.enc_tree(mother), pf=pf, pm=pm)
                    out = drv.ask(f't.cross {T.enc_tree(father)} {T.enc_tree(mother, base=100)} {pf} {pm}')
                    real = T.canon(o1) + ' ' + T.canon(o2)
                    if out != real:
                        C.issue('cross-mismatch', 'correspondence', rp, model=out[:300], real=real[:300])
                    for name, o in (('first', o1), ('second', o2)):
                        d = T.wf_oracle(o, 1, 1)
                        if d:
                            C.issue('offspring-malformed', 'oracle', rp, which=name, defects=d)
                    ids1, ids2 = set(gpops.node_ids(o1)), set(gpops.node_ids(o2))
                    if ids1 & ids2 or (ids1 | ids2) & set(fids + mids):
                        C.issue('offspring-share-nodes', 'oracle', rp)
                    C.case(key=('cross', fb, mb, pf, pm), nontrivial=(nf >= 3 or nm >= 3), kind='cross',
                           sample=dict(rp, offspring=real) if nf >= 3 and nm >= 3 and pf >= 2 else None)
        C.exhaustive = True
        C.extra['exhaustive_over'] = f'_cross: all {len(pairs)} ordered pairs of shapes up to depth {depth} x every pair of points 1..n_nodes ({n_cross} calls)'
        # ---- mutate at every point of every shape
        for s in T.shapes_upto(3 if ctx['tier'] == 'thorough' else 2):
            n = T.shape_size(s)
            for p in range(1, n + 2):
                sc = gpops.Script(C.rng).install()
                try:
                    sp = gpops.make_space(C.rng, n_trees=1)
                    tree = T.build(s, terminals=[t.position for t in sp.terminals], term_ids=list(range(sp.n_terminals)))
                    before = T.canon(tree)
                    sc.forced = [p]
                    sc.log.clear()
                    try:
                        res = gp._mutate(sp, tree, n)
                    except AttributeError:
                        continue
                    draws = [d for _, _, d in sc.log][1:]
                finally:
                    sc.remove()
                branch = gpops.model_grow(drv, sp, draws, sp.max_depth - sp.min_depth) if draws else None
                rp = dict(how='mutate', tree=T.enc_tree(tree), point=p, functions=sp.functions, n_terminals=sp.n_terminals,
                          min_depth=sp.min_depth, max_depth=sp.max_depth, draws=draws)
                if branch is not None:
                    out = drv.ask(f't.mutate {T.enc_tree(tree)} {p} {T.reoffset(branch, 1000)}')
                    if out != T.canon(res):
                        C.issue('mutate-mismatch', 'correspondence', rp, model=out[:300], real=T.canon(res)[:300])
                d = T.wf_oracle(res, sp.n_variables, sp.n_dimensions)
                if d:
                    C.issue('mutant-malformed', 'oracle', rp, defects=d)
                if set(gpops.node_ids(res)) & set(gpops.node_ids(tree)):
                    C.issue('mutant-shares-nodes', 'oracle', rp)
                if T.canon(tree) != before:
                    C.issue('mutation-changed-parent', 'oracle', rp)
                C.case(key=('mutate', before, p, tuple(draws)), nontrivial=n >= 3, kind='mutate')
        # ---- whole GP runs: the forest at every record
        cfgs = [c for c in runlevel.gen_configs(ctx['tier'], ctx['seed']) if c['kind'] == 'GP']
        if ctx['tier'] == 'quick':
            cfgs = cfgs + [c for c in runlevel.gen_configs('thorough', ctx['seed'] + 5) if c['kind'] == 'GP'][:25]
        # degenerate depth ranges (min_depth == max_depth), a single terminal, every tree re-created by mutation:
        # whatever the operators re-create is a freshly grown tree inside the space's depth budget
        deg = []
        for j, c in enumerate(cfgs[:8 if ctx['tier'] == 'quick' else 40]):
            d_ = 1 + j % 3
            deg.append(dict(c, min_depth=d_, max_depth=d_, n_terminals=1 + j % 2, n_agents=10, n_iter=6,
                            functions=list(runlevel.FUNCSETS[j % len(runlevel.FUNCSETS)]),
                            hyper={'p_reproduction': 0.2, 'p_mutation': 1.0 if j % 2 else 0.6, 'p_crossover': 0.3, 'prunning_ratio': 0.0}))
        cfgs = cfgs + deg
        forests = 0
        for c in cfgs:
            c = dict(c, n_iter=max(c['n_iter'], 3))
            r = runpass.analyse_run(c, drv, props=['C08'])
            forests += r['stats']['C08'].get('forests', 0)
            for i in r['issues']['C08']:
                i['replay'] = dict(how='runlevel', cfg=c, what=i['what'])
                if not i.get('known'):
                    C.issue(i['what'], 'oracle', i['replay'], detail=i)
            C.case(key=('run', c['seed']), nontrivial=r['error'] is None, kind='gp-run')
        C.extra['forests_checked_in_runs'] = forests
        # the population loops themselves (`_crossover`, `_mutation`) under a scripted tournament, also on populations as deep
        # as bloat leaves them, with individuals selected twice: the forest stays disjoint and the loops are the ones the
        # translator read (compared with `Gen.crossLoop` / `Gen.mutLoop` on the same draws)
        from props import c09 as _c09
        for k in range(16 if ctx['tier'] == 'quick' else 160):
            n = C.rng.randint(6, 12)
            npairs = C.rng.choice([2, 2, 3])
            sel = C.rng.sample(range(n), 2 * npairs) if k % 3 else [C.rng.randrange(n) for _ in range(2 * npairs)]
            _c09.check_crossover(C, n, sel, C.rng.randrange(1 << 30), drv=drv, deep=(k % 2 == 0))
            selm = [C.rng.randrange(n) for _ in range(C.rng.randint(2, 5))]
            _c09.check_mutation(C, drv, n, selm, C.rng.randrange(1 << 30), single=[selm[0]] if k % 2 == 0 else ())
    finally:
        drv.close()
    return C.result()


def op_kinds(s):
    if s == 'L':
        return []
    out = [s[0]]
    for c in s[1:]:
        out += op_kinds(c)
    return out


def search(ctx, corr, broken):
    res = check(dict(ctx, tier='thorough'))
    for i in res['issues']:
        if i['layer'] == 'oracle':
            return i
    return None


def replay(prop, payload):
    from props.c11 import decode
    L = lib.load()
    gp = L['kinds']['GP']()
    import random
    if payload['how'] in ('crossover', 'mutation'):
        from props import c09 as _c09
        return _c09.replay(prop, payload)
    if payload['how'] == 'cross':
        f, m = decode(payload['father']), decode(payload['mother'])
        sc = gpops.Script(random.Random(0), forced=[payload['pf'], payload['pm']]).install()
        try:
            o1, o2 = gp._cross(f, m, f.n_nodes, m.n_nodes)
        finally:
            sc.remove()
        ids = set(gpops.node_ids(o1)) & set(gpops.node_ids(o2))
        return bool(T.wf_oracle(o1, 1, 1) or T.wf_oracle(o2, 1, 1) or ids
                    or (set(gpops.node_ids(o1)) | set(gpops.node_ids(o2))) & set(gpops.node_ids(f) + gpops.node_ids(m)))
    if payload['how'] == 'runlevel':
        drv = common.Driver()
        try:
            r = runpass.analyse_run(payload['cfg'], drv, props=['C08'])
        finally:
            drv.close()
        return bool(r['issues']['C08'])
    if payload['how'] == 'grow':
        rng = random.Random(0)
        sc = gpops.Script(rng, clamp=True).install()      # (the constructor grows the initial trees with unforced draws)
        try:
            np = L['np']
            np.random.seed(0)
            sp = L['TreeSpace'](n_trees=1, n_terminals=payload['n_terminals'], n_variables=1, n_iterations=1,
                                min_depth=payload.get('space_max_depth', payload['max_depth']), max_depth=payload.get('space_max_depth', payload['max_depth']),
                                functions=payload.get('first_functions', payload['functions']), lower_bound=[0.0], upper_bound=[1.0])
            if payload.get('first_functions', payload['functions']) != payload['functions']:
                if payload.get('inplace'):
                    sp.functions[:] = list(payload['functions'])
                else:
                    sp.functions = list(payload['functions'])
            sc.forced = list(payload['draws'])
            try:
                t = sp.grow(payload['min_depth'], payload['max_depth'])
            except Exception:
                return True
        finally:
            sc.remove()
        return bool(T.wf_oracle(t, 1, 1)) or t.max_depth > payload['max_depth'] - payload['min_depth']
    return True
