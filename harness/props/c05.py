"""C05 — runs are reproducible from the NumPy seed alone (two-run differential + effect audit)."""
import json, os, subprocess, sys
import common, lib, runlevel
from comp import Comp
import c05_child


def child(cfg, workload, hashseed):
    env = dict(os.environ, PYTHONHASHSEED=str(hashseed))
    p = subprocess.run(['/venv/bin/python', os.path.join(common.HERE, 'c05_child.py')], input=json.dumps(dict(cfg=cfg, workload=workload)),
                       capture_output=True, text=True, env=env, timeout=300)
    for l in p.stdout.splitlines():
        if l.startswith('RESULT '):
            return json.loads(l[7:])
    raise RuntimeError('child failed: ' + p.stderr[-400:])


def check(ctx):
    L = lib.load()
    np = L['np']
    C = Comp(ctx, 'one case = one configuration run twice from scratch with the same NumPy seed — once directly, once after an unrelated workload of other optimisers (quick: in one process, plus cross-process pairs with different PYTHONHASHSEED; thorough: every pair cross-process) — and once with seed+1: digests of every history attribute (float.hex), final population, best agent and GP tree values must agree / differ; entropy sources other than the global NumPy generator are tapped; non-trivial = configurations with a non-degenerate box (different seeds must differ)',
             ['structural theorem (Proofs/C05.lean) + differential test: "the process has no other entropy" is not a theorem',
              'elapsed time excluded'])
    cfgs = [dict(c, adv=0.0, hook='observer') for c in runlevel.gen_configs('quick', ctx['seed'])]
    # one per (kind, space), thorough: more
    pick = {}
    for c in cfgs:
        k = (c['kind'], c['space'])
        if k not in pick or ctx['tier'] == 'thorough':
            pick[k if ctx['tier'] == 'quick' else (k, len(pick))] = c
    chosen = list(pick.values())
    if ctx['tier'] == 'thorough':
        chosen = chosen[:120]
    # barrier objectives (+inf on part of the box): state that is only conditionally initialised shows here
    barrier = []
    for c in list(pick.values()):
        if c['space'] != 'tree' and (c['kind'], 'barrier') not in {(b['kind'], 'barrier') for b in barrier}:
            barrier.append(dict(c, objective='barrier', box='unit', lb=[0.0] * c['n_vars'], ub=[1.0] * c['n_vars'],
                                n_agents=max(c['n_agents'], 6), n_iter=2, hyper={}))
    chosen = chosen + barrier
    # … and one fixed swarm task with a hard constraint (+inf on half the box, so some particle starts infeasible whatever the
    # seed), compared across processes after a task of the same shapes that leaves other numbers in freed memory
    for kind_ in ('PSO', 'AIWPSO', 'RPSO'):
        chosen.append(dict(kind=kind_, space='search', n_agents=12, n_vars=3, n_dims=1, n_iter=3, box='unit', lb=[0.0] * 3, ub=[1.0] * 3,
                           objective='infpen', rettype='py', hyper={}, adv=0.0, hook='observer', store_best_only=False,
                           seed=1234567 + ctx['seed'], xproc=True))
    # GP on several function sets, always compared across interpreter processes with different PYTHONHASHSEED
    # (anything ordered by a set/dict of strings differs between processes, never inside one)
    gps = [c for c in cfgs if c['kind'] == 'GP']
    if gps:
        for j, fs in enumerate(runlevel.FUNCSETS if ctx['tier'] == 'thorough' else [runlevel.FUNCSETS[5], runlevel.FUNCSETS[0], runlevel.FUNCSETS[2]]):
            g = gps[j % len(gps)]
            chosen.append(dict(g, functions=list(fs), n_agents=max(g['n_agents'], 10), max_depth=max(g['max_depth'], g['min_depth'] + 2),
                               seed=g['seed'] + j, xproc=True))
    n_cross = 8 if ctx['tier'] == 'quick' else len(chosen)
    workloads = [dict(c, adv=0.0, hook='observer') for c in cfgs if c['kind'] in ('PSO', 'ABC', 'GP')][:3]
    # a workload that leaves non-zero garbage behind in freed array memory of the shapes the run will allocate
    workloads = [dict(kind='PSO', space='search', n_agents=6, n_vars=c_['n_vars'], n_dims=1, n_iter=2, box='wide',
                      lb=[-7.25] * c_['n_vars'], ub=[9.5] * c_['n_vars'], objective='sphere', rettype='py', hyper={}, adv=0.0,
                      hook='observer', store_best_only=False, seed=11) for c_ in cfgs[:1]] + workloads
    # unit-box (hypercomplex) tasks whose optimizer uses the agents' own bounds, after a task on a search space of the
    # same number of variables with another box: always across processes (state cached per size shows only there)
    nx = 0
    for c in chosen:
        if c['space'] == 'hyper' and c['kind'] in ('HS', 'IHS', 'SA', 'ABC', 'BHA', 'BA', 'CS', 'FPA') and nx < (3 if ctx['tier'] == 'quick' else 12):
            c['xproc'] = True
            nx += 1
    if nx == 0:
        for c in [c for c in cfgs if c['space'] == 'hyper' and c['kind'] in ('HS', 'SA', 'ABC', 'CS')][:2]:
            chosen.append(dict(c, adv=0.0, hook='observer', xproc=True))
    # Levy-flight users after a task whose hyperparameters differ from theirs in the tenth digit only: always across
    # processes (the run alone must not have filled any cache first)
    nl = 0
    for c in chosen:
        if c['kind'] in ('CS', 'FPA') and nl < (2 if ctx['tier'] == 'quick' else 8):
            c['xproc'] = True
            nl += 1
    if nl == 0:
        for c in [c for c in cfgs if c['kind'] in ('CS', 'FPA')][:2]:
            chosen.append(dict(c, adv=0.0, hook='observer', xproc=True))
    # every kind built without a hyperparameter dictionary, after another object of the same kind (also built without one) had
    # its hyperparameters changed through the setters: what one object is told must not reach the next (always across processes)
    import random as _rnd
    seen_kinds = set()
    for c in list(cfgs):
        if c['kind'] in seen_kinds or c['kind'] == 'GP' or (ctx['tier'] == 'quick' and len(seen_kinds) >= 17):
            continue
        seen_kinds.add(c['kind'])
        r_ = _rnd.Random(ctx['seed'] * 101 + len(seen_kinds))
        post = {}
        for _ in range(4):
            post.update(runlevel.hyper_post_sample(r_, c['kind'], max(c['n_agents'], 4), post))
        base = dict(c, hyper={}, n_agents=max(c['n_agents'], 4), n_iter=2, objective='positive' if c['kind'] == 'WCA' else 'sphere', xproc=True)
        chosen.append(dict(base, setter_workload=dict(base, seed=c['seed'] + 31, hyper_post=post)))
    # a function list that repeats a name (to weight it), compared across interpreter processes with different hash seeds
    for g in [c for c in cfgs if c['kind'] == 'GP'][:1]:
        chosen.append(dict(g, functions=['SUM', 'SUM', 'MUL', 'SUB', 'MUL', 'COS'], n_agents=max(g['n_agents'], 10), max_depth=g['min_depth'] + 2, xproc=True))
    # the dictionary handed to a constructor is the caller's: after construction and a task it still says what the caller wrote
    # (re-using it for the next optimizer must give the same optimizer)
    import copy as _copy
    L_ = lib.load()
    for kind_ in [k for k in runlevel.KINDS if k != 'GP']:
        r_ = _rnd.Random(ctx['seed'] * 107 + len(kind_))
        d_ = runlevel.hyper_sample(r_, kind_, 6, 'random')
        if not d_:
            continue
        keep = _copy.deepcopy(d_)
        rpd = dict(how='dict-untouched', kind=kind_, hyper=keep)
        try:
            np.random.seed(5)
            o_ = L_['kinds'][kind_](hyperparams=d_)
            sp_ = L_['SearchSpace'](n_agents=6, n_variables=2, n_iterations=4, lower_bound=[-3, -3], upper_bound=[3, 3])
            L_['Opytimizer'](space=sp_, optimizer=o_, function=L_['Function'](pointer=lambda x: float(np.sum(np.abs(x)) + 0.5))).start()
        except Exception as ex:
            C.issue('dict-scenario-raised', 'correspondence', rpd, error=type(ex).__name__ + ': ' + str(ex)[:80])
            continue
        if d_ != keep:
            C.issue('hyperparameter-dictionary-modified', 'oracle', rpd, after={k: repr(v) for k, v in d_.items()})
        C.case(key=('dict', kind_), nontrivial=True, kind='dict-untouched')
    for n, c in enumerate(chosen):
        rp = dict(how='twice', cfg=c)
        # the preceding workload: the same kind of task (same shapes, so freed memory is re-used) with another
        # seed, objective and box, followed by unrelated optimisers
        import random as _random
        same_shape = dict(c, seed=c['seed'] + 17, objective='positive', hyper={}, n_iter=max(c['n_iter'], 6))
        # … and once more with other hyperparameters (module-level caches keyed by a hyperparameter show here)
        other_hp = dict(same_shape, seed=c['seed'] + 23,
                        hyper=runlevel.hyper_sample(_random.Random(c['seed']), c['kind'], c['n_agents'], 'ends'))
        if c['kind'] in ('CS', 'FPA'):
            other_hp['hyper'] = dict(other_hp['hyper'], beta=1.9)
        if c['space'] != 'hyper':
            same_shape.update(lb=[-7.25] * c['n_vars'], ub=[9.5] * c['n_vars'], box='wide')
        other_space = dict(kind='HC', space='search', n_agents=3, n_vars=c['n_vars'], n_dims=1, n_iter=1, box='wide',
                           lb=[-7.25] * c['n_vars'], ub=[9.5] * c['n_vars'], objective='sphere', rettype='py', hyper={}, adv=0.0,
                           hook='observer', store_best_only=False, seed=13)
        near = []
        if c['kind'] in ('CS', 'FPA'):
            b0 = float((c.get('hyper') or {}).get('beta', 1.5))
            for db in (3e-10, -4e-12):
                near.append(dict(same_shape, seed=c['seed'] + 29, hyper=dict(c.get('hyper') or {}, beta=b0 + db)))
        wl = near + [other_hp, same_shape, other_space] + workloads[:2]
        if c.get('setter_workload'):
            wl = [c['setter_workload']] + wl
            c = {k_: v_ for k_, v_ in c.items() if k_ != 'setter_workload'}
            rp = dict(how='twice', cfg=c)
        rp['workload'] = wl
        if n < n_cross or c['objective'] == 'barrier' or c.get('xproc'):
            a = child(c, [], 1)
            b = child(c, wl, 2)
            mode = 'cross-process'
        else:
            a = c05_child.digest_run(c, [])
            b = c05_child.digest_run(c, wl)
            mode = 'in-process'
        if a['digest'] != b['digest'] or a['error'] != b['error']:
            C.issue('not-reproducible', 'oracle', rp, mode=mode, first=a, second=b)
        extra = {k: v for k, v in {**a['touched'], **b['touched']}.items()}
        if extra:
            C.issue('other-entropy-source', 'oracle', rp, touched=extra)
        nondeg = c['box'] != 'degenerate' and a['error'] is None and c['objective'] not in ('constant', 'zero')
        if nondeg:
            c2 = dict(c, seed=c['seed'] + 1)
            d = c05_child.digest_run(c2, []) if mode == 'in-process' else child(c2, [], 1)
            if d['digest'] == a['digest'] and d.get('first_positions') == a.get('first_positions'):
                C.issue('seed-not-used', 'oracle', rp, mode=mode)
        if a['error'] is None and not a['stream_consumed']:
            C.issue('stream-not-consumed', 'oracle', rp)
        C.case(key=(c['kind'], c['space'], c['seed']), nontrivial=nondeg, kind=mode,
               sample=dict(kind=c['kind'], space=c['space'], seed=c['seed'], digest=a['digest'][:16], mode=mode) if n < 2 else None)
    return C.result()


def search(ctx, corr, broken):
    res = check(dict(ctx, tier='thorough'))
    for i in res['issues']:
        if i['layer'] == 'oracle':
            return i
    return None


def replay(prop, payload):
    if payload.get('how') == 'dict-untouched':
        import copy as _copy
        L_ = lib.load()
        np = L_['np']
        d_ = _copy.deepcopy(payload['hyper'])
        np.random.seed(5)
        o_ = L_['kinds'][payload['kind']](hyperparams=d_)
        sp_ = L_['SearchSpace'](n_agents=6, n_variables=2, n_iterations=4, lower_bound=[-3, -3], upper_bound=[3, 3])
        L_['Opytimizer'](space=sp_, optimizer=o_, function=L_['Function'](pointer=lambda x: float(np.sum(np.abs(x)) + 0.5))).start()
        return d_ != payload['hyper']
    a = child(payload['cfg'], [], 1)
    b = child(payload['cfg'], payload.get('workload') or [], 2)
    if a['digest'] != b['digest'] or a['error'] != b['error'] or bool(a['touched']) or bool(b['touched']):
        return True
    c2 = dict(payload['cfg'], seed=payload['cfg']['seed'] + 1)
    d = child(c2, [], 1)
    nondeg = payload['cfg']['box'] != 'degenerate' and a['error'] is None and payload['cfg']['objective'] not in ('constant', 'zero')
    return (nondeg and d['digest'] == a['digest'] and d.get('first_positions') == a.get('first_positions')) \
        or (a['error'] is None and not a['stream_consumed'])
