"""C10 — a tree's position is the bottom-up, element-wise value of its expression."""
import common, lib, treeutil as T
from comp import Comp
from common import enc_bits, dec_bits, ulp_diff

EXACT = {'SUM', 'SUB', 'MUL', 'DIV', 'ABS', 'SQRT'}


def pool(np, eps, shape, rng):
    vals = [0.0, -0.0, 1.0, -1.0, 0.5, -2.5, -eps, eps, 1e-300, -1e-300, 1e300, -1e300, 710.0, 37.25, 3.141592653589793,
            -0.1, 123456.789]
    a = np.empty(shape)
    for i in range(a.size):
        a.flat[i] = rng.choice(vals) if rng.random() < 0.7 else rng.uniform(-10, 10)
    return a


def apply_edit(root, nodes, edit):
    """one edit below the root of an already evaluated tree (deterministic given `edit`)"""
    L = lib.load()
    np = L['np']
    _ = root.position
    t = nodes[edit['t']]
    how = edit['how']
    if how == 'new-value':
        t.value = np.array(t.value, copy=True) * 0.5 + 1.25
    elif how == 'in-place':
        t.value = np.array(t.value, copy=True)      # private array ...
        _ = root.position
        arr = t.value                               # ... then written through the array itself (no setter runs)
        arr += 0.75
    elif how == 'no-parent-links':
        # the constructor and the left/right setters never set `child.parent`: a tree assembled without
        # parent links is legal, and its value is still the value of the expression it denotes now
        for n in nodes:
            n.parent = None
        _ = root.position
        t.value = np.array(t.value, copy=True) - 1.5
    elif how == 'convert-terminal':
        # a terminal turned into a function node through the public setters (type, name, children): from then on it denotes
        # the operator applied to its new children, whatever array it held as a terminal
        t.type = 'FUNCTION'
        t.name = ['SUM', 'MUL', 'SUB'][edit.get('shift', 0) % 3]
        k1 = L['Node'](name=0, type='TERMINAL', value=np.array(nodes[edit['t']].value if nodes[edit['t']].value is not None else [[0.5]], copy=True) * 0.25 + 0.5)
        base_ = [n for n in nodes if n.type == 'TERMINAL' and n is not t]
        k2 = L['Node'](name=1, type='TERMINAL', value=(np.array(base_[0].value, copy=True) if base_ else k1.value * 1.0) - 1.75)
        t.left = k1
        k1.parent = t
        t.right = k2
        k2.flag = False
        k2.parent = t
    elif how == 'rename-op':
        # `name` is a public, settable attribute: a function node re-labelled with another operator of the same
        # arity denotes the new expression from then on
        f_ = nodes[edit['f']]
        pool_ = T.UN if f_.right is None else T.BIN
        f_.name = pool_[(pool_.index(f_.name) + 1 + edit.get('shift', 0)) % len(pool_)]
    elif edit['d'] is not None:
        d_ = nodes[edit['d']]
        terms = [n for n in nodes if n.type == 'TERMINAL']
        newt = L['Node'](name=0, type='TERMINAL', value=np.array(terms[0].value, copy=True) - 2.0)
        par = d_.parent
        if d_.flag:
            par.left = newt
        else:
            par.right = newt
            newt.flag = False
        newt.parent = par


class configured_eps:
    """`opytimizer.utils.constants.EPSILON` assigned `value` for the duration of the block (None: left alone) and put
    back afterwards: the protection constant is a public module attribute, the library reads it where it is used"""

    def __init__(self, value):
        self.value = value

    def __enter__(self):
        c = lib.load()['c']
        self.shipped = c.EPSILON
        if self.value is not None:
            c.EPSILON = float(self.value)

    def __exit__(self, *a):
        lib.load()['c'].EPSILON = self.shipped
        return False


def check_tree(C, drv, root, shape, tag, edit=None, eps_cfg=None):
    """`eps_cfg`: the value the library's protection constant has been re-configured to by the caller (None: shipped).
    The oracle always uses the constant the library is configured with *now*; the Lean model is about the shipped constant,
    so re-configured cases are judged by the oracle only."""
    L = lib.load()
    np = L['np']
    nodes, _ = T.walk(root)
    before = T.canon(root)
    snaps = [np.array(n.value, copy=True) if n.value is not None else None for n in nodes]
    try:
        val = root.position
    except Exception as ex:
        rp0 = dict(how='eval', tree=T.enc_tree(root), arrays=[None if s_ is None else enc_bits(s_.reshape(-1)) for s_ in snaps], shape=list(shape))
        if eps_cfg is not None:
            rp0['eps'] = float(eps_cfg)
        if edit is not None:
            rp0 = dict(edit['pre'], edit=dict(how=edit['how'], t=edit['t'], d=edit['d'], f=edit.get('f'), shift=edit.get('shift', 0)))
        C.issue('evaluation-raised', 'oracle', rp0, error=type(ex).__name__ + ': ' + str(ex)[:80])
        C.case(key=(before, 'raised'), nontrivial=True, kind=tag)
        return
    after = T.canon(root)
    rp = dict(how='eval', tree=T.enc_tree(root), arrays=[None if s is None else enc_bits(s.reshape(-1)) for s in snaps],
              shape=list(shape))
    if eps_cfg is not None:
        rp['eps'] = float(eps_cfg)
    if edit is not None:
        # replay = the tree before the edit, one evaluation, the edit, the evaluation under test
        rp = dict(edit['pre'], edit=dict(how=edit['how'], t=edit['t'], d=edit['d'], f=edit.get('f'), shift=edit.get('shift', 0)))
    if before != after or any(s is not None and not np.array_equal(s, n.value, equal_nan=True) for s, n in zip(snaps, nodes)):
        C.issue('evaluation-modified-tree', 'oracle', rp)
    if not isinstance(val, np.ndarray) or tuple(val.shape) != tuple(shape):
        C.issue('result-shape', 'oracle', rp, got=getattr(val, 'shape', None))
    lines, exp, ops = [], [], []
    special = False
    for n in nodes:
        me = np.asarray(n.position, dtype=float).reshape(-1)
        if n.type == 'TERMINAL':
            if not np.array_equal(me, np.asarray(n.value).reshape(-1), equal_nan=True):
                C.issue('terminal-value', 'oracle', rp)
            continue
        x = np.asarray(n.left.position, dtype=float).reshape(-1)
        y = np.asarray(n.right.position, dtype=float).reshape(-1) if n.right is not None else x
        lines.append(f't.op {T.OPS.index(n.name)} {enc_bits(x)} {enc_bits(y)}')
        exp.append(me)
        ops.append(n.name)
        # independent NumPy reference on the children's reported values
        eps = L['c'].EPSILON
        ref = {'SUM': lambda: x + y, 'SUB': lambda: x - y, 'MUL': lambda: x * y, 'DIV': lambda: x / (y + eps),
               'EXP': lambda: np.exp(x), 'SQRT': lambda: np.sqrt(np.abs(x)), 'LOG': lambda: np.log(np.abs(x) + eps),
               'ABS': lambda: np.abs(x), 'SIN': lambda: np.sin(x), 'COS': lambda: np.cos(x)}[n.name]()
        if not np.array_equal(ref, me, equal_nan=True):
            C.issue('operator-value', 'oracle', rp, op=n.name, got=me.tolist(), reference=ref.tolist())
        if np.any(~np.isfinite(me)) or np.any(y + eps == 0):
            special = True
    if lines and eps_cfg is None:
        # the whole function as the translator read it (guard, operand sources, terminal test, chain), on the same operands
        wouts = drv.ask_many(['w.op' + ln[4:] for ln in lines])
        for o, e, op in zip(wouts, exp, ops):
            m = dec_bits(o) if o not in ('error', 'bad-op') else None
            if m is None or len(m) != len(e) or max(ulp_diff(a, b) for a, b in zip(m, e)) > (0 if op in EXACT else 4):
                C.issue('translated-evaluate-mismatch', 'correspondence', rp, op=op, model=o[:100], real=e.tolist())
        C.extra['translated_evaluate_runs'] = C.extra.get('translated_evaluate_runs', 0) + len(lines)
        outs = drv.ask_many(lines)
        for o, e, op in zip(outs, exp, ops):
            m = dec_bits(o) if o not in ('error', 'bad-op') else None
            if m is None or len(m) != len(e):
                C.issue('operator-mismatch', 'correspondence', rp, op=op, model=o[:100])
                continue
            tol = 0 if op in EXACT else 4
            worst = max(ulp_diff(a, b) for a, b in zip(m, e))
            if worst > tol:
                C.issue('operator-mismatch', 'correspondence', rp, op=op, ulps=worst, model=m, real=e.tolist())
    # evaluation is a function of the *current* tree: edit it below the root (new terminal value, terminal array
    # changed in place, subtree re-hung, parent links absent) and evaluate again — every node is compared again
    if tag != 'edited' and len(nodes) >= 3 and C.rng.random() < 0.5:
        terms = [i for i, n in enumerate(nodes) if n.type == 'TERMINAL']
        deep = [i for i, n in enumerate(nodes) if n.parent is not None and n.parent.parent is not None]
        how = C.rng.choice(['new-value', 'in-place', 'rehang', 'no-parent-links', 'in-place', 'rename-op', 'convert-terminal'])
        funcs = [i for i, n in enumerate(nodes) if n.type == 'FUNCTION']
        edit = dict(how=how, t=C.rng.choice(terms), d=C.rng.choice(deep) if deep else None, pre=rp,
                    f=C.rng.choice(funcs), shift=C.rng.randrange(3))
        apply_edit(root, nodes, edit)
        check_tree(C, drv, root, shape, 'edited', edit, eps_cfg=eps_cfg)
    C.case(key=(before, rp['arrays'][0] if rp['arrays'] else None), nontrivial=len(nodes) > 1, kind=tag,
           sample=dict(tree=before, value=np.asarray(val).tolist()) if special or len(C.samples) == 0 else None)


def check(ctx):
    L = lib.load()
    np = L['np']
    eps = L['c'].EPSILON
    C = Comp(ctx, 'one case = one labelled tree with concrete terminal arrays; every function node is compared per node (operator applied in the Lean Float model to the children\'s reported values; bit-exact for + - * / abs sqrt, <= 4 ulp for exp log sin cos) and against an independent NumPy reference; non-trivial = at least one function node; exhaustive over all shapes and operator labellings to depth 2',
             ['IEEE rounding of libm functions modelled with a 4-ulp allowance per node'])
    drv = common.Driver()
    try:
        shapes = T.shapes_upto(2)
        n_lab = 0
        for s in shapes:
            for ops in T.labellings(s):
                n_lab += 1
                shape = C.rng.choice([(1, 1), (2, 1), (1, 3), (3, 2)])
                terms = [pool(np, eps, shape, C.rng) for _ in range(3)]
                check_tree(C, drv, T.build(s, ops=ops, terminals=terms), shape, f'depth-{T.shape_depth(s)}')
        C.exhaustive = True
        C.extra['exhaustive_over'] = f'all {len(shapes)} shapes up to depth 2 x all {n_lab} operator labellings (terminal arrays sampled)'
        reps = 150 if ctx['tier'] == 'quick' else 2500
        d3 = T.shapes_upto(3)
        for k in range(reps):
            s = C.rng.choice(d3)
            ops = [C.rng.choice(T.UN if True else T.BIN) for _ in range(T.shape_size(s))]
            # labels must respect arity: draw per node while building
            ops = []
            def lab(sh):
                if sh == 'L':
                    return
                ops.append(C.rng.choice(T.UN if sh[0] == 'U' else T.BIN))
                for c in sh[1:]:
                    lab(c)
            lab(s)
            shape = C.rng.choice([(1, 1), (2, 2), (4, 1), (2, 5)])
            terms = [pool(np, eps, shape, C.rng) for _ in range(4)]
            check_tree(C, drv, T.build(s, ops=ops, terminals=terms), shape, 'sampled-depth-3')
        # the protection constant is the one the library is configured with *now*: utils.constants.EPSILON is assigned
        # another value at run time (long after every module has been imported), trees over every operator are built
        # and evaluated, and each node must be the operator with that constant applied to its children's values
        # (terminal pools contain +-eps of the configured value, so y + eps == 0 and log(0 + eps) are reached);
        # afterwards the shipped value is put back and must be honoured again (with the model comparison)
        d1 = [(s, ops) for s in T.shapes_upto(1) for ops in T.labellings(s) if ops]
        d2 = [s for s in shapes if T.shape_depth(s) == 2]
        for new_eps in (1e-6, 0.5):
            with configured_eps(new_eps):
                todo = list(d1)
                for k in range(12):
                    s = C.rng.choice(d2)
                    todo.append((s, C.rng.choice(list(T.labellings(s)))))
                for s, ops in todo:
                    shape = C.rng.choice([(1, 1), (2, 3)])
                    terms = [pool(np, new_eps, shape, C.rng) for _ in range(3)]
                    check_tree(C, drv, T.build(s, ops=ops, terminals=terms), shape, 'reconfigured-eps', eps_cfg=new_eps)
            assert L['c'].EPSILON == eps
            for s, ops in d1:
                terms = [pool(np, eps, (2, 1), C.rng) for _ in range(3)]
                check_tree(C, drv, T.build(s, ops=ops, terminals=terms), (2, 1), 'eps-restored')
    finally:
        drv.close()
    return C.result()


def search(ctx, corr, broken):
    res = check(dict(ctx, tier='thorough'))
    for i in res['issues']:
        if i['layer'] == 'oracle':
            return i
    return None


def replay(prop, payload):
    from props.c11 import decode
    L = lib.load()
    np = L['np']
    root = decode(payload['tree'])
    nodes, _ = T.walk(root)
    for n, a in zip(nodes, payload['arrays']):
        if a is not None:
            n.value = np.array(dec_bits(a)).reshape(payload['shape'])
    C = Comp(dict(seed=0, tier='quick'), '')
    drv = common.Driver()
    try:
        # the tree is decoded (and, for an edit, evaluated once) under the constant the failing case ran under
        with configured_eps(payload.get('eps')):
            if payload.get('edit'):
                ed = dict(payload['edit'], pre=payload)
                apply_edit(root, nodes, ed)
                check_tree(C, drv, root, tuple(payload['shape']), 'edited', ed, eps_cfg=payload.get('eps'))
            else:
                check_tree(C, drv, root, tuple(payload['shape']), 'edited', eps_cfg=payload.get('eps'))
    finally:
        drv.close()
    return any(i['layer'] == 'oracle' for i in C.issues)
