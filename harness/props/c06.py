"""C06 — spaces start feasible; limit enforcement is an exact projection onto the box."""
import math
import common, lib
from comp import Comp
from common import enc_keys, enc_pos


def gen_bounds(rng, nv):
    mode = rng.choice(['unit', 'wide', 'narrow', 'degenerate', 'mixed', 'int', 'huge', 'offset', 'intlb', 'intub', 'frozen', 'frozen', 'tinyscale', 'farscale', 'nearequal'])
    lb, ub = [], []
    for j in range(nv):
        if mode == 'unit':
            l, u = 0.0, 1.0
        elif mode == 'wide':
            l, u = -10.0, 10.0
        elif mode == 'narrow':
            l = round(rng.uniform(-3, 3), 3); u = l + 1e-3
        elif mode == 'degenerate':
            l = round(rng.uniform(-3, 3), 2); u = l if j == 0 else l + 1
        elif mode == 'mixed':
            l, u = (-1e-7, 1e-7) if j % 2 == 0 else (-1e5, 1e5)
        elif mode == 'int':
            l, u = -(j + 1), j + 2
        elif mode == 'huge':
            l, u = -1e12, 1e12
        elif mode == 'tinyscale':
            l, u = (1 + 4 * j) * 1e-9, (2 + 4 * j) * 1e-9
        elif mode == 'farscale':
            l, u = 1e8 + 2 * j, 1e8 + 2 * j + 1
        elif mode == 'nearequal':
            l, u = 1e5 + 0.5 * j, 1e5 + 0.5 * j + 0.5
        elif mode == 'frozen':
            # every variable frozen (lb == ub) at a value that is not a short binary fraction: the draw must return
            # exactly that value
            l = u = rng.choice([1 / 3, 123.456, 4.35, 0.9, 1.7, 5.12, 1000.1, 0.01, -2.3, -0.7, 1e-5 / 3])
        elif mode == 'intlb':
            # integer lower bounds (an int list / int array), fractional upper bounds
            l = rng.randint(-4, 4); u = l + rng.choice([0.5, 2.5, 0.75])
        elif mode == 'intub':
            u = rng.randint(-4, 4); l = u - rng.choice([0.5, 2.5, 0.75])
        else:
            l = round(rng.uniform(-5, 5), 2); u = l + rng.choice([0.25, 1.0, 7.0])
        lb.append(l); ub.append(u)
    return mode, lb, ub


def gen_pos(rng, np, lb, ub, nd):
    nv = len(lb)
    a = np.empty((nv, nd))
    kinds = set()
    for j in range(nv):
        for k in range(nd):
            l, u = float(lb[j]), float(ub[j])
            m = rng.choice(['in', 'lb', 'ub', 'lb-', 'lb+', 'ub-', 'ub+', 'far-', 'far+', '-inf', '+inf'])
            kinds.add(m)
            a[j, k] = {'in': rng.uniform(l, u), 'lb': l, 'ub': u, 'lb-': math.nextafter(l, -math.inf),
                       'lb+': math.nextafter(l, math.inf), 'ub-': math.nextafter(u, -math.inf),
                       'ub+': math.nextafter(u, math.inf), 'far-': l - 1e9 * (1 + abs(l)), 'far+': u + 1e9 * (1 + abs(u)),
                       '-inf': -math.inf, '+inf': math.inf}[m]
    return a, kinds


def projection_ok(np, before, after, lb, ub):
    """every out-of-range coordinate on the nearest bound, in-range coordinates bit-identical"""
    for j in range(before.shape[0]):
        for k in range(before.shape[1]):
            x, y, l, u = before[j, k], after[j, k], float(lb[j]), float(ub[j])
            exp = l if x < l else (u if x > u else x)
            if common.fbits(y) != common.fbits(exp) and not (y == exp == 0):
                return False, (j, k, x, y, exp)
    return True, None


def setup_agent(L, a, setup, lb, ub):
    """the ways an agent comes to carry the bounds it is clipped to"""
    import copy, pickle
    np = L['np']
    if setup == 'assign':
        a.lb, a.ub = np.asarray(lb, dtype=float), np.asarray(ub, dtype=float)
    elif setup == 'asis':
        a.lb, a.ub = np.asarray(lb), np.asarray(ub)          # integer arrays stay integer arrays
    elif setup == 'list':
        a.lb, a.ub = list(lb), list(ub)
    elif setup == 'inplace':
        for j in range(len(lb)):                              # what _initialize_agents does
            a.lb[j] = lb[j]
            a.ub[j] = ub[j]
    elif setup == 'reassign':
        a.lb, a.ub = np.asarray(ub, dtype=float) + 1.0, np.asarray(ub, dtype=float) + 2.0
        a.lb, a.ub = np.asarray(lb, dtype=float), np.asarray(ub, dtype=float)
    else:
        # other bounds first, then a copy of the agent, then the final bounds written in place into the copy
        a.lb, a.ub = np.asarray(ub, dtype=float) + 1.0, np.asarray(ub, dtype=float) + 2.0
        a = copy.deepcopy(a) if setup == 'copy-inplace' else pickle.loads(pickle.dumps(a))
        for j in range(len(lb)):
            a.lb[j] = lb[j]
            a.ub[j] = ub[j]
    return a


def check(ctx):
    L = lib.load()
    np = L['np']
    e = L['e']
    C = Comp(ctx, 'one case = one (space kind, position, bounds) triple pushed through the real check_limits and the Lean clip model (bit-exact), with the projection oracle and idempotence on the real code, or one space construction checked for size/shape/feasibility/agent bounds, or one rejected construction; non-trivial = at least one coordinate strictly outside its range (incl. +-inf and +-1 ulp)',
             ['lb <= ub point-wise', 'no NaN coordinates'])
    drv = common.Driver()
    try:
        reps = 250 if ctx['tier'] == 'quick' else 4000
        lines, expect, meta, tlines = [], [], [], []
        for k in range(reps):
            nv, nd = C.rng.randint(1, 4), C.rng.randint(1, 3)
            mode, lb, ub = gen_bounds(C.rng, nv)
            kind = C.rng.choice(['agent', 'search', 'hyper'])
            if kind == 'hyper':
                pos, kinds = gen_pos(C.rng, np, [0.0] * nv, [1.0] * nv, nd)
            else:
                pos, kinds = gen_pos(C.rng, np, lb, ub, nd)
            before = np.array(pos, copy=True)
            np.random.seed(1)
            setup = 'assign'
            if kind == 'agent':
                a = L['Agent'](n_variables=nv, n_dimensions=nd)
                setup = C.rng.choice(['assign', 'assign', 'inplace', 'copy-inplace', 'pickle-inplace', 'list', 'asis', 'reassign'])
                a = setup_agent(L, a, setup, lb, ub)
                a.position = pos
                a.check_limits()
                after = np.array(a.position, copy=True)
                a.check_limits()
                again = np.array(a.position, copy=True)
                blo, bhi = lb, ub
                lines.append(f'clip {enc_keys(lb)} {enc_keys(ub)} {enc_pos(before)}')
                tlines.append(f'cl.agent {enc_keys(lb)} {enc_keys(ub)} {enc_pos(before)}')
            elif kind == 'search':
                sp = L['SearchSpace'](n_agents=2, n_variables=nv, n_iterations=1, lower_bound=list(lb), upper_bound=list(ub))
                if k % 5 == 0:
                    # the population replaced through the public setter by fresh agents (which carry the default unit bounds):
                    # enforcing the *space's* limits projects onto the space's box
                    setup = 'replaced-agents'
                    fresh = [L['Agent'](n_variables=nv, n_dimensions=1) for _ in range(2)]
                    fresh[0].position = np.array(sp.agents[0].position, copy=True)
                    sp.agents = fresh
                # SearchSpace agents are (nv, 1); use a (nv, 1) slice of the generated position
                pos1 = np.array(before[:, :1], copy=True)
                before = np.array(pos1, copy=True)
                sp.agents[1].position = pos1
                other = np.array(sp.agents[0].position, copy=True)
                sp.check_limits()
                after = np.array(sp.agents[1].position, copy=True)
                sp.check_limits()
                again = np.array(sp.agents[1].position, copy=True)
                blo, bhi = lb, ub
                lines.append(f'clip {enc_keys(lb)} {enc_keys(ub)} {enc_pos(before)}')
                tlines.append(f'cl.search {enc_keys(lb)} {enc_keys(ub)} {enc_pos(before)}')
                if not np.array_equal(other, sp.agents[0].position):
                    C.issue('feasible-agent-moved', 'oracle', dict(how='clip', kind=kind, lb=list(lb), ub=list(ub), pos=before.tolist(), setup=setup), untouched_agent=other.tolist())
            else:
                sp = L['HyperSpace'](n_agents=1, n_variables=nv, n_dimensions=nd, n_iterations=1,
                                     lower_bound=list(lb), upper_bound=list(ub))
                sp.agents[0].position = pos
                sp.check_limits()
                after = np.array(sp.agents[0].position, copy=True)
                sp.check_limits()
                again = np.array(sp.agents[0].position, copy=True)
                blo, bhi = [0.0] * nv, [1.0] * nv
                lines.append(f'cliphyper {nv} {enc_pos(before)}')
                tlines.append(f'cl.hyper {enc_keys(lb)} {enc_keys(ub)} {enc_pos(before)}')
            expect.append(enc_pos(after))
            rp = dict(how='clip', kind=kind, lb=list(lb), ub=list(ub), pos=before.tolist(), setup=setup)
            meta.append(rp)
            ok, why = projection_ok(np, before, after, blo, bhi)
            if not ok:
                C.issue('not-a-projection', 'oracle', rp, detail=why)
            if not np.array_equal(after, again):
                C.issue('not-idempotent', 'oracle', rp)
            outside = bool(kinds & {'lb-', 'ub+', 'far-', 'far+', '-inf', '+inf'})
            C.case(key=(kind, enc_pos(before), enc_keys(blo), enc_keys(bhi)), nontrivial=outside, kind=f'clip-{kind}-{mode}',
                   sample=dict(rp, after=after.tolist()) if outside else None)
        outs = drv.ask_many(lines)
        for o, x, rp in zip(outs, expect, meta):
            if o != x:
                C.issue('clip-mismatch', 'correspondence', rp, model=o[:200], real=x[:200])
        # the loops as the translator read them from the current source, run by the Lean semantics of ClipLoop:
        # validates the translator's reading against the running code
        outs = drv.ask_many(tlines)
        for o, x, rp in zip(outs, expect, meta):
            if o != x:
                C.issue('translated-clip-loop-mismatch', 'correspondence', rp, model=o[:200], real=x[:200])
        C.extra['translated_clip_loops_run'] = len(tlines)
        # ---- construction
        reps = 60 if ctx['tier'] == 'quick' else 600
        for k in range(reps):
            nv, nd, na = C.rng.randint(1, 4), C.rng.randint(1, 4), C.rng.randint(1, 6)
            mode, lb, ub = gen_bounds(C.rng, nv)
            if mode == 'frozen':
                na = 8
            kind = C.rng.choice(['search', 'hyper', 'tree'])
            np.random.seed(C.rng.randrange(1 << 30))
            rp = dict(how='build', kind=kind, n_agents=na, n_vars=nv, n_dims=nd, lb=list(lb), ub=list(ub))
            if kind == 'search':
                sp = L['SearchSpace'](n_agents=na, n_variables=nv, n_iterations=3, lower_bound=list(lb), upper_bound=list(ub))
                shape, blo, bhi, alo, ahi = (nv, 1), lb, ub, lb, ub
            elif kind == 'hyper':
                sp = L['HyperSpace'](n_agents=na, n_variables=nv, n_dimensions=nd, n_iterations=3, lower_bound=list(lb), upper_bound=list(ub))
                shape, blo, bhi, alo, ahi = (nv, nd), [0.0] * nv, [1.0] * nv, [0.0] * nv, [1.0] * nv
            else:
                mind = C.rng.choice([1, 1, 2, 3])
                maxd = mind + C.rng.choice([0, 0, 1, 2])       # (equal depths: every tree is a single terminal)
                sp = L['TreeSpace'](n_trees=na, n_terminals=C.rng.randint(1, 3), n_variables=nv, n_iterations=3, min_depth=mind, max_depth=maxd,
                                    functions=['SUM'], lower_bound=list(lb), upper_bound=list(ub))
                shape, blo, bhi, alo, ahi = (nv, 1), lb, ub, lb, ub
                rp = dict(rp, min_depth=mind, max_depth=maxd)
                # the terminals are agents too: sampled inside the box and carrying its bounds, and so are the values the
                # initial trees hold
                for tm in sp.terminals:
                    q = tm.position
                    if tuple(q.shape) != shape or np.any(q < np.asarray(blo, dtype=float)[:, None]) or np.any(q > np.asarray(bhi, dtype=float)[:, None]):
                        C.issue('initial-position-infeasible', 'oracle', rp, pos=q.tolist(), what_='terminal')
                    if not (np.array_equal(tm.lb, np.asarray(alo, dtype=float)) and np.array_equal(tm.ub, np.asarray(ahi, dtype=float))):
                        C.issue('agent-bounds', 'oracle', rp, lb=tm.lb.tolist(), ub=tm.ub.tolist(), what_='terminal')
                if mind == maxd:
                    for tr in sp.trees:
                        q = np.asarray(tr.position, dtype=float)
                        if np.any(q < np.asarray(blo, dtype=float)[:, None]) or np.any(q > np.asarray(bhi, dtype=float)[:, None]):
                            C.issue('initial-position-infeasible', 'oracle', rp, pos=q.tolist(), what_='single-terminal tree')
            if len(sp.agents) != na:
                C.issue('wrong-population-size', 'oracle', rp, n=len(sp.agents))
            for a in sp.agents:
                p = a.position
                if tuple(p.shape) != shape:
                    C.issue('wrong-shape', 'oracle', rp, shape=p.shape)
                elif np.any(p < np.asarray(blo, dtype=float)[:, None]) or np.any(p > np.asarray(bhi, dtype=float)[:, None]) or not np.all(np.isfinite(p)):
                    C.issue('initial-position-infeasible', 'oracle', rp, pos=p.tolist())
                if not (np.array_equal(a.lb, np.asarray(alo, dtype=float)) and np.array_equal(a.ub, np.asarray(ahi, dtype=float))):
                    C.issue('agent-bounds', 'oracle', rp, lb=a.lb.tolist(), ub=a.ub.tolist())
                # the agent's own limits leave a fresh agent alone
                q = np.array(p, copy=True)
                a.check_limits()
                if not np.array_equal(q, a.position):
                    C.issue('fresh-agent-moved-by-own-limits', 'oracle', rp)
            C.case(key=('build', kind, na, nv, nd, tuple(lb), tuple(ub)), nontrivial=na > 1 and nv > 1, kind=f'build-{kind}')
        # ---- bounds handed over as NumPy arrays of a narrow type whose width `ub - lb` is not representable in that type:
        #      the initial population still lies in the declared box
        for dt, lo_, hi_ in ((np.int8, -100, 100), (np.int16, -30000, 30000), (np.int32, -2000000000, 2000000000),
                             (np.float16, -60000.0, 60000.0), (np.int64, -2 ** 62 - 5, 2 ** 62 + 5), (np.uint8, 3, 250)):
            for nv in (1, 3):
                lba, uba = np.array([lo_] * nv, dtype=dt), np.array([hi_] * nv, dtype=dt)
                rp = dict(how='build', kind='search', n_agents=6, n_vars=nv, n_dims=1, lb=[float(lo_)] * nv, ub=[float(hi_)] * nv, dtype=np.dtype(dt).name)
                np.random.seed(C.rng.randrange(1 << 30))
                try:
                    sp = L['SearchSpace'](n_agents=6, n_variables=nv, n_iterations=2, lower_bound=lba, upper_bound=uba)
                except Exception as ex:
                    C.issue('build-raised', 'oracle', rp, error=type(ex).__name__ + ': ' + str(ex)[:80])
                    continue
                for a in sp.agents:
                    p = np.asarray(a.position, dtype=float)
                    if np.any(p < float(lo_)) or np.any(p > float(hi_)) or not np.all(np.isfinite(p)):
                        C.issue('initial-position-infeasible', 'oracle', rp, pos=p.tolist())
                        break
                C.case(key=('build-dtype', np.dtype(dt).name, nv), nontrivial=True, kind='build-narrow-dtype')
        # ---- validation: typed errors
        bad = [dict(n_agents=np.float64(2.5)), dict(n_agents=np.float32(2.0)), dict(n_variables=np.float64(2.0)),
               dict(n_iterations=np.float64(2.5)), dict(n_iterations=np.float64(3.0)),
               dict(n_agents=0), dict(n_agents=-2), dict(n_agents=1.5), dict(n_agents='3'), dict(n_variables=0),
               dict(n_variables=2.0), dict(n_iterations=0), dict(n_iterations=-1), dict(n_iterations=None),
               dict(n_variables=2, lower_bound=[0], upper_bound=[1, 1]), dict(n_variables=2, lower_bound=[0, 0], upper_bound=[1]),
               dict(n_variables=1, lower_bound=[0, 0], upper_bound=[1, 1]), dict(n_variables=3, lower_bound=[0, 0, 0], upper_bound=[1, 1, 1, 1]),
               # nested lists whose *number of elements* equals n_variables while their length does not
               dict(n_variables=2, lower_bound=[[0, 0]], upper_bound=[[1, 1]]), dict(n_variables=4, lower_bound=[[0, 0], [0, 0]], upper_bound=[[1, 1], [1, 1]]),
               dict(n_variables=2, lower_bound=[[0, 0]], upper_bound=[1, 1]), dict(n_variables=3, lower_bound=[0, 0, 0], upper_bound=[[1, 1, 1]])]
        for kw in bad:
            for kind in ('search', 'hyper', 'tree'):
                args = dict(n_variables=1, n_iterations=2, lower_bound=[0], upper_bound=[1])
                args.update(kw)
                if kind == 'tree':
                    if 'n_agents' in args:
                        args['n_trees'] = args.pop('n_agents')
                    ctor = L['TreeSpace']
                elif kind == 'hyper':
                    ctor = L['HyperSpace']
                    if 'n_dimensions' not in args and C.rng.random() < 0.3:
                        pass
                else:
                    ctor = L['SearchSpace']
                rp = dict(how='reject', kind=kind, args={k: repr(v) for k, v in args.items()})
                try:
                    ctor(**args)
                    C.issue('invalid-space-accepted', 'oracle', rp)
                except (e.TypeError, e.ValueError, e.SizeError) as ex:
                    v0 = list(kw.values())[0]
                    want = e.SizeError if 'lower_bound' in kw else (e.ValueError if (isinstance(v0, int) and not isinstance(v0, bool)) else e.TypeError)
                    if not isinstance(ex, want):
                        C.issue('wrong-error-class', 'oracle', rp, got=type(ex).__name__, expected=want.__name__)
                except Exception as ex:
                    C.issue('untyped-error', 'oracle', rp, got=type(ex).__name__)
                C.case(key=('reject', kind, repr(sorted(kw.items(), key=str))), nontrivial=True, kind='reject')
        for kw in (dict(n_dimensions=0), dict(n_dimensions=-1), dict(n_dimensions=1.5)):
            rp = dict(how='reject', kind='hyper', args={k: repr(v) for k, v in kw.items()})
            try:
                L['HyperSpace'](n_agents=1, n_variables=1, n_iterations=1, lower_bound=[0], upper_bound=[1], **kw)
                C.issue('invalid-space-accepted', 'oracle', rp)
            except (e.TypeError, e.ValueError):
                pass
            except Exception as ex:
                C.issue('untyped-error', 'oracle', rp, got=type(ex).__name__)
            C.case(key=('reject', 'hyper', repr(kw)), nontrivial=True, kind='reject')
    finally:
        drv.close()
    return C.result()


def search(ctx, corr, broken):
    res = check(dict(ctx, tier='thorough'))
    for i in res['issues']:
        if i['layer'] == 'oracle':
            return i
    return None


def replay(prop, payload):
    L = lib.load()
    np = L['np']
    if payload['how'] == 'clip':
        lb, ub = payload['lb'], payload['ub']
        pos = np.array(payload['pos'], dtype=float)
        before = np.array(pos, copy=True)
        nv = len(lb)
        if payload['kind'] == 'agent':
            a = L['Agent'](n_variables=nv, n_dimensions=pos.shape[1])
            a = setup_agent(L, a, payload.get('setup', 'assign'), lb, ub)
            a.position = pos
            a.check_limits()
            after = a.position
            blo, bhi = lb, ub
        elif payload['kind'] == 'search':
            np.random.seed(1)
            sp = L['SearchSpace'](n_agents=2, n_variables=nv, n_iterations=1, lower_bound=list(lb), upper_bound=list(ub))
            if payload.get('setup') == 'replaced-agents':
                fresh = [L['Agent'](n_variables=nv, n_dimensions=1) for _ in range(2)]
                fresh[0].position = np.array(sp.agents[0].position, copy=True)
                sp.agents = fresh
            sp.agents[1].position = pos
            other = np.array(sp.agents[0].position, copy=True)
            sp.check_limits()
            if not np.array_equal(other, sp.agents[0].position):
                return True          # a freshly built, untouched agent was moved by the space's limits
            after = sp.agents[1].position
            blo, bhi = lb, ub
        else:
            sp = L['HyperSpace'](n_agents=1, n_variables=nv, n_dimensions=pos.shape[1], n_iterations=1, lower_bound=list(lb), upper_bound=list(ub))
            sp.agents[0].position = pos
            sp.check_limits()
            after = sp.agents[0].position
            blo, bhi = [0.0] * nv, [1.0] * nv
        return not projection_ok(np, before, after, blo, bhi)[0]
    res = check(dict(seed=0, tier='quick', prop=prop))
    return any(i['layer'] == 'oracle' for i in res['issues'])
