"""C17 — benchmark functions compute their documented formulas and respect their minima."""
import ast, math, re
import common, lib
from comp import Comp
from common import enc_bits, bits2f

# independent scalar transcription of the docstring formulas (pure Python `math`)
def _sum(f, x): return math.fsum(f(v) for v in x) if False else sum(f(v) for v in x)


REF = {
    'ackley1': lambda x: 20 - 20 * math.exp(-0.2 * math.sqrt(1 / len(x) * sum(v * v for v in x))) + math.e - math.exp(1 / len(x) * sum(math.cos(2 * math.pi * v) for v in x)),
    'alpine1': lambda x: sum(math.fabs(v * math.sin(v) + 0.1 * v) for v in x),
    'alpine2': lambda x: -math.prod(math.sqrt(v) * math.sin(v) for v in x),
    'brown': lambda x: sum((x[i] ** 2) ** (x[i + 1] ** 2 + 1) + (x[i + 1] ** 2) ** (x[i] ** 2 + 1) for i in range(len(x) - 1)),
    'chung_reynolds': lambda x: sum(v * v for v in x) ** 2,
    'cosine_mixture': lambda x: 0.1 * sum(math.cos(5 * math.pi * v) for v in x) - sum(v * v for v in x),
    'csendes': lambda x: sum(v ** 6 * (2 + math.sin(1 / v)) for v in x),
    'deb1': lambda x: (-1 / len(x)) * sum(math.sin(5 * math.pi * v) ** 6 for v in x),
    'deb2': lambda x: (-1 / len(x)) * sum(math.sin(5 * math.pi * (v ** (3 / 4) - 0.05)) ** 6 for v in x),
    'exponential': lambda x: -math.exp(-0.5 * sum(v * v for v in x)),
    'quintic': lambda x: sum(abs(v ** 5 - 3 * v ** 4 + 4 * v ** 3 + 2 * v ** 2 - 10 * v - 4) for v in x),
    'rastringin': lambda x: 10 * len(x) + sum(v * v - 10 * math.cos(2 * math.pi * v) for v in x),
    'salomon': lambda x: 1 - math.cos(2 * math.pi * math.sqrt(sum(v * v for v in x))) + 0.1 * math.sqrt(sum(v * v for v in x)),
    'schumer_steiglitz': lambda x: sum(v ** 4 for v in x),
    'schwefel': lambda x: 418.9829 * len(x) - sum(v * math.sin(math.sqrt(math.fabs(v))) for v in x),
    'sphere': lambda x: sum(v * v for v in x),
    'styblinski_tang': lambda x: 1 / 2 * sum(v ** 4 - 16 * v ** 2 + 5 * v for v in x),
}
# documented minimum where it is mathematically coherent: (lower bound as f(n), minimiser as f(n)) — see Proofs/C17.lean
COHERENT = {
    'sphere': (lambda n: 0.0, lambda n: [0.0] * n), 'chung_reynolds': (lambda n: 0.0, lambda n: [0.0] * n),
    'schumer_steiglitz': (lambda n: 0.0, lambda n: [0.0] * n), 'exponential': (lambda n: -1.0, lambda n: [0.0] * n),
    'rastringin': (lambda n: 0.0, lambda n: [0.0] * n), 'ackley1': (lambda n: 0.0, lambda n: [0.0] * n),
    'alpine1': (lambda n: 0.0, lambda n: [0.0] * n), 'quintic': (lambda n: 0.0, lambda n: [-1.0] * n),
    'salomon': (lambda n: 0.0, lambda n: [0.0] * n), 'brown': (lambda n: 0.0, lambda n: [0.0] * n),
    'deb1': (lambda n: -1.0, lambda n: [0.1] * n), 'csendes': (lambda n: 0.0, None),
}


def documented(fn_name):
    """(lo, hi) of the documented box, read from the docstring in the current source"""
    src = open(f'{common.REPO}/opytimizer/math/benchmark.py').read()
    t = ast.parse(src)
    for f in t.body:
        if isinstance(f, ast.FunctionDef) and f.name == fn_name:
            m = re.search(r'within \[([-\d.]+), ([-\d.]+)\]', ast.get_docstring(f) or '')
            if m:
                return float(m.group(1)), float(m.group(2))
    return None


def close(a, b, tol=1e-9):
    if a != a or b != b:
        return a != a and b != b
    if a == b:
        return True
    return abs(a - b) <= tol * (1 + abs(a) + abs(b))


# --- integer-valued points stored with a narrow integer dtype ------------------------------------------------------
# A point of the box with whole-number coordinates may reach a benchmark as an int32 / int16 / int8 array.  NumPy computes
# elementwise integer operations in the caller's dtype (x ** 2 of an int8 array wraps beyond 127 - the caller's arithmetic,
# not the benchmark's), reductions (np.sum, np.prod) in the platform integer, and float functions of an integer array in
# float16 / float32 / float64 for 8 / 16 / >= 32 bits.  A point is a case for a dtype only if every intermediate of the
# documented formula is exact under these rules:
#   INT_TERM[name](v): the largest integer-valued elementwise term of the formula at coordinate v (must fit the dtype);
#   ELEMENTWISE_FLOAT: formulas applying a float function / float factor to the coordinates themselves (>= 32 bits only).
INT_TERM = {
    'ackley1': lambda v: v * v, 'cosine_mixture': lambda v: v * v, 'rastringin': lambda v: v * v,
    'sphere': lambda v: v * v, 'chung_reynolds': lambda v: v * v, 'exponential': lambda v: v * v, 'salomon': lambda v: v * v,
    'schumer_steiglitz': lambda v: v ** 4, 'csendes': lambda v: v ** 6,
    'styblinski_tang': lambda v: v ** 4 + 16 * v * v + 5 * abs(v),
    'quintic': lambda v: abs(v) ** 5 + 3 * v ** 4 + 4 * abs(v) ** 3 + 2 * v * v + 10 * abs(v) + 4,
    'brown': lambda v: (v * v) ** (v * v + 1),
}
ELEMENTWISE_FLOAT = {'ackley1', 'alpine1', 'alpine2', 'cosine_mixture', 'csendes', 'deb1', 'deb2', 'quintic', 'rastringin', 'schwefel'}
NARROW = (('int32', 32), ('int16', 16), ('int8', 8))


def narrow_range(name, lo, hi, bits):
    """largest whole-number interval [a, b] of the documented box on which the formula's elementwise integer terms fit a
    signed integer of `bits` bits (None if the formula is not exact for that width at all)"""
    if name in ELEMENTWISE_FLOAT and bits < 32:
        return None
    top = 2 ** (bits - 1) - 1
    term = INT_TERM.get(name, abs)
    a, b = 0 if lo <= 0 <= hi else math.ceil(lo), 0 if lo <= 0 <= hi else math.ceil(lo)
    if not (lo <= a <= hi) or abs(term(a)) > top or abs(a) > top:
        return None
    while lo <= a - 1 and abs(term(a - 1)) <= top and abs(a - 1) <= top:
        a -= 1
    while b + 1 <= hi and abs(term(b + 1)) <= top and abs(b + 1) <= top:
        b += 1
    return a, b


def narrow_points(rng, name, lo, hi, bits):
    rg = narrow_range(name, lo, hi, bits)
    if rg is None:
        return []
    a, b = rg
    pts = []
    for n in (1, 2, 3, 4, 5, 6, 7, 13, 40):
        if name == 'brown' and n < 2:
            continue
        pts += [[b] * n, [a] * n, [a if i % 2 else b for i in range(n)], [rng.randint(a, b) for _ in range(n)]]
    return pts


def narrow_eval(np, fn, name, x, dtype, shape_):
    """-> (value on the narrow integer array or None if it raised, error, exact reference or nan)"""
    xi = np.array(x, dtype=dtype) if shape_ == 'flat' else np.array([[v] for v in x], dtype=dtype)
    try:
        ref = REF[name]([int(v) for v in x])
        ref = float('nan') if isinstance(ref, complex) else float(ref)
    except (ValueError, ZeroDivisionError, OverflowError, TypeError):
        ref = float('nan')
    try:
        return float(np.asarray(fn(xi)).reshape(-1)[0]), None, ref
    except Exception as ex:
        return None, repr(ex)[:100], ref


def check(ctx):
    L = lib.load()
    np = L['np']
    import opytimizer.math.benchmark as bm
    C = Comp(ctx, 'one case = one (benchmark, point) pair: the library function compared with the Lean Float instance of the formula proved about over the reals (1e-9 relative), with an independent scalar transcription of the docstring formula, and with the documented minimum (lower bound on the box, value at the minimiser) where it is coherent; points = minimisers, box corners, axis points, random points of the documented box, n = 1..7; non-trivial = n >= 2 or a minimiser/corner point',
             ['real-number theorems; formula agreement is a correspondence at sampled points', 'libm rounding within 1e-9 relative'])
    active = [n for n in dir(bm) if callable(getattr(bm, n)) and not n.startswith('_') and getattr(getattr(bm, n), '__module__', '') == bm.__name__]
    C.extra['active_functions'] = active
    missing = sorted(set(active) - set(REF))
    for m in missing:
        C.issue('benchmark-without-model', 'correspondence', dict(how='bench', name=m))
    drv = common.Driver()
    import random as _random
    rng_narrow = _random.Random(ctx['seed'] * 6007 + 17)      # own stream: the other scenarios draw what they drew before
    try:
        per = 25 if ctx['tier'] == 'quick' else 400
        for name in active:
            if name not in REF:
                continue
            box = documented(name) or (-1.0, 1.0)
            fn = getattr(bm, name)
            lo, hi = box
            pts = []
            for n in range(1, 8):
                if name == 'brown' and n < 2:
                    continue
                if name in COHERENT and COHERENT[name][1] is not None:
                    pts.append(('minimiser', COHERENT[name][1](n)))
                if name == 'quintic':
                    pts.append(('minimiser', [2.0] * n))
                pts.append(('corner', [lo] * n))
                pts.append(('corner', [hi] * n))
                pts.append(('corner', [lo if i % 2 else hi for i in range(n)]))
                pts.append(('axis', [hi if i == 0 else (0.0 if lo <= 0 <= hi else lo) for i in range(n)]))
            for k in range(per):
                n = C.rng.randint(2 if name == 'brown' else 1, 7)
                pts.append(('random', [C.rng.uniform(lo, hi) for _ in range(n)]))
            # long vectors (products, sums and powers over hundreds of coordinates stay what the formula says while the
            # formula is finite) and tiny non-zero coordinates next to ordinary ones (harmless underflow)
            for n in ((64, 343, 400) if ctx['tier'] == 'quick' else (64, 257, 343, 400, 600, 1000)):
                if name in COHERENT and COHERENT[name][1] is not None:
                    pts.append(('long-minimiser', COHERENT[name][1](n)))
                pts.append(('long', [C.rng.uniform(lo, hi) for _ in range(n)]))
                pts.append(('long', [C.rng.uniform(lo + 0.6 * (hi - lo), hi) for _ in range(n)]))
            for tiny in (3e-10, 1e-40, 1e-78, 1e-160, 5e-324):
                if not (lo <= tiny <= hi):
                    continue
                for other in (hi, 0.5 * (lo + hi), min(hi, max(lo, 1.0)), min(hi, max(lo, 2.0))):
                    pts.append(('tiny', [tiny, other]))
                    pts.append(('tiny', [other, tiny, other]))
                    if lo <= -tiny:
                        pts.append(('tiny', [-tiny, other, tiny]))
            # very long vectors (beyond any block size an implementation may process the coordinates in): judged against the
            # scalar transcription only (not sent to the driver)
            huge = []
            if name in ('brown', 'csendes', 'quintic', 'sphere', 'schwefel', 'rastringin', 'alpine1', 'chung_reynolds') or ctx['tier'] == 'thorough':
                import random as _rnd
                for n in (65537, 70001):
                    huge.append((None, [1.0] * n))
                    rs_ = C.rng.randrange(1 << 30)
                    r_ = _rnd.Random(rs_)
                    huge.append((rs_, [r_.uniform(lo, hi) for _ in range(n)]))
            for rs_, x in huge:
                rp_h = dict(how='bench-huge', name=name, n=len(x), draw_seed=rs_, lo=lo, hi=hi)
                try:
                    y = float(fn(np.array(x, dtype=float)))
                except Exception as ex:
                    C.issue('benchmark-raised', 'oracle', rp_h, error=repr(ex)[:100])
                    continue
                try:
                    ref = REF[name](x)
                    ref = float('nan') if isinstance(ref, complex) else float(ref)
                except (ValueError, ZeroDivisionError, OverflowError, TypeError):
                    ref = float('nan')          # the scalar transcription is undefined there (e.g. a fractional power of a negative number)
                if ref == ref and abs(ref) != float('inf') and not close(ref, y):
                    C.issue('not-the-documented-formula', 'oracle', rp_h, got=y, reference=ref)
                C.case(key=(name, 'huge', len(x), x[0]), nontrivial=True, kind=f'{name}/huge')
            # coordinates one or a few spacings away from the special values of the formulas (0, the box ends), exactly as a regular
            # grid produces them (np.arange(-1, 1, 0.1)[10] is -2.2e-16)
            eps_ = 2.0 ** -52
            for sp_ in (-eps_, eps_, -2 * eps_, 3 * eps_, -eps_ / 2, 5e-324, -5e-324):
                if lo <= sp_ <= hi:
                    other_ = min(hi, max(lo, 0.5))
                    pts.append(('special', [sp_, other_]))
                    pts.append(('special', [other_, sp_, other_]))
                    if name != 'brown':
                        pts.append(('special', [sp_]))
            grid_ = [float(v) for v in np.arange(lo, hi, (hi - lo) / 20.0)]
            pts.append(('grid', grid_))
            pts.append(('grid', grid_[::-1]))
            # functions whose formula is a sum / product over all coordinates (no explicit dimension count): a position of shape
            # (variables, dimensions), as a hypercomplex agent holds it, is the vector of its entries
            if name in ('alpine1', 'alpine2', 'chung_reynolds', 'cosine_mixture', 'csendes', 'exponential', 'quintic', 'salomon',
                        'schumer_steiglitz', 'sphere', 'styblinski_tang'):
                for shp in ((2, 2), (3, 2), (2, 4), (4, 4)):
                    m_ = np.array([[C.rng.uniform(lo, hi) for _ in range(shp[1])] for _ in range(shp[0])])
                    rpm = dict(how='bench-matrix', name=name, m=m_.tolist())
                    try:
                        ym = fn(np.array(m_, copy=True))
                        ym = float(np.asarray(ym).reshape(-1)[0]) if np.size(ym) == 1 else float('nan')
                    except Exception as ex:
                        C.issue('benchmark-raised', 'oracle', rpm, error=repr(ex)[:100])
                        continue
                    try:
                        rm = float(REF[name](list(m_.reshape(-1))))
                    except Exception:
                        rm = float('nan')
                    if rm == rm and not close(rm, ym):
                        C.issue('not-the-documented-formula', 'oracle', rpm, got=ym, reference=rm)
                    C.case(key=(name, 'matrix', shp), nontrivial=True, kind=f'{name}/matrix')
            # whole-number points of the box stored as int32 / int16 / int8 arrays (where the documented formula is exact in
            # NumPy's integer arithmetic on that dtype): the value of the formula, computed exactly, and never below the minimum
            for dtype_, bits_ in NARROW:
                for x in narrow_points(rng_narrow, name, lo, hi, bits_):
                    try:
                        yf = float(fn(np.array(x, dtype=float)))
                    except Exception:
                        continue                # reported by the float checks
                    for shape_ in ('flat', 'column'):
                        rpn = dict(how='bench', name=name, x=x, integer=shape_, dtype=dtype_)
                        yi, err, ref = narrow_eval(np, fn, name, x, dtype_, shape_)
                        if yi is None:
                            C.issue('benchmark-raised-on-integer-array', 'oracle', rpn, error=err)
                        elif ref == ref and abs(ref) != float('inf') and (yi != yi or not close(yi, ref)):
                            C.issue('not-the-documented-formula', 'oracle', rpn, got=yi, reference=ref)
                        elif not close(yi, yf) and not (yi != yi and yf != yf):
                            C.issue('not-the-documented-formula', 'oracle', rpn, got=yi, reference=yf)
                        elif name in COHERENT and yi == yi and not (name == 'csendes' and any(v == 0 for v in x)) \
                                and yi < COHERENT[name][0](len(x)) - 1e-9:
                            C.issue('below-documented-minimum', 'oracle', rpn, value=yi, minimum=COHERENT[name][0](len(x)))
                    C.case(key=(name, dtype_, tuple(x)), nontrivial=len(x) >= 2, kind=f'{name}/{dtype_}')
            ok_pts = []
            for tag, x in pts:
                try:
                    float(fn(np.array(x, dtype=float)))
                    ok_pts.append((tag, x))
                except Exception as ex:
                    # every point of the documented box is in the domain: the function must return a number there
                    C.issue('benchmark-raised', 'oracle', dict(how='bench', name=name, x=x), error=repr(ex)[:100])
            pts = ok_pts
            lines = []
            for tag, x in pts:
                lines.append(f'b {name} {enc_bits(x)}')
            outs = drv.ask_many(lines)
            # the body as the translator read it from the current source, evaluated in Lean Float: validates the
            # translator's reading (broadcasting, operator order, inlined helpers) against the running code
            touts = drv.ask_many([f'fx bench {name} - {enc_bits(x)}' for tag, x in pts])
            for (tag, x), o in zip(pts, touts):
                y = float(fn(np.array(x, dtype=float)))
                if o in ('bad-op', 'unknown', 'bad') or o.startswith('v '):
                    C.issue('translated-formula-unreadable', 'correspondence', dict(how='bench', name=name, x=x), model=o[:60])
                    break
                if not close(bits2f(o), y):
                    C.issue('translated-formula-mismatch', 'correspondence', dict(how='bench', name=name, x=x), model=bits2f(o), real=y)
            C.extra['translated_formula_evaluations'] = C.extra.get('translated_formula_evaluations', 0) + len(touts)
            for (tag, x), o in zip(pts, outs):
                xa = np.array(x, dtype=float)
                y = float(fn(xa))
                # optimizers hand the objective a column array of shape (n_variables, 1): same point, same value
                try:
                    yc = float(np.asarray(fn(xa.reshape(-1, 1))).reshape(-1)[0])
                except Exception as ex:
                    yc = None
                    C.issue('benchmark-raised-on-column-array', 'oracle', dict(how='bench', name=name, x=x, column=True), error=repr(ex)[:100])
                if yc is not None and not close(yc, y) and not (yc != yc and y != y):
                    C.issue('not-the-documented-formula', 'oracle', dict(how='bench', name=name, x=x, column=True), got=yc, reference=y)
                # a point with whole-number coordinates written as integers (an integer array / a nested integer column):
                # the same point, the same value
                if all(float(v).is_integer() and abs(v) < 1e6 for v in x):
                    for shape_ in ('flat', 'column'):
                        xi = np.array([int(v) for v in x]) if shape_ == 'flat' else np.array([[int(v)] for v in x])
                        try:
                            yi = float(np.asarray(fn(xi)).reshape(-1)[0])
                        except Exception as ex:
                            yi = None
                            try:
                                fn(np.array(xi, dtype=float))
                            except Exception:
                                pass
                            else:
                                C.issue('benchmark-raised-on-integer-array', 'oracle', dict(how='bench', name=name, x=x, integer=shape_), error=repr(ex)[:100])
                        if yi is not None and not close(yi, y) and not (yi != yi and y != y):
                            C.issue('not-the-documented-formula', 'oracle', dict(how='bench', name=name, x=x, integer=shape_), got=yi, reference=y)
                # the value depends on the numbers handed in, not on the array object or its memory layout: the same point
                # as a non-contiguous view (a column of a matrix, a stepped slice), and a buffer that held another point
                # before and was overwritten in place
                n_ = len(x)
                mat = np.full((n_, 3), 7.25)
                mat[:, 1] = x
                stepped = np.full(2 * n_, -3.5)
                stepped[::2] = x
                buf = np.array([0.37 * (k_ + 1) for k_ in range(n_)], dtype=float)
                variants = [('matrix-column', lambda: mat[:, 1]), ('matrix-column-2d', lambda: mat[:, 1:2]), ('stepped-slice', lambda: stepped[::2])]
                for vname, mk_ in variants:
                    try:
                        yv = float(np.asarray(fn(mk_())).reshape(-1)[0])
                    except Exception as ex:
                        C.issue('benchmark-raised-on-view', 'oracle', dict(how='bench', name=name, x=x, view=vname), error=repr(ex)[:100])
                        continue
                    if not close(yv, y) and not (yv != yv and y != y):
                        C.issue('not-the-documented-formula', 'oracle', dict(how='bench', name=name, x=x, view=vname), got=yv, reference=y)
                try:
                    fn(buf)
                    buf[:] = x
                    yb = float(fn(buf))
                    if not close(yb, y) and not (yb != yb and y != y):
                        C.issue('not-the-documented-formula', 'oracle', dict(how='bench', name=name, x=x, view='reused-buffer'), got=yb, reference=y)
                except Exception:
                    pass
                rp = dict(how='bench', name=name, x=x)
                if o in ('bad-op', 'error'):
                    C.issue('benchmark-mismatch', 'correspondence', rp, model=o)
                    continue
                m = bits2f(o)
                if not close(m, y):
                    C.issue('benchmark-mismatch', 'correspondence', rp, model=m, real=y)
                try:
                    ref = float(REF[name](x))
                except (ValueError, ZeroDivisionError, OverflowError, TypeError):
                    ref = float('nan')
                if isinstance(ref, complex):
                    ref = float('nan')
                if not close(ref, y) and not (ref != ref or y != y):
                    C.issue('not-the-documented-formula', 'oracle', rp, got=y, reference=ref)
                elif ref == ref and y != y:
                    # the documented expression is defined (finite) at this point but the function returns NaN
                    C.issue('not-the-documented-formula', 'oracle', rp, got=y, reference=ref)
                if name in COHERENT and y == y:
                    lb = COHERENT[name][0](len(x))
                    if name == 'csendes' and any(v == 0 for v in x):
                        pass
                    elif y < lb - 1e-9:
                        C.issue('below-documented-minimum', 'oracle', rp, value=y, minimum=lb)
                    if tag == 'minimiser' and not close(y, lb, 1e-9) and abs(y - lb) > 1e-9:
                        C.issue('minimum-not-attained', 'oracle', rp, value=y, minimum=lb)
                C.case(key=(name, tuple(x)), nontrivial=len(x) >= 2 or tag in ('minimiser', 'corner'), kind=f'{name}/{tag}',
                       sample=dict(rp, value=y) if tag == 'minimiser' and len(x) == 3 and len(C.samples) < 3 else None)
    finally:
        drv.close()
    return C.result()


def source_literals(fn_name):
    """numeric literals of the current source of one benchmark function (they steer the search towards
    dimension thresholds and special coordinates a changed body may test for)"""
    ints, floats = set(), set()
    try:
        t = ast.parse(open(f'{common.REPO}/opytimizer/math/benchmark.py').read())
        for f in t.body:
            if isinstance(f, ast.FunctionDef) and f.name == fn_name:
                for n in ast.walk(f):
                    if isinstance(n, ast.Constant) and not isinstance(n.value, bool):
                        if isinstance(n.value, int):
                            ints.add(n.value)
                        elif isinstance(n.value, float):
                            floats.add(n.value)
    except Exception:
        pass
    return ints, floats


def directed_search(ctx, names):
    """the implicated functions at many more dimensions and at special coordinates (exact zeros, signed zeros,
    bounds, literals of the source), against the independent transcription of the docstring formula"""
    import random
    L = lib.load()
    np = L['np']
    import opytimizer.math.benchmark as bm
    rng = random.Random(ctx['seed'] + 4242)
    for name in names:
        if name not in REF or not hasattr(bm, name):
            continue
        fn = getattr(bm, name)
        lo, hi = documented(name) or (-1.0, 1.0)
        ints, floats = source_literals(name)
        dims = sorted({d for d in list(range(1, 10)) + [16, 31, 32, 33, 50, 51, 64, 100, 101, 128, 257, 1000]
                       + [k + e for k in ints for e in (-1, 0, 1) if 1 <= k + e <= 5000] if d >= (2 if name == 'brown' else 1)})
        specials = [0.0, -0.0, lo, hi, (lo + hi) / 2, 1.0, -1.0] + [v for v in floats if lo <= v <= hi] + [float(k) for k in ints if lo <= k <= hi]
        for n in dims:
            for rep in range(12 if n <= 128 else 3):
                mode = rep % 4
                if mode == 0:
                    x = [rng.uniform(lo, hi) for _ in range(n)]
                elif mode == 1:
                    x = [rng.choice(specials) if rng.random() < 0.3 else rng.uniform(lo, hi) for _ in range(n)]
                elif mode == 2:
                    x = [rng.choice(specials) for _ in range(n)]
                else:
                    x = [rng.uniform(max(lo, 0.0), hi) if hi > 0 else rng.uniform(lo, hi) for _ in range(n)]
                try:
                    y = float(fn(np.array(x, dtype=float)))
                except Exception as ex:
                    return dict(what='benchmark-raised', layer='oracle', replay=dict(how='bench', name=name, x=x), error=repr(ex)[:120])
                try:
                    ref = float(REF[name](x))
                except (ValueError, ZeroDivisionError, OverflowError, TypeError):
                    continue
                if isinstance(ref, complex) or ref != ref:
                    continue
                tol = 1e-9 * (1 + n / 8)
                if (y != y) or not close(ref, y, tol):
                    return dict(what='not-the-documented-formula', layer='oracle', replay=dict(how='bench', name=name, x=x, tol=tol),
                                got=y, reference=ref)
    return None


def search(ctx, corr, broken):
    res = check(dict(ctx, tier='thorough'))
    for i in res['issues']:
        if i['layer'] == 'oracle':
            return i
    # which functions do the broken obligations / correspondences name?
    names = []
    for b in broken:
        for n in REF:
            if f'bench_{n}_eq' in str(b[0]) or f'code_{n}' in str(b[0]) or f'"{n}"' in str(b[1]):
                names.append(n)
    for c in corr:
        n = (c.get('replay') or {}).get('name')
        if n:
            names.append(n)
    names = list(dict.fromkeys(names)) or list(REF)
    return directed_search(ctx, names)


def replay(prop, payload):
    L = lib.load()
    np = L['np']
    import opytimizer.math.benchmark as bm
    if payload.get('how') == 'bench-matrix':
        name = payload['name']
        m_ = np.array(payload['m'], dtype=float)
        try:
            ym = getattr(bm, name)(np.array(m_, copy=True))
            ym = float(np.asarray(ym).reshape(-1)[0]) if np.size(ym) == 1 else float('nan')
        except Exception:
            return True
        try:
            rm = float(REF[name](list(m_.reshape(-1))))
        except Exception:
            return False
        return bool(rm == rm and not close(rm, ym))
    if payload.get('how') == 'bench-huge':
        # only the all-ones vectors replay from the file (the random ones are re-drawn by the check)
        name = payload['name']
        if payload.get('draw_seed') is None:
            x = [1.0] * payload['n']
        else:
            import random as _rnd
            r_ = _rnd.Random(payload['draw_seed'])
            x = [r_.uniform(payload['lo'], payload['hi']) for _ in range(payload['n'])]
        try:
            y = float(getattr(bm, name)(np.array(x, dtype=float)))
        except Exception:
            return True
        try:
            ref = REF[name](x)
            ref = float('nan') if isinstance(ref, complex) else float(ref)
        except (ValueError, ZeroDivisionError, OverflowError, TypeError):
            return False
        return bool(ref == ref and abs(ref) != float('inf') and not close(ref, y))
    name, x = payload['name'], payload['x']
    try:
        float(np.asarray(getattr(bm, name)(np.array(x, dtype=float))).reshape(-1)[0])
    except Exception:
        return True
    if payload.get('view'):
        xf = np.array(x, dtype=float)
        n_ = len(x)
        yf = float(np.asarray(getattr(bm, name)(xf)).reshape(-1)[0])
        if payload['view'] == 'reused-buffer':
            buf = np.array([0.37 * (k_ + 1) for k_ in range(n_)], dtype=float)
            getattr(bm, name)(buf)
            buf[:] = x
            yv = float(getattr(bm, name)(buf))
        elif payload['view'] == 'stepped-slice':
            st_ = np.full(2 * n_, -3.5)
            st_[::2] = x
            yv = float(np.asarray(getattr(bm, name)(st_[::2])).reshape(-1)[0])
        else:
            mat = np.full((n_, 3), 7.25)
            mat[:, 1] = x
            v_ = mat[:, 1] if payload['view'] == 'matrix-column' else mat[:, 1:2]
            yv = float(np.asarray(getattr(bm, name)(v_)).reshape(-1)[0])
        return not close(yv, yf) and not (yv != yv and yf != yf)
    if payload.get('integer') and payload.get('dtype'):
        yf = float(np.asarray(getattr(bm, name)(np.array(x, dtype=float))).reshape(-1)[0])
        yi, err, ref = narrow_eval(np, getattr(bm, name), name, x, payload['dtype'], payload['integer'])
        if yi is None:
            return True
        bad = (ref == ref and abs(ref) != float('inf') and (yi != yi or not close(yi, ref))) or (not close(yi, yf) and not (yi != yi and yf != yf))
        if name in COHERENT and yi == yi and not (name == 'csendes' and any(v == 0 for v in x)):
            bad = bad or yi < COHERENT[name][0](len(x)) - 1e-9
        return bool(bad)
    if payload.get('integer'):
        xi = np.array([int(v) for v in x]) if payload['integer'] == 'flat' else np.array([[int(v)] for v in x])
        yf = float(np.asarray(getattr(bm, name)(np.array(x, dtype=float))).reshape(-1)[0])
        try:
            yi = float(np.asarray(getattr(bm, name)(xi)).reshape(-1)[0])
        except Exception:
            return True
        return not close(yi, yf) and not (yi != yi and yf != yf)
    xa_ = np.array(x, dtype=float).reshape(-1, 1) if payload.get('column') else np.array(x, dtype=float)
    y = float(np.asarray(getattr(bm, name)(xa_)).reshape(-1)[0])
    try:
        ref = float(REF[name](x))
    except Exception:
        ref = float('nan')
    bad = (not close(ref, y, payload.get('tol', 1e-9)) and not (ref != ref or y != y)) or (ref == ref and y != y)
    if name in COHERENT and y == y and not (name == 'csendes' and any(v == 0 for v in x)):
        bad = bad or y < COHERENT[name][0](len(x)) - 1e-9
    return bad
