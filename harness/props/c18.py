"""C18 — random, distribution and selection primitives honour their contracts."""
import os
import math
import common, lib
from comp import Comp
from common import enc_bits, fbits, bits2f, fkey, enc_ints, dec_ints


def check(ctx):
    L = lib.load()
    np = L['np']
    import opytimizer.math.random as r
    import opytimizer.math.distribution as d
    import opytimizer.math.general as g
    C = Comp(ctx, 'one case = one call of a wrapper under a seeded generator, compared with the Lean model applied to the draws of an identically seeded twin generator (uniform/normal affine maps bit-exact; Bernoulli thresholds and tournament/pairwise exact over keys; Levy 1e-9 relative) plus contract oracles on the real result (shape, range, {0,1}, monotone in p, first holder of the round minimum, consecutive disjoint pairs); non-trivial = array-valued or tie/negative/boundary cases',
             ['np.random.uniform/normal are the documented affine maps of the unit / standard draws (trusted)',
              'high can be returned after rounding (NumPy documents this): informational'])
    drv = common.Driver()
    try:
        # the value for an exponent does not depend on which exponents were used before: fixed sequences that return to an
        # earlier exponent, in this process (its first Levy calls) and in a fresh interpreter (where the sequence's first
        # exponent is the first the process ever sees)
        import subprocess as _sp, json as _json
        def _ref(beta, g1, g2):
            num = math.gamma(1 + beta) * math.sin(math.pi * beta / 2)
            den = math.gamma((1 + beta) / 2) * beta * (2 ** ((beta - 1) / 2))
            return g1 * ((num / den) ** (1 / beta)) / np.fabs(g2) ** (1 / beta)
        # very small exponents: |v| ** (1 / beta) underflows to 0 for ordinary draws; Mantegna's quotient is then +-inf (or NaN),
        # and that is what the function returns
        with np.errstate(all='ignore'):
            for beta in (0.01, 0.005, 0.02, 0.003):
                for q in range(6):
                    np.random.seed(900 + q)
                    step = d.generate_levy_distribution(beta, 5)
                    np.random.seed(900 + q)
                    g1 = np.random.normal(0.0, 1.0, 5)
                    g2 = np.random.normal(0.0, 1.0, 5)
                    num = math.gamma(1 + beta) * math.sin(math.pi * beta / 2)
                    den = math.gamma((1 + beta) / 2) * beta * (2 ** ((beta - 1) / 2))
                    ref = g1 * ((num / den) ** (1 / beta)) / np.fabs(g2) ** (1 / beta)
                    same = all((a == b) or (a != a and b != b) or (abs(a - b) <= 1e-9 * abs(b) if np.isfinite(a) and np.isfinite(b) else False)
                               for a, b in zip(np.asarray(step, dtype=float).tolist(), ref.tolist()))
                    if not same:
                        C.issue('levy-not-mantegna', 'oracle', dict(how='levy-small-beta', beta=beta, seed=900 + q), got=np.asarray(step).tolist(), reference=ref.tolist())
                        break
                C.case(key=('levy-small-beta', beta), nontrivial=True, kind='levy-small-beta')
        for seq in ([1.5, 0.8, 1.5, 0.8, 2.0, 1.5], [0.3, 0.3 + 1e-12, 0.3, 1.0, 0.3]):
            rp = dict(how='levy-sequence', betas=seq)
            for q, beta in enumerate(seq):
                np.random.seed(77 + q)
                step = d.generate_levy_distribution(beta, 4)
                np.random.seed(77 + q)
                g1 = np.random.normal(0.0, 1.0, 4)
                g2 = np.random.normal(0.0, 1.0, 4)
                if not np.allclose(_ref(beta, g1, g2), step, rtol=1e-12, atol=0, equal_nan=True):
                    C.issue('levy-not-mantegna', 'oracle', dict(rp, at=q), got=step.tolist(), reference=_ref(beta, g1, g2).tolist())
                    break
            script = ('import json, sys, logging\nlogging.disable(logging.CRITICAL)\nimport numpy as np\n'
                      'import opytimizer.math.distribution as d\nout = []\n'
                      f'for q, beta in enumerate({seq!r}):\n    np.random.seed(77 + q)\n    out.append([float(x).hex() for x in d.generate_levy_distribution(beta, 4)])\n'
                      'print("RESULT " + json.dumps(out))\n')
            pr = _sp.run(['/venv/bin/python', '-c', script], capture_output=True, text=True, cwd=common.scratch_dir(),
                         env=dict(os.environ, PYTHONPATH=common.REPO), timeout=300)
            line = next((l for l in pr.stdout.split('\n') if l.startswith('RESULT ')), None)
            if line is None:
                C.issue('levy-fresh-process-failed', 'correspondence', rp, err=pr.stderr[-200:])
            else:
                for q, (beta, hexes) in enumerate(zip(seq, _json.loads(line[7:]))):
                    np.random.seed(77 + q)
                    g1 = np.random.normal(0.0, 1.0, 4)
                    g2 = np.random.normal(0.0, 1.0, 4)
                    got = np.array([float.fromhex(h_) for h_ in hexes])
                    if not np.allclose(_ref(beta, g1, g2), got, rtol=1e-12, atol=0, equal_nan=True):
                        C.issue('levy-not-mantegna', 'oracle', dict(rp, at=q, fresh_process=True), got=got.tolist(), reference=_ref(beta, g1, g2).tolist())
                        break
            C.case(key=('levy-sequence', tuple(seq)), nontrivial=True, kind='levy-sequence')
        # ---------------- every shape NumPy accepts as `size` is a shape that can be requested: no element at all (0, NumPy
        # zeros, tuples with a zero axis), the scalar shape (), one-element shapes, NumPy integers, three axes.  The wrappers
        # are thin: shape, dtype, values and the number of draws consumed (seen through the next draw of the stream) are
        # those of np.random.uniform / normal for the same size after the same seed
        def _same_bits(x, y):
            x, y = np.asarray(x), np.asarray(y)
            return x.shape == y.shape and x.dtype == y.dtype and [fbits(v) for v in x.reshape(-1)] == [fbits(v) for v in y.reshape(-1)]
        sizes = [0, np.int64(0), np.int32(0), (), (0,), (2, 0), (0, 3), (3, 0, 2), 1, (1,), (1, 1), np.int64(3), (np.int64(2), 3), (2, 1, 3), 4]
        for q, size in enumerate(sizes):
            seed = 4100 + q
            want = tuple(int(s_) for s_ in size) if isinstance(size, tuple) else (int(size),)
            for low, high in ((0.0, 1.0), (-2.0, 5.0)):
                rp = dict(how='uniform-any-size', low=low, high=high, size=repr(size), seed=seed)
                try:
                    np.random.seed(seed)
                    a = r.generate_uniform_random_number(low, high, size)
                    nxt = np.random.uniform(0.0, 1.0)
                    np.random.seed(seed)
                    ref = np.random.uniform(low, high, size)
                    nxt_ref = np.random.uniform(0.0, 1.0)
                except Exception as ex:
                    C.issue('uniform-raised', 'oracle', rp, error=type(ex).__name__ + ': ' + str(ex)[:80])
                    continue
                if tuple(np.shape(a)) != want:
                    C.issue('uniform-shape', 'oracle', rp, shape=list(np.shape(a)), requested=list(want))
                elif not _same_bits(a, ref):
                    C.issue('uniform-not-numpy-draws', 'oracle', rp, got=np.asarray(a).tolist(), reference=np.asarray(ref).tolist())
                if np.any(np.asarray(a) < low) or np.any(np.asarray(a) > high):
                    C.issue('uniform-out-of-range', 'oracle', rp, values=np.asarray(a).tolist())
                if nxt != nxt_ref:
                    C.issue('uniform-stream-consumption', 'oracle', rp, elements_requested=int(np.prod(want)))
                C.case(key=('u-size', repr(size), low), nontrivial=True, kind='uniform-any-size')
            for mu, sd in ((0.0, 1.0), (1.0, 2.0)):
                rp = dict(how='normal-any-size', mean=mu, sd=sd, size=repr(size), seed=seed)
                try:
                    np.random.seed(seed)
                    b = r.generate_gaussian_random_number(mu, sd, size)
                    nxt = np.random.uniform(0.0, 1.0)
                    np.random.seed(seed)
                    ref = np.random.normal(mu, sd, size)
                    nxt_ref = np.random.uniform(0.0, 1.0)
                except Exception as ex:
                    C.issue('normal-raised', 'oracle', rp, error=type(ex).__name__ + ': ' + str(ex)[:80])
                    continue
                if tuple(np.shape(b)) != want:
                    C.issue('normal-shape', 'oracle', rp, shape=list(np.shape(b)), requested=list(want))
                elif not _same_bits(b, ref):
                    C.issue('normal-not-numpy-draws', 'oracle', rp, got=np.asarray(b).tolist(), reference=np.asarray(ref).tolist())
                if nxt != nxt_ref:
                    C.issue('normal-stream-consumption', 'oracle', rp, elements_requested=int(np.prod(want)))
                C.case(key=('n-size', repr(size), mu), nontrivial=True, kind='normal-any-size')
            # Levy steps of that size: Mantegna's formula on the two Gaussian draws of that size, nothing more consumed
            for beta in (1.5, 0.7):
                rp = dict(how='levy-any-size', beta=beta, size=repr(size), seed=seed)
                try:
                    np.random.seed(seed)
                    step = d.generate_levy_distribution(beta, size)
                    nxt = np.random.uniform(0.0, 1.0)
                    np.random.seed(seed)
                    g1 = np.random.normal(0.0, 1.0, size)
                    g2 = np.random.normal(0.0, 1.0, size)
                    nxt_ref = np.random.uniform(0.0, 1.0)
                except Exception as ex:
                    C.issue('levy-raised', 'oracle', rp, error=type(ex).__name__ + ': ' + str(ex)[:80])
                    continue
                if tuple(np.shape(step)) != want:
                    C.issue('levy-shape', 'oracle', rp, shape=list(np.shape(step)), requested=list(want))
                elif not np.allclose(_ref(beta, g1, g2), step, rtol=1e-12, atol=0, equal_nan=True):
                    C.issue('levy-not-mantegna', 'oracle', rp, got=np.asarray(step).tolist(), reference=np.asarray(_ref(beta, g1, g2)).tolist())
                if nxt != nxt_ref:
                    C.issue('levy-stream-consumption', 'oracle', rp, elements_requested=int(np.prod(want)))
                C.case(key=('l-size', repr(size), beta), nontrivial=True, kind='levy-any-size')
        reps = 120 if ctx['tier'] == 'quick' else 2000
        for k in range(reps):
            seed = C.rng.randrange(1 << 30)
            size = C.rng.choice([1, 1, 3, 7, (2, 3)])
            # ---------------- uniform
            low = C.rng.choice([0.0, -1.0, 2.5, -1e6, 1e-9, 0]) if C.rng.random() < 0.6 else round(C.rng.uniform(-50, 50), 3)
            high = low + C.rng.choice([1.0, 1e-9, 1e6, 0.5, 3])
            np.random.seed(seed)
            a = r.generate_uniform_random_number(low, high, size)
            np.random.seed(seed)
            u = np.random.uniform(0.0, 1.0, size)
            rp = dict(how='uniform', low=low, high=high, size=size, seed=seed)
            want = size if isinstance(size, tuple) else (size,)
            if tuple(a.shape) != want:
                C.issue('uniform-shape', 'oracle', rp, shape=a.shape)
            if np.any(a < low) or np.any(a > high):
                C.issue('uniform-out-of-range', 'oracle', rp, values=a.tolist())
            outs = drv.ask_many([f'n.unif {fbits(low)} {fbits(high)} {fbits(x)}' for x in u.reshape(-1)])
            if [int(o) for o in outs] != [fbits(x) for x in a.reshape(-1)]:
                C.issue('uniform-mismatch', 'correspondence', rp)
            C.case(key=('u', seed, low, high), nontrivial=size != 1, kind='uniform')
            # ---------------- gaussian
            mu = C.rng.choice([0.0, 1.0, -3.5, 1e3])
            sd = C.rng.choice([1.0, 0.1, 0.0, 25.0])
            np.random.seed(seed)
            b = r.generate_gaussian_random_number(mu, sd, size)
            np.random.seed(seed)
            z = np.random.normal(0.0, 1.0, size)
            rp = dict(how='normal', mean=mu, sd=sd, size=size, seed=seed)
            if tuple(b.shape) != want:
                C.issue('normal-shape', 'oracle', rp, shape=b.shape)
            outs = drv.ask_many([f'n.norm {fbits(mu)} {fbits(sd)} {fbits(x)}' for x in z.reshape(-1)])
            if [int(o) for o in outs] != [fbits(x) for x in b.reshape(-1)]:
                C.issue('normal-mismatch', 'correspondence', rp)
            # scales affinely: doubling the deviation doubles the distance to the mean (same stream)
            np.random.seed(seed)
            b2 = r.generate_gaussian_random_number(mu, 2 * sd, size)
            tolv = 8 * np.spacing(np.maximum(np.maximum(np.abs(b), np.abs(b2)), abs(mu)) + 1e-300)
            if not np.all(np.abs((b2 - mu) - 2 * (b - mu)) <= tolv):
                C.issue('normal-not-affine', 'oracle', rp)
            C.case(key=('n', seed, mu, sd), nontrivial=size != 1, kind='normal')
            # ---------------- bernoulli
            n = C.rng.randint(1, 12)
            p = C.rng.choice([0.0, 1.0, 0.5, 0.2, 0.999999, 1e-12])
            np.random.seed(seed)
            bern = d.generate_bernoulli_distribution(p, n)
            np.random.seed(seed)
            us = np.random.uniform(0, 1, n)
            rp = dict(how='bernoulli', prob=p, size=n, seed=seed)
            if not all(x in (0.0, 1.0) for x in bern) or len(bern) != n:
                C.issue('bernoulli-values', 'oracle', rp, values=list(bern))
            if p == 0.0 and any(bern):
                C.issue('bernoulli-prob-0', 'oracle', rp)
            if p == 1.0 and not all(bern):
                C.issue('bernoulli-prob-1', 'oracle', rp)
            p2 = min(1.0, p + C.rng.random() * 0.5)
            np.random.seed(seed)
            bern2 = d.generate_bernoulli_distribution(p2, n)
            if any(x > y for x, y in zip(bern, bern2)):
                C.issue('bernoulli-not-monotone', 'oracle', rp, p2=p2)
            o = drv.ask(f's.bern {fkey(p)} {enc_ints(fkey(x) for x in us)}')
            if dec_ints(o) != [int(x) for x in bern]:
                C.issue('bernoulli-mismatch', 'correspondence', rp, model=o, real=list(bern))
            # the function as the translator read it (BernProg), run by its Lean semantics
            o = drv.ask(f'w.bern {fkey(p)} {enc_ints(fkey(x) for x in us)}')
            if o == 'error' or dec_ints(o) != [int(x) for x in bern]:
                C.issue('translated-bernoulli-mismatch', 'correspondence', rp, model=o, real=list(bern))
            C.case(key=('b', seed, p, n), nontrivial=p in (0.0, 1.0) or n > 3, kind='bernoulli')
            # ---------------- levy
            beta = C.rng.choice([0.1, 0.5, 1.0, 1.5, 2.0]) if C.rng.random() < 0.7 else round(C.rng.uniform(0.05, 2.0), 3)
            n = C.rng.randint(1, 6)
            np.random.seed(seed)
            step = d.generate_levy_distribution(beta, n)
            np.random.seed(seed)
            g1 = np.random.normal(0.0, 1.0, n)
            g2 = np.random.normal(0.0, 1.0, n)
            rp = dict(how='levy', beta=beta, size=n, seed=seed)
            outs = drv.ask_many([f'n.levy {fbits(beta)} {fbits(x)} {fbits(y)}' for x, y in zip(g1, g2)])
            for o, s_ in zip(outs, step):
                m = bits2f(o)
                if not (abs(m - s_) <= 1e-9 * (1 + abs(m) + abs(s_)) or (m != m and s_ != s_) or m == s_):
                    C.issue('levy-mismatch', 'correspondence', rp, model=m, real=float(s_))
                    break
            # Mantegna's formula, independently
            num = math.gamma(1 + beta) * math.sin(math.pi * beta / 2)
            den = math.gamma((1 + beta) / 2) * beta * (2 ** ((beta - 1) / 2))
            sigma = (num / den) ** (1 / beta)
            ref = g1 * sigma / np.fabs(g2) ** (1 / beta)
            if not np.allclose(ref, step, rtol=1e-12, atol=0, equal_nan=True):
                C.issue('levy-not-mantegna', 'oracle', rp, got=step.tolist(), reference=ref.tolist())
            C.case(key=('l', seed, beta, n), nontrivial=n > 1, kind='levy')
            # ---------------- tournament
            m_ = C.rng.randint(1, 8)
            mode = C.rng.choice(['rand', 'ties', 'neg', 'near-ties', 'tiny'])
            if mode == 'near-ties':
                base_ = C.rng.choice([1250.0, 1.0, -3.5, 1e-3])
                fit = [base_ * (1 + C.rng.choice([0.0, 1e-9, 3e-6, -2e-7, 1e-12])) for _ in range(m_)]
            elif mode == 'tiny':
                fit = [C.rng.uniform(0, 1) * 1e-9 for _ in range(m_)]
            else:
                fit = [C.rng.uniform(0, 10) if mode == 'rand' else (float(C.rng.choice([1, 2, 3])) if mode == 'ties' else C.rng.uniform(-5, 5))
                       for _ in range(m_)]
            nsel = C.rng.randint(0, 6)
            drawn = []
            orig = np.random.choice

            def tap(aa, *args, **kw):
                v = orig(aa, *args, **kw)
                drawn.append(float(v))
                return v
            np.random.seed(seed)
            np.random.choice = tap
            # the size of a round is the library constant as it is when the selection runs (a user may set it)
            ts0 = L['c'].TOURNAMENT_SIZE
            tsize = C.rng.choice([ts0, ts0, ts0, 3, 1, 4])
            L['c'].TOURNAMENT_SIZE = tsize
            try:
                sel = g.tournament_selection(fit, nsel)
            finally:
                np.random.choice = orig
                L['c'].TOURNAMENT_SIZE = ts0
            rp = dict(how='tournament', fitness=fit, n=nsel, seed=seed, tsize=tsize)
            ts = tsize
            rounds = [drawn[i * ts:(i + 1) * ts] for i in range(nsel)]
            if len(sel) != nsel or len(drawn) != nsel * ts:
                C.issue('tournament-length', 'oracle', rp, selected=len(sel), draws=len(drawn), expected_draws=nsel * ts)
                C.case(key=('t', seed, tuple(fit), nsel), nontrivial=nsel > 0, kind='tournament-' + mode)
                continue
            value_draws = all(any(x == f for f in fit) for x in drawn)
            for s_, rd in zip(sel, rounds):
                s_ = int(s_)
                # draw-independent part: a valid index that is the FIRST holder of its fitness value
                if not (0 <= s_ < m_) or any(fit[j] == fit[s_] for j in range(s_)):
                    C.issue('tournament-not-first-holder-of-round-minimum', 'oracle', rp, selected=[int(x) for x in sel], rounds=rounds)
                    break
                # when the implementation draws fitness values (np.random.choice(fitness)): the round minimum
                if value_draws and fit[s_] != min(rd):
                    C.issue('tournament-not-first-holder-of-round-minimum', 'oracle', rp, selected=[int(x) for x in sel], rounds=rounds)
                    break
            if nsel and value_draws:
                o = drv.ask(f"s.tour {enc_ints(fkey(x) for x in fit)} {';'.join(enc_ints(fkey(x) for x in rd) for rd in rounds)}")
                if o == 'error' or dec_ints(o) != [int(x) for x in sel]:
                    C.issue('tournament-mismatch', 'correspondence', rp, model=o, real=[int(x) for x in sel])
                o = drv.ask(f"w.tour {enc_ints(fkey(x) for x in fit)} {';'.join(enc_ints(fkey(x) for x in rd) for rd in rounds)}")
                if o == 'error' or dec_ints(o) != [int(x) for x in sel]:
                    C.issue('translated-tournament-mismatch', 'correspondence', rp, model=o, real=[int(x) for x in sel])
            elif nsel:
                C.issue('tournament-draws-not-fitness-values', 'correspondence', rp, drawn=drawn[:6])
            C.case(key=('t', seed, tuple(fit), nsel), nontrivial=mode != 'rand' and nsel > 0, kind='tournament-' + mode,
                   sample=dict(rp, selected=[int(x) for x in sel], rounds=rounds) if mode == 'ties' and nsel > 1 else None)
        # ---------------- pairwise: every length 0..9
        for n in range(0, 10):
            vals = list(range(10, 10 + n))
            got = [list(p) for p in g.pairwise(vals)]
            rp = dict(how='pairwise', values=vals)
            flat = [x for p in got for x in p]
            if flat != vals or any(len(p) != 2 for p in got[:-1]) or (got and len(got[-1]) != (2 if n % 2 == 0 else 1)):
                C.issue('pairwise-not-consecutive-disjoint-pairs', 'oracle', rp, got=got)
            o = drv.ask(f's.pair {enc_ints(vals)}')
            if common.dec_pos(o) != got:
                C.issue('pairwise-mismatch', 'correspondence', rp, model=o, real=got)
            C.case(key=('p', n), nontrivial=n >= 2, kind='pairwise')
        # … of any values (None, zeros, empty strings / tuples, booleans are values like others) and of any iterable
        odd = [None, 0, '', (), False, 0.0, [], 'x', -1, float('nan')]
        for k in range(40 if ctx['tier'] == 'quick' else 400):
            n = C.rng.randint(0, 9)
            vals = [C.rng.choice(odd) for _ in range(n)]
            for src, make in (('list', lambda: list(vals)), ('generator', lambda: (v for v in vals)), ('tuple', lambda: tuple(vals))):
                got = [list(p) for p in g.pairwise(make())]
                flat = [x for p in got for x in p]
                same = len(flat) == len(vals) and all((a is b) or (a == b) for a, b in zip(flat, vals))
                if not same or any(len(p) != 2 for p in got[:-1]) or (got and len(got[-1]) != (2 if n % 2 == 0 else 1)):
                    C.issue('pairwise-not-consecutive-disjoint-pairs', 'oracle', dict(how='pairwise-odd', values=[repr(v) for v in vals], source=src), got=repr(got)[:200])
                    break
            C.case(key=('p-odd', tuple(repr(v) for v in vals)), nontrivial=n >= 2, kind='pairwise-any-values')
        # tournament over integer-valued fitness beyond 2**53 (exact as integers, not as doubles): the winner of a round is the
        # first holder of the smallest value drawn, compared exactly
        for k in range(20 if ctx['tier'] == 'quick' else 200):
            m_ = C.rng.randint(2, 7)
            base_ = 2 ** 53 + C.rng.randrange(1 << 20) * 2
            fit = [base_ + d_ for d_ in C.rng.sample(range(0, 12), m_)]
            if k % 2:
                fit = np.array(fit, dtype=np.int64)
            nsel = C.rng.randint(1, 5)
            seed = C.rng.randrange(1 << 30)
            drawn = []
            orig = np.random.choice

            def tap2(aa, *args, **kw):
                v = orig(aa, *args, **kw)
                drawn.append(int(v))
                return v
            np.random.seed(seed)
            np.random.choice = tap2
            try:
                sel = g.tournament_selection(fit, nsel)
            finally:
                np.random.choice = orig
            ts = L['c'].TOURNAMENT_SIZE
            fl = [int(x) for x in fit]
            rp = dict(how='tournament-bigint', fitness=[str(x) for x in fl], n=nsel, seed=seed, array=bool(k % 2))
            rounds = [drawn[i * ts:(i + 1) * ts] for i in range(nsel)]
            if len(sel) != nsel or len(drawn) != nsel * ts or any(x not in fl for x in drawn):
                C.issue('tournament-length', 'oracle', rp, selected=len(sel), draws=len(drawn))
            else:
                for s_, rd in zip(sel, rounds):
                    if not (0 <= int(s_) < len(fl)) or fl[int(s_)] != min(rd) or any(fl[j] == fl[int(s_)] for j in range(int(s_))):
                        C.issue('tournament-not-first-holder-of-round-minimum', 'oracle', rp, selected=[int(x) for x in sel], rounds=[[str(x) for x in rd] for rd in rounds])
                        break
            C.case(key=('t-bigint', seed), nontrivial=True, kind='tournament-bigint')
    finally:
        drv.close()
    return C.result()


def search(ctx, corr, broken):
    res = check(dict(ctx, tier='thorough'))
    for i in res['issues']:
        if i['layer'] == 'oracle':
            return i
    return None


def replay(prop, payload):
    # the primitives are stateless by contract, but a defect may depend on what was called before (caches): the
    # replay re-runs the generator's whole call sequence, in the tier in which the input was found
    for tier in ('quick', 'thorough'):
        res = check(dict(seed=0, tier=tier, prop=prop))
        if any(i['layer'] == 'oracle' and i['what'].startswith(payload['how'][:5]) for i in res['issues']):
            return True
    return False
