"""C01 C02 C03 C04 C07 C12 C15 C20: decided on the shared run-level pass."""
import json, os, sys
import common, runpass, findings

MACHINE_OWNERS = {
    'machine-reject-arg': ['C01', 'C03'],
    'machine-reject-cursor': ['C03'],
    'state-mismatch-best': ['C02', 'C07'],
    'state-mismatch-pop': ['C02', 'C20'],
    'machine-reject': ['C02'],
    'machine-noinit': ['C02'],
    'machine-bad-op': ['C02'],
    'machine-harness-error': ['C02'],
    'task-model-mismatch': ['C01', 'C02', 'C03', 'C04'],
}
CORR_WHATS = {'clip-mismatch', 'pattern', 'schedule-mismatch', 'truth-flag', 'budget-table-mismatch'}
ASSUME = {
    'C01': ['lb <= ub point-wise', 'user hooks keep positions inside the box', 'objective is called only through Function.pointer'],
    'C02': ['objective deterministic, finite, strictly below FLOAT_MAX (K6)', 'observer hooks'],
    'C03': ['hyperparameters inside the working range of DESIGN.md 4.6', 'fair draw streams for the ABC onlooker loop'],
    'C04': ['wall clock non-decreasing during start() (K11)'],
    'C07': ['observer hooks'],
    'C12': ['tree values finite (K4)'],
    'C15': ['AIWPSO: initial w inside [w_min, w_max]', 'IEEE rounding allowance of 2 ulp (K8)'],
    'C20': ['objective deterministic', 'observer hooks'],
}


def owners_of_machine_issue(i):
    w = i['what']
    own = list(MACHINE_OWNERS.get(w, ['C02']))
    if w == 'machine-reject' and i.get('op') == 'm.dump':
        own = ['C03', 'C02']
    if w == 'state-mismatch-pop' and i.get('op') == 'm.clipall':
        own = ['C01']
    return own


def collect(prop, res):
    issues = []
    for r in res['runs']:
        cfg = r['cfg']
        er = r.get('error')
        if er and er.get('phase') in ('build', 'prior') and not cfg.get('expect_build_error'):
            # the scenario could not even be set up: nothing was checked on it (never a silent pass)
            issues.append(dict(what='scenario-setup-failed', layer='correspondence', cfg_kind=cfg['kind'], error=er,
                               known=None, replay=dict(how='runlevel', cfg=cfg, what='scenario-setup-failed')))
        for i in r['issues'].get(prop, []):
            j = dict(i)
            j['cfg_kind'] = cfg['kind']
            j['layer'] = 'correspondence' if i['what'] in CORR_WHATS else 'oracle'
            j['replay'] = dict(how='runlevel', cfg=cfg, what=i['what'])
            issues.append(j)
        if r.get('light') and not r['light'].get('same', True):
            issues.append(dict(what='recorder-changes-the-run', layer='correspondence', cfg_kind=cfg['kind'], detail=r['light'], known=None,
                               replay=dict(how='runlevel', cfg=cfg, what='recorder-changes-the-run')))
        for i in r['machine']['issues']:
            if prop in owners_of_machine_issue(i):
                j = dict(i)
                j['cfg_kind'] = cfg['kind']
                j['layer'] = 'correspondence'
                j['what'] = 'machine:' + i['what'] + ':' + str(i.get('op'))
                j['replay'] = dict(how='runlevel', cfg=cfg, what=j['what'])
                j['known'] = findings.classify(prop, cfg, i)
                issues.append(j)
        if prop == 'C20' and r['machine'].get('truthLog') and cfg['hook'] == 'observer':
            tl = r['machine']['truthLog']
            if tl != '-' and '0' in tl.split(','):
                known = 'K1' if cfg['kind'] == 'WCA' and 'K1' in {f['id'] for f in findings.load()['findings']} else None
                unt = [i for i in r['issues'].get('C20', []) if i['what'] == 'untruthful-record']
                swarm_reuse = (cfg.get('prior') or {}).get('same_space') and cfg['kind'] in ('PSO', 'AIWPSO', 'RPSO') \
                    and 'K13' in {f['id'] for f in findings.load()['findings']}
                if swarm_reuse and all(findings.classify('C20', cfg, i) == 'K13' for i in unt):
                    # the machine flags exactly the records of the recorded finding (stale personal bests on a reused space)
                    known = 'K13'
                issues.append(dict(what='truth-flag', layer='correspondence', cfg_kind=cfg['kind'], truthLog=tl,
                                   known=known, replay=dict(how='runlevel', cfg=cfg, what='truth-flag')))
    return issues


def nontrivial(prop, r):
    st = r['stats'].get(prop, {})
    cfg = r['cfg']
    ms = r['machine'].get('stats', {})
    if prop == 'C01':
        return st.get('clip_mattered', 0) > 0
    if prop == 'C02':
        return st.get('min_in_trial', 0) > 0 or st.get('ties', 0) > 0
    if prop == 'C03':
        return ms.get('trials', 0) > 0 or cfg['hook'] != 'observer'
    if prop == 'C04':
        return r['error'] is None and (cfg['store_best_only'] or cfg['n_iter'] > 1)
    if prop == 'C07':
        return st.get('replaced', 0) > 0
    if prop == 'C12':
        return cfg['kind'] == 'GP' and st.get('checks', 0) > 1
    if prop == 'C15':
        return st.get('adaptive_values', 0) > 0
    if prop == 'C20':
        return st.get('greedy_pairs', 0) > 0 or st.get('records', 0) > 0
    return False


RULES = {
    'C01': 'one case = one recorded optimisation run (kind x space x box x objective x sizes x hyperparameters x draw script); non-trivial = at least one objective call whose pre-clip proposal had a coordinate outside the box (clipping mattered)',
    'C02': 'non-trivial = the running minimum was first reached inside an update (trial evaluation) rather than in a sweep, or an exact tie on the best occurred',
    'C03': 'non-trivial = the run performed trial evaluations outside the sweeps (budget is exercised) or ran under a mutating hook',
    'C04': 'non-trivial = completed run with store_best_only set or more than one iteration (prefix stability is exercised)',
    'C07': 'non-trivial = some position storage was replaced between two hooks (copy / replace-worst / swap / reassignment)',
    'C12': 'non-trivial = GP run with at least two checked records',
    'C15': 'non-trivial = run of an optimiser that adapts a hyperparameter (AIWPSO, IHS, SA, FA, WCA)',
    'C20': 'non-trivial = run with per-agent records re-evaluated against the objective',
}


def extra_configs(prop, tier, seed):
    """configurations beyond the shared pass that exercise the rare sites / settings of one property"""
    import runlevel, random as _random
    extra = []
    if prop == 'C12':
        for c in [c for c in runlevel.gen_configs('thorough', seed + 77) if c['kind'] == 'GP'][:40 if tier == 'quick' else 120]:
            extra.append(dict(c, hook='observer'))
        # few terminals, every operator very active: freshly grown branches (still aliasing the space's terminals) get
        # grafted next to older, detached copies of the same terminal — a copy of such a tree must keep every value
        rng2 = _random.Random(seed * 47 + 29)
        for j, c in enumerate([c for c in runlevel.gen_configs('thorough', seed + 79) if c['kind'] == 'GP'][:10 if tier == 'quick' else 40]):
            extra.append(dict(c, hook='observer', n_terminals=1 + j % 2, n_agents=20, n_iter=8, min_depth=1, max_depth=3,
                              functions=list(runlevel.FUNCSETS[[0, 1, 2, 5][j % 4]]), objective=rng2.choice(['sphere', 'boundary', 'negative']),
                              hyper={'p_reproduction': 0.25, 'p_mutation': 0.6, 'p_crossover': 0.6, 'prunning_ratio': 0.0}))
        # the same GP object has run a task on a tree space with other bounds before
        for j, c in enumerate([c for c in runlevel.gen_configs('thorough', seed + 80) if c['kind'] == 'GP'][:4 if tier == 'quick' else 16]):
            w = [abs(u - l) + 1.0 for l, u in zip(c['lb'], c['ub'])]
            extra.append(dict(c, hook='observer', n_iter=max(c['n_iter'], 3),
                              prior=dict(n_iter=2, seed=c['seed'] + 1, lb=[u + 2 * w_ for u, w_ in zip(c['ub'], w)],
                                         ub=[u + 3 * w_ for u, w_ in zip(c['ub'], w)])))
        # trees that overflow to NaN (inf - inf, 0 * inf): the agent's position must still be its tree's value
        # limited to the bounds (NaN stays NaN); without selection operators such runs complete (cf. K4)
        rng = _random.Random(seed * 23 + 9)
        for j, c in enumerate([c for c in runlevel.gen_configs('thorough', seed + 78) if c['kind'] == 'GP'][:8 if tier == 'quick' else 30]):
            nv = c['n_vars']
            extra.append(dict(c, hook='observer', functions=[['EXP', 'COS', 'SUM'], ['EXP', 'SIN', 'SUM', 'MUL'], ['EXP', 'SUB', 'COS', 'SUM'], ['SUB', 'EXP', 'MUL']][j % 4],
                              min_depth=2, max_depth=6, n_agents=20, n_terminals=2,
                              n_iter=2, box='wide', lb=[0.0] * nv, ub=[10.0] * nv, objective='sphere',
                              hyper={'p_reproduction': 0.0, 'p_mutation': 0.0 if j % 2 else 0.3, 'p_crossover': 0.0, 'prunning_ratio': 0.0}))
    if prop in ('C12', 'C10'):
        # protected division on a box far below EPSILON (every terminal coordinate is a denominator smaller than 1e-10), terminals
        # used directly as operands: evaluating one tree must leave every other tree's value alone
        for j, c in enumerate([c for c in runlevel.gen_configs('thorough', seed + 84) if c['kind'] == 'GP'][:4 if tier == 'quick' else 16]):
            # (one variable of ordinary range, one in [0, 5e-11]: sums, differences and products of the small coordinate stay inside
            # its range, so a terminal array that changes under the feet of the trees sharing it shows in their values)
            extra.append(dict(c, hook='observer', functions=[['SUM', 'SUB', 'MUL', 'DIV'], ['DIV', 'MUL', 'SUB'], ['DIV', 'SUM']][j % 3], min_depth=1,
                              max_depth=2 + j % 2, n_agents=[10, 14][j % 2], n_terminals=2, n_iter=3 + j % 3, n_vars=2, box='mixedtiny', lb=[-5.0, 0.0],
                              ub=[5.0, 5e-11], objective='sphere', adv=0.0, store_best_only=False,
                              hyper={'p_reproduction': 0.3, 'p_mutation': 0.3, 'p_crossover': 0.3, 'prunning_ratio': 0.0} if j % 2 == 0 else
                              {'p_reproduction': 0.0, 'p_mutation': 0.0, 'p_crossover': 0.0, 'prunning_ratio': 0.0}))
    if prop == 'C15':
        # IHS bandwidth intervals far below EPSILON (also degenerate ones): the schedule stays inside them
        pool_f = [c for c in runlevel.gen_configs('thorough', seed + 321) if c['kind'] == 'IHS']
        for j, c in enumerate(pool_f[:3 if tier == 'quick' else 9]):
            bw = [dict(bw_min=1e-13, bw_max=1e-11), dict(bw_min=2e-12, bw_max=2e-12), dict(bw_min=0.0, bw_max=5e-11)][j % 3]
            extra.append(dict(c, hook='observer', adv=0.0, n_iter=5, n_agents=max(c['n_agents'], 3), hyper=bw))
    if prop in ('C12', 'C02'):
        # an objective that is NaN on part of the box: individuals whose fitness is NaN are never the best, and the best tree is
        # the tree of the agent that became best; without selection operators such runs complete (cf. K4)
        for j, c in enumerate([c for c in runlevel.gen_configs('thorough', seed + 83) if c['kind'] == 'GP'][:10 if tier == 'quick' else 40]):
            nv = c['n_vars']
            extra.append(dict(c, hook='observer', functions=['SUM', 'SUB', 'MUL'], min_depth=1, max_depth=3, n_agents=[4, 6, 10][j % 3],
                              n_terminals=3, n_iter=2, box='wide', lb=[-4.0] * nv, ub=[6.0] * nv, objective='nanpart', adv=0.0,
                              store_best_only=False,
                              hyper={'p_reproduction': 0.0, 'p_mutation': 0.0, 'p_crossover': 0.0, 'prunning_ratio': 0.0}))
    if prop == 'C02':
        # objectives that keep improving beyond the box, for the kinds that evaluate trial solutions of their own: a value returned
        # for an out-of-box trial would be the smallest returned and yet nobody's fitness (long runs, larger populations: not a
        # matter of the seed)
        rng = _random.Random(seed * 83 + 57)
        pool = [c for c in runlevel.gen_configs('thorough', seed + 241) if c['space'] == 'search']
        for kind in ('ABC', 'BA', 'BHA', 'CS', 'FPA', 'HS', 'IHS', 'SA'):
            for j_, c in enumerate([c for c in pool if c['kind'] == kind][:2 if tier == 'quick' else 6]):
                nv = max(c['n_vars'], 2)
                box = ['unit', 'offset'][j_ % 2]
                c = dict(c, hook='observer', adv=0.0, n_iter=12, n_agents=max(c['n_agents'], 8), n_vars=nv, objective='outside', box=box,
                         hyper={}, store_best_only=False)
                c['lb'], c['ub'] = runlevel.make_box(rng, box, nv)
                extra.append(c)
    if prop in ('C01', 'C02'):
        # rare sites: GP best on the boundary, ABC scout, BHA double exchange
        rng = _random.Random(seed * 17 + 3)
        pool = runlevel.gen_configs('thorough', seed + 55)
        for c in [c for c in pool if c['kind'] == 'GP'][:25 if tier == 'quick' else 80]:
            c = dict(c, hook='observer', objective=rng.choice(['boundary', 'signchange', 'negative']), box='offset')
            c['lb'], c['ub'] = runlevel.make_box(rng, rng.choice(['offset', 'narrow', 'unit']), c['n_vars'])
            extra.append(c)
        for c in [c for c in pool if c['kind'] == 'ABC'][:20 if tier == 'quick' else 80]:
            c = dict(c, hook='observer', n_iter=8, n_agents=rng.choice([2, 3, 5]), hyper={'n_trials': 1},
                     objective=rng.choice(['boundary', 'signchange', 'positive', 'sphere']))
            extra.append(c)
        for c in [c for c in pool if c['kind'] == 'BHA'][:20 if tier == 'quick' else 80]:
            c = dict(c, hook='observer', n_iter=8, n_agents=rng.choice([5, 8]), objective=rng.choice(['sphere', 'rastrigin', 'weighted']), box='wide')
            c['lb'], c['ub'] = runlevel.make_box(rng, 'wide', c['n_vars'])
            extra.append(c)
    if prop in ('C01', 'C06'):
        # integer-typed lower bounds with fractional (also negative) upper bounds, for the optimizers that clip their
        # trial solutions through the agents' own bounds
        rng = _random.Random(seed * 67 + 43)
        pool = [c for c in runlevel.gen_configs('thorough', seed + 151) if c['space'] == 'search']
        for kind in ['ABC', 'SA', 'FPA', 'HS', 'CS', 'BA', 'BHA']:
            for c in [c for c in pool if c['kind'] == kind][:2 if tier == 'quick' else 8]:
                c = dict(c, hook='observer', adv=0.3, n_iter=max(c['n_iter'], 4), box='intlb', objective=rng.choice(['outside', 'boundary', 'sphere']))
                c['lb'], c['ub'] = runlevel.make_box(rng, 'intlb', c['n_vars'])
                extra.append(c)
    if prop in ('C01', 'C06', 'C20'):
        # per-variable boxes that differ by less than any fixed tolerance (tiny scale; far from the origin), and one tiny
        # box, for the optimizers that clip their trial solutions through the agents' own bounds
        rng = _random.Random(seed * 71 + 47)
        pool = [c for c in runlevel.gen_configs('thorough', seed + 201) if c['space'] in ('search', 'tree')]
        for kind in ['ABC', 'SA', 'FPA', 'HS', 'IHS', 'CS', 'BA', 'BHA', 'GP']:
            for j_, c in enumerate([c for c in pool if c['kind'] == kind][:3 if tier == 'quick' else 9]):
                box = ['tinyscale', 'farscale', 'tinybox', 'nearequal'][j_ % 4] if kind != 'GP' else ['tinyscale', 'tinybox'][j_ % 2]
                nv = max(c['n_vars'], 2)
                c = dict(c, hook='observer', adv=0.0 if prop == 'C20' else 0.3, n_iter=max(c['n_iter'], 6), n_vars=nv, box=box,
                         n_agents=max(c['n_agents'], 5), objective='sphere', hyper={}, store_best_only=False)
                c['lb'], c['ub'] = runlevel.make_box(rng, box, nv)
                extra.append(c)
    if prop == 'C01':
        # bounds declared as NumPy arrays of a narrow integer type whose width is not representable in that type
        pool_n = [c for c in runlevel.gen_configs('thorough', seed + 311) if c['space'] == 'search']
        for j_, kind in enumerate(['HC', 'PSO', 'ABC', 'CS', 'SA', 'FA']):
            for c in [c for c in pool_n if c['kind'] == kind][:1 if tier == 'quick' else 3]:
                dt, w_ = [('int8', 100), ('int16', 30000), ('int32', 2000000000)][j_ % 3]
                extra.append(dict(c, hook='observer', adv=0.0, n_iter=max(c['n_iter'], 3), box='wide', lb=[-w_] * c['n_vars'], ub=[w_] * c['n_vars'],
                                  objective='sphere', hyper={}, bounds_dtype=dt))
    if prop == 'C01':
        # the recorded task resumes on a space whose earlier task was interrupted by its hook in the middle of an iteration
        rng = _random.Random(seed * 73 + 51)
        pool = [c for c in runlevel.gen_configs('thorough', seed + 211) if c['kind'] != 'GP']
        for kind in ['FA', 'GSA', 'HC', 'PSO', 'AIWPSO', 'RPSO', 'SCA', 'WCA', 'ABC', 'CS']:
            for c in [c for c in pool if c['kind'] == kind and c['objective'] not in ('view0', 'view00', 'fmax')][:2 if tier == 'quick' else 8]:
                box = rng.choice(['unit', 'offset', 'narrow'])
                c = dict(c, hook='observer', adv=0.0, n_iter=max(c['n_iter'], 3), n_agents=max(c['n_agents'], 5), box=box, hyper={},
                         objective='positive' if kind == 'WCA' else rng.choice(['sphere', 'outside', 'boundary']),
                         prior=dict(same_space=True, abort_at=rng.choice([1, 2, 3])))
                c['lb'], c['ub'] = runlevel.make_box(rng, box, c['n_vars'])
                extra.append(c)
    if prop in ('C01', 'C07', 'C02', 'C20', 'C15'):
        # the same optimizer object runs another task first (other box, more variables, fewer iterations): what it
        # does in the recorded task must not depend on that
        rng = _random.Random(seed * 37 + 21)
        pool = [c for c in runlevel.gen_configs('thorough', seed + 88) if c['kind'] != 'GP']
        kinds_ = {'C01': ['ABC', 'BA', 'CS', 'FPA', 'HS', 'SA', 'BHA'], 'C07': ['CS', 'ABC', 'HS', 'PSO', 'BHA', 'FA'],
                  'C02': ['ABC', 'CS', 'PSO', 'HS'], 'C20': ['ABC', 'CS', 'FPA', 'PSO', 'HS'], 'C15': ['IHS', 'AIWPSO', 'SA', 'FA', 'WCA']}[prop]
        for kind in kinds_:
            for j_, c in enumerate([c for c in pool if c['kind'] == kind][:3 if tier == 'quick' else 12]):
                how = ['box', 'wider-shape', 'shorter'][j_ % 3]
                c = dict(c, hook='observer', adv=0.0, n_iter=max(c['n_iter'], 3))
                if how == 'wider-shape':
                    # the earlier task had one more variable; this one has a single variable (a leftover array of the
                    # earlier shape would still broadcast)
                    c['n_vars'] = 1
                    c['lb'], c['ub'] = list(c['lb'][:1]), list(c['ub'][:1])
                    # (an objective that an extra row makes *better*, so that a stray larger array gets accepted)
                    c['objective'] = rng.choice(['negative', 'signchange'])
                    c['n_iter'] = 6
                    c['n_agents'] = max(c['n_agents'], 5)
                nv = c['n_vars']
                if kind == 'WCA':
                    c['hyper'] = {}
                    c['n_agents'] = max(c['n_agents'], 3)
                    c['objective'] = 'positive'
                prior = dict(n_iter=2, seed=c['seed'] + 1)
                if how == 'box':
                    # a box that does not contain (and is not contained in) the recorded task's box
                    w = [abs(u - l) + 1.0 for l, u in zip(c['lb'], c['ub'])]
                    prior.update(lb=[u + 2 * w_ for u, w_ in zip(c['ub'], w)], ub=[u + 3 * w_ for u, w_ in zip(c['ub'], w)])
                elif how == 'wider-shape':
                    prior.update(n_vars=nv + 1, lb=list(c['lb']) + [c['lb'][-1]], ub=list(c['ub']) + [c['ub'][-1]])
                else:
                    prior.update(n_iter=1)
                c['prior'] = prior
                extra.append(c)
    if prop in ('C01', 'C02', 'C07', 'C20', 'C12'):
        # the recorded task is the second one on the same space object (same objective): boxes away from the origin,
        # so that a position that was never sampled (zeros of a freshly allocated table) is visibly infeasible
        rng = _random.Random(seed * 53 + 31)
        pool = runlevel.gen_configs('thorough', seed + 111)
        kinds_ = {'C12': ['GP']}.get(prop, ['PSO', 'AIWPSO', 'RPSO', 'HC', 'ABC', 'CS', 'GP'])
        for kind in kinds_:
            for c in [c for c in pool if c['kind'] == kind and c['objective'] not in ('view0', 'view00')][:2 if tier == 'quick' else 8]:
                c = dict(c, hook='observer', adv=0.0, n_iter=max(c['n_iter'], 3), box='offset', prior=dict(same_space=True))
                if c['space'] != 'hyper':
                    lo, hi = [], []
                    for _ in range(c['n_vars']):
                        a, w = round(rng.uniform(2, 7), 2), rng.choice([0.25, 1.0, 7.0])
                        if rng.random() < 0.5:
                            lo.append(a); hi.append(a + w)
                        else:
                            lo.append(-a - w); hi.append(-a)
                    c['lb'], c['ub'] = lo, hi
                extra.append(c)
    if prop in ('C20', 'C01', 'C02'):
        # … and the second task has another objective than the first (every value of the first one is far smaller)
        rng = _random.Random(seed * 61 + 41)
        pool = runlevel.gen_configs('thorough', seed + 131)
        for kind in ['HC', 'ABC', 'CS', 'FPA', 'HS', 'SA', 'BHA', 'FA', 'SCA', 'GSA']:
            for c in [c for c in pool if c['kind'] == kind and c['objective'] not in ('view0', 'view00', 'fmax')][:1 if tier == 'quick' else 6]:
                extra.append(dict(c, hook='observer', adv=0.0, n_iter=max(c['n_iter'], 3), prior=dict(same_space=True, other_objective=True)))
    if prop in ('C02', 'C20'):
        # objectives on a tiny scale: improvements smaller than any fixed tolerance are still improvements
        pool = runlevel.gen_configs('thorough', seed + 161)
        for kind in ['PSO', 'AIWPSO', 'RPSO', 'HC', 'ABC', 'CS', 'FPA', 'HS', 'SA', 'GP']:
            for j_, c in enumerate([c for c in pool if c['kind'] == kind][:2 if tier == 'quick' else 6]):
                c = dict(c, hook='observer', adv=0.0, n_iter=max(c['n_iter'], 5), objective=['tiny', 'tinier'][j_ % 2],
                         n_agents=max(c['n_agents'], 3))
                if j_ % 2 and c['space'] != 'tree':
                    c.update(box='wide', lb=[-10.0] * c['n_vars'], ub=[10.0] * c['n_vars'])
                extra.append(c)
    if prop in ('C02', 'C20', 'C07'):
        # objectives whose return value is a view of their argument, with optimizers that move agents in place and
        # with the swarm family: the stored fitness is the value returned, whatever happens to the argument later
        rng = _random.Random(seed * 41 + 23)
        pool = [c for c in runlevel.gen_configs('thorough', seed + 99) if c['kind'] in ('HC', 'BHA', 'WCA', 'PSO', 'RPSO', 'SA', 'FA', 'GSA', 'SCA') and c['space'] == 'search']
        for kind in ('HC', 'BHA', 'PSO', 'RPSO', 'SA', 'FA', 'SCA'):
            for c in [c for c in pool if c['kind'] == kind][:3 if tier == 'quick' else 12]:
                box = rng.choice(['wide', 'offset', 'unit'])
                c = dict(c, hook='observer', adv=0.0, objective=rng.choice(['view0', 'view0', 'view00']), n_iter=rng.choice([3, 6]), box=box, hyper={})
                c['lb'], c['ub'] = runlevel.make_box(rng, box, c['n_vars'])
                extra.append(c)
    if prop == 'C04':
        # records are values: an objective returning a view of its argument, optimizers that move agents in place
        rng = _random.Random(seed * 43 + 27)
        pool = [c for c in runlevel.gen_configs('thorough', seed + 101) if c['kind'] in ('HC', 'BHA', 'WCA', 'PSO', 'SA', 'FA') and c['space'] == 'search']
        for kind in ('HC', 'BHA', 'PSO', 'SA', 'FA'):
            for c in [c for c in pool if c['kind'] == kind][:3 if tier == 'quick' else 10]:
                c = dict(c, hook='observer', adv=0.0, objective=rng.choice(['view0', 'view00']), n_iter=rng.choice([3, 6]), box='wide', hyper={},
                         store_best_only=rng.random() < 0.3)
                c['lb'], c['ub'] = runlevel.make_box(rng, 'wide', c['n_vars'])
                extra.append(c)
    if prop in ('C02', 'C03', 'C04', 'C07', 'C12'):
        # a hook that installs a new list (the population re-ranked) through the public setter: the optimizer works on the
        # space's current population, the records describe it
        pool = runlevel.gen_configs('thorough', seed + 181)
        for kind in ['HS', 'IHS', 'GP', 'HC', 'ABC', 'CS', 'FA', 'SA', 'BHA', 'PSO', 'WCA']:
            if prop == 'C12' and kind != 'GP':
                continue
            for j_, c in enumerate([c for c in pool if c['kind'] == kind][:3 if tier == 'quick' else 8]):
                # (the first run of each kind is long enough for the event not to depend on the seed: a member of the new list that
                # becomes the best individual while the optimizer still holds the old list)
                extra.append(dict(c, hook='relist', adv=0.0, n_iter=max(c['n_iter'], 4) if j_ else 20, n_agents=max(c['n_agents'], 4 if j_ else 6),
                                  objective='sphere' if kind != 'WCA' else 'positive', store_best_only=False))
    if prop in ('C04', 'C19', 'C20'):
        # an objective with a hard constraint (+inf on part of the box): what is recorded / returned is what was there
        pool = runlevel.gen_configs('thorough', seed + 191)
        for kind in ['HC', 'SCA', 'FA', 'SA']:
            for c in [c for c in pool if c['kind'] == kind and c['space'] == 'search'][:2 if tier == 'quick' else 6]:
                extra.append(dict(c, hook='observer', adv=0.0, objective='infpen', box='wide', lb=[-4.0] * c['n_vars'], ub=[6.0] * c['n_vars'],
                                  n_agents=max(c['n_agents'], 4), store_best_only=False))
    if prop in ('C03', 'C04', 'C15'):
        # optimizers whose loop does arithmetic on the iteration count (schedules): iteration counts at which a rounded
        # quotient / arange length / product goes wrong by one ulp or one element
        pool = runlevel.gen_configs('thorough', seed + 171)
        counts = {'IHS': [49, 98, 103, 107, 196], 'WCA': [3, 11, 22, 6, 12, 44, 24, 41, 48, 53, 75, 88], 'FA': [7, 49, 98], 'SA': [7, 49], 'AIWPSO': [7, 49],
                  'SCA': [49, 98, 103, 107, 196]}
        for kind, ns in counts.items():
            base = next((c for c in pool if c['kind'] == kind and c['space'] == 'search'), None)
            if base is None:
                continue
            for n_ in (ns if tier == 'thorough' else ns[:6] if kind == 'WCA' else ns[:3] if kind == 'IHS' else ns[:1]):
                extra.append(dict(base, hook='observer', adv=0.0, n_iter=n_, n_agents=3 if kind != 'WCA' else 4, n_vars=1, n_dims=1,
                                  lb=[-2.0], ub=[3.0], box='wide', objective='positive', hyper={}, store_best_only=(n_ % 2 == 0)))
    if prop in ('C03', 'C15'):
        # IHS schedules whose end point is the end of a validated range (PAR_max = 1): pairs (PAR_min, n_iterations) at which a
        # quotient multiplied back rounds one ulp beyond it
        pool = runlevel.gen_configs('thorough', seed + 172)
        base = next((c for c in pool if c['kind'] == 'IHS' and c['space'] == 'search'), None)
        pairs = [(0.08, 3), (0.08, 6), (0.1, 7), (0.2, 11), (0.1, 14), (0.08, 12)]
        if tier == 'thorough':
            pairs = [(pm, n_) for pm in (0.08, 0.1, 0.11, 0.19, 0.2, 0.23) for n_ in range(2, 46)]
        for pm, n_ in pairs if base is not None else []:
            extra.append(dict(base, hook='observer', adv=0.0, n_iter=n_, n_agents=3, n_vars=1, n_dims=1, lb=[-2.0], ub=[3.0], box='wide',
                              objective='positive', hyper={'PAR_min': pm, 'PAR_max': 1.0}, store_best_only=True))
    if prop == 'C15':
        # AIWPSO whose initial inertia weight lies outside [w_min, w_max] on swarms that never succeed (one particle, flat
        # objective): the first adaptation step brings w into the range whatever the success count
        pool = [c for c in runlevel.gen_configs('thorough', seed + 141) if c['kind'] == 'AIWPSO']
        for j, c in enumerate(pool[:4 if tier == 'quick' else 16]):
            lo, hi = [(0.1, 0.5), (0.8, 0.95), (0.2, 0.6), (0.75, 0.9)][j % 4]
            extra.append(dict(c, hook='observer', adv=0.0, n_iter=4, n_agents=1 if j % 2 == 0 else max(2, c['n_agents']),
                              objective='sphere' if j % 2 == 0 else 'constant', hyper={'w': 0.7, 'w_min': lo, 'w_max': hi, 'c1': 1.7, 'c2': 1.7}))
    if prop == 'C03':
        # a finite penalty twenty orders of magnitude above the ordinary (negative) values, for the kinds that turn fitness into
        # selection probabilities: the task still ends
        pool_p = [c for c in runlevel.gen_configs('thorough', seed + 351) if c['space'] == 'search']
        for kind in ('ABC', 'BHA', 'HS', 'SA'):
            for c in [c for c in pool_p if c['kind'] == kind][:2 if tier == 'quick' and kind == 'ABC' else 1 if tier == 'quick' else 4]:
                extra.append(dict(c, hook='observer', adv=0.0, n_iter=8, n_agents=10, objective='hugepen', box='unit', lb=[0.0] * c['n_vars'],
                                  ub=[1.0] * c['n_vars'], hyper={}, store_best_only=False))
    if prop in ('C01', 'C02'):
        # one Opytimizer object, two tasks: the objective replaced through the `function` setter in between (boxes away from the origin)
        rng_t = _random.Random(seed * 103 + 71)
        pool_t = [c for c in runlevel.gen_configs('thorough', seed + 361) if c['space'] == 'search']
        for kind in ('PSO', 'AIWPSO', 'RPSO', 'HC', 'ABC', 'CS'):
            for c in [c for c in pool_t if c['kind'] == kind and c['objective'] not in ('view0', 'view00', 'fmax')][:1 if tier == 'quick' else 4]:
                lo = [round(rng_t.uniform(2, 7), 2) for _ in range(c['n_vars'])]
                extra.append(dict(c, hook='observer', adv=0.0, n_iter=max(c['n_iter'], 3), n_agents=max(c['n_agents'], 4), box='offset', lb=lo,
                                  ub=[l_ + 1.0 for l_ in lo], objective='sphere', hyper={}, prior=dict(same_space=True, other_objective=True, same_task=True)))
    if prop == 'C01':
        # the population replaced by freshly constructed agents (unit bounds) on a box that is not inside [0, 1], for the kinds that
        # rely on the space-wide clip
        pool_q = [c for c in runlevel.gen_configs('thorough', seed + 381) if c['space'] == 'search']
        for kind in ('PSO', 'FA', 'GSA', 'HC', 'SCA', 'WCA'):
            for c in [c for c in pool_q if c['kind'] == kind][:1 if tier == 'quick' else 4]:
                lo = [round(3.0 + 1.5 * j, 2) for j in range(c['n_vars'])]
                extra.append(dict(c, hook='observer', adv=0.3, n_iter=max(c['n_iter'], 4), n_agents=max(c['n_agents'], 4), box='offset', lb=lo,
                                  ub=[l_ + 2.0 for l_ in lo], objective='positive' if kind == 'WCA' else 'sphere', hyper={}, fresh_agents=True))
    if prop == 'C02':
        # an objective that returns the same mutable 0-d array on every call (filled in place): the best value is the one it held
        # when the best agent was evaluated
        pool_o = [c for c in runlevel.gen_configs('thorough', seed + 391) if c['space'] == 'search']
        for kind in ('SCA', 'GSA', 'FA', 'HC', 'BHA', 'SA'):
            for c in [c for c in pool_o if c['kind'] == kind][:1 if tier == 'quick' else 4]:
                extra.append(dict(c, hook='observer', adv=0.0, n_iter=max(c['n_iter'], 4), n_agents=max(c['n_agents'], 6), objective='bufout', box='wide',
                                  lb=[-10.0] * c['n_vars'], ub=[10.0] * c['n_vars'], hyper={}, store_best_only=False))
    if prop in ('C02', 'C01', 'C06'):
        # a warm start: every agent has been through its own check_limits, then only the upper bounds are re-declared (space and
        # agents, through the setters); trial solutions are clipped to the box as it is now
        pool_u = [c for c in runlevel.gen_configs('thorough', seed + 371) if c['space'] == 'search']
        for kind in ('ABC', 'FPA', 'CS', 'SA', 'HS', 'BA'):
            for c in [c for c in pool_u if c['kind'] == kind][:1 if tier == 'quick' else 4]:
                nv = max(c['n_vars'], 2)
                extra.append(dict(c, hook='observer', adv=0.0, n_iter=10, n_agents=max(c['n_agents'], 6), n_vars=nv, box='unit', lb=[0.0] * nv, ub=[1.0] * nv,
                                  objective='outside', hyper={}, store_best_only=False, shrink_ub=True))
    if prop == 'C03':
        # hooks of other callable kinds than a plain three-parameter function (written with *args, a callable object, a bound method
        # taking *args): they can take (optimizer, space, function), so they are called with them, n_iterations + 1 times
        pool_s = runlevel.gen_configs('thorough', seed + 331)
        for j_, kind in enumerate(['PSO', 'HC', 'ABC', 'GP', 'SA', 'CS']):
            for c in [c for c in pool_s if c['kind'] == kind][:1 if tier == 'quick' else 3]:
                extra.append(dict(c, hook='observer', adv=0.0, hook_sig=['varargs', 'callable', 'method'][j_ % 3]))
    if prop == 'C03':
        # the parts of a task object replaced through the public setters after construction (one task object looped over
        # objectives / spaces / optimizers): start() runs the task made of the parts it has now
        pool_q = runlevel.gen_configs('thorough', seed + 361)
        orders = [['space', 'optimizer', 'function'], ['function'], ['function', 'space'], ['optimizer'], ['space']]
        for j_, kind in enumerate(['PSO', 'HC', 'ABC', 'GP', 'SA', 'HS', 'WCA', 'BHA']):
            for q_, c in enumerate([c for c in pool_q if c['kind'] == kind][:1 if tier == 'quick' else 3]):
                extra.append(dict(c, hook='observer', adv=0.0, reassign_parts=orders[(j_ + q_) % len(orders)] if j_ % 2 else True))
        # simulated annealing whose temperature underflows to exactly 0 while the task runs (small start, quick cooling): the task
        # still ends (NumPy-number fitness; with Python numbers the division by the temperature is the recorded finding K18)
        base = next((c for c in pool_q if c['kind'] == 'SA' and c['space'] == 'search'), None)
        for T_, beta_, n_, ret in ([(1e-322, 0.5, 8, 'np'), (100.0, 1e-170, 4, 'np'), (1e-322, 0.5, 8, 'py')] if base is not None else []):
            extra.append(dict(base, hook='observer', adv=0.0, n_iter=n_, n_agents=4, hyper={'T': T_, 'beta': beta_}, rettype=ret,
                              objective='sphere', store_best_only=False))
    if prop == 'C04':
        # a hook that shifts the incumbent's position in place (its fitness untouched) on objectives where the incumbent is
        # rarely or never replaced: record t of the best agent is the best agent as it stood when iteration t ended
        pool_n = [c for c in runlevel.gen_configs('thorough', seed + 371) if c['space'] != 'tree']
        for j_, kind in enumerate(['HC', 'PSO', 'ABC', 'SA', 'FA', 'HS']):
            for c in [c for c in pool_n if c['kind'] == kind][:1 if tier == 'quick' else 3]:
                extra.append(dict(c, hook='nudgebest', adv=0.0, n_iter=max(c['n_iter'], 4), objective=['constant', 'plateau', 'sphere'][j_ % 3],
                                  store_best_only=(j_ % 2 == 1), hyper={}))
    if prop in ('C02', 'C20', 'C04'):
        # fitness values of unusual numeric classes: unsigned NumPy integers (differences wrap around), 64-bit integers and Python
        # integers beyond 2**53 (neighbouring values share one double), exact rationals - for the kinds that only compare fitness
        pool_x = [c for c in runlevel.gen_configs('thorough', seed + 381) if c['space'] == 'search']
        kinds_x = {'C02': ['SA', 'HC', 'ABC', 'HS', 'PSO', 'FA', 'CS'], 'C20': ['ABC', 'CS', 'FPA', 'HS', 'IHS', 'BA', 'HC', 'SA'], 'C04': ['HC', 'PSO', 'ABC']}[prop]
        objs_x = ['uintcost', 'bigint', 'bigpyint', 'thirds', 'longdbl', 'arr1']
        for j_, kind in enumerate(kinds_x):
            ks = [c for c in pool_x if c['kind'] == kind]
            for q_ in range((4 if kind == 'ABC' else 2) if tier == 'quick' else 6):
                if not ks:
                    break
                c = ks[q_ % len(ks)]
                nv = max(c['n_vars'], 2)
                extra.append(dict(c, hook='observer', adv=0.0, n_iter=8, n_agents=max(c['n_agents'], 6), n_vars=nv, box='wide', lb=[-10.0] * nv, ub=[10.0] * nv,
                                  objective=(['uintcost', 'arr1', 'longdbl', 'bigint'][q_ % 4] if kind == 'ABC' else objs_x[(j_ + q_ * 3) % 6]) if not (kind == 'SA' and q_ == 0) else 'uintcost', hyper={}, store_best_only=False))
    if prop == 'C20':
        # swarms on a box whose corner is the optimum and the origin: particles are clipped onto exact zeros, a personal best at the
        # origin is a personal best like any other
        pool_z = [c for c in runlevel.gen_configs('thorough', seed + 391) if c['space'] == 'search']
        for kind in ('PSO', 'AIWPSO', 'RPSO'):
            for q_, c in enumerate([c for c in pool_z if c['kind'] == kind][:4 if tier == 'quick' else 12]):
                nv = 1 if q_ % 4 else 2
                extra.append(dict(c, hook='observer', adv=0.0, n_iter=20, n_agents=8, n_vars=nv, box='wide', lb=[0.0] * nv, ub=[10.0] * nv,
                                  objective='nearorigin' if q_ % 4 else 'sphere', hyper={}, store_best_only=False))
    if prop in ('C01', 'C06'):
        # adversarial draws already while the space is built (exactly the low end, the last double below the high end) on boxes whose
        # end points are not round numbers: the initial population is evaluated unclipped
        pool_i = [c for c in runlevel.gen_configs('thorough', seed + 401) if c['space'] == 'search']
        boxes_i = [([2.13, -7.77], [9.43, -0.31]), ([0.1], [0.7]), ([-3.3, 1e-3, 5.55], [1.1, 3e-3, 5.5500001])]
        for j_, kind in enumerate(['PSO', 'HC', 'ABC', 'SA', 'FA', 'GSA']):
            for c in [c for c in pool_i if c['kind'] == kind][:1 if tier == 'quick' else 3]:
                lb_, ub_ = boxes_i[j_ % 3]
                extra.append(dict(c, hook='observer', adv=0.0, adv_init=1.0 if j_ % 2 == 0 else 0.6, n_iter=2, n_agents=6, n_vars=len(lb_), box='offset',
                                  lb=list(lb_), ub=list(ub_), objective='sphere', hyper={}, store_best_only=False))
    if prop == 'C02':
        # a variable whose bounds were declared the other way round (the library accepts it; every clip then sends it to the declared
        # upper bound): agent-level and space-level clipping agree, so nothing evaluated inside an update is lost
        pool_s = [c for c in runlevel.gen_configs('thorough', seed + 411) if c['space'] == 'search']
        for kind in ('SA', 'ABC', 'FPA', 'CS', 'HS'):
            for c in [c for c in pool_s if c['kind'] == kind][:1 if tier == 'quick' else 3]:
                extra.append(dict(c, hook='observer', adv=0.0, n_iter=8, n_agents=6, n_vars=2, box='wide', lb=[-5.0, 3.0], ub=[5.0, -1.0],
                                  objective='sphere', hyper={}, store_best_only=False))
    if prop == 'C15':
        # the ranges of the adaptive hyperparameters narrowed through the setters by a hook while the task runs
        pool_r = runlevel.gen_configs('thorough', seed + 341)
        for kind in ('IHS', 'AIWPSO'):
            for c in [c for c in pool_r if c['kind'] == kind][:2 if tier == 'quick' else 6]:
                extra.append(dict(c, hook='narrow', adv=0.0, n_iter=8, n_agents=max(c['n_agents'], 4), hyper={}, objective='sphere'))
    if prop == 'C15':
        # the iteration budget declared on the space enlarged through its setter by a hook while the task runs (after one or
        # more adaptation steps): the decaying values still never increase, the interval schedules stay inside their ranges
        pool_i = runlevel.gen_configs('thorough', seed + 351)
        for kind in ('WCA', 'FA', 'IHS', 'SA', 'AIWPSO'):
            for j, c in enumerate([c for c in pool_i if c['kind'] == kind][:2 if tier == 'quick' else 6]):
                n_it = [6, 4, 9][j % 3]
                extra.append(dict(c, hook='reiter', adv=0.0, n_iter=n_it, n_agents=max(c['n_agents'], 4), hyper={}, objective='sphere',
                                  reiter_at=[2, 1, 3][j % 3], reiter_n=[10 * n_it, n_it + 1, 3 * n_it][j % 3]))
    if prop == 'C03':
        # a hook that enlarges the population by one individual: every sweep evaluates the population as it is then
        pool_a = [c for c in runlevel.gen_configs('thorough', seed + 271) if c['space'] == 'search']
        for kind in ('HC', 'SA', 'SCA', 'FA', 'FPA', 'CS'):
            for c in [c for c in pool_a if c['kind'] == kind][:1 if tier == 'quick' else 4]:
                extra.append(dict(c, hook='append', adv=0.0, n_iter=4, n_agents=max(c['n_agents'], 3), objective='sphere', box='wide',
                                  lb=[-10.0] * c['n_vars'], ub=[10.0] * c['n_vars'], hyper={}, store_best_only=False))
    if prop in ('C02', 'C07', 'C20', 'C04'):
        # a hook that replaces the best agent by an equal new object through the public setter
        pool_b = runlevel.gen_configs('thorough', seed + 281)
        for kind in [k for k in runlevel.KINDS]:
            for c in [c for c in pool_b if c['kind'] == kind and c['objective'] not in ('view0', 'view00', 'fmax')][:1 if tier == 'quick' else 3]:
                c = dict(c, hook='rebest', adv=0.0, n_iter=max(c['n_iter'], 4), n_agents=max(c['n_agents'], 3), objective='positive' if kind == 'WCA' else 'sphere')
                if kind == 'BHA':
                    # long enough for a star to overtake the black hole several times (not a matter of the seed)
                    c.update(n_iter=30, n_agents=8, box='wide', lb=[-10.0] * c['n_vars'], ub=[10.0] * c['n_vars'])
                extra.append(c)
    if prop in ('C01', 'C13', 'C20', 'C06'):
        # the bounds of a built space re-declared through its setters (same values) before the task: hypercomplex spaces with real
        # bounds far from the unit box, kinds that clip their trial solutions through the agents' own bounds
        pool_c = [c for c in runlevel.gen_configs('thorough', seed + 291) if c['space'] == 'hyper']
        for kind in ('ABC', 'BA', 'CS', 'FPA', 'HS', 'IHS', 'SA', 'BHA'):
            for c in [c for c in pool_c if c['kind'] == kind][:1 if tier == 'quick' else 4]:
                nv = max(c['n_vars'], 2)
                extra.append(dict(c, hook='observer', adv=0.0 if prop == 'C20' else 0.3, n_iter=10, n_agents=max(c['n_agents'], 6), n_vars=nv, box='wide',
                                  lb=[-10.0] * nv, ub=[10.0] * nv, objective='outside', hyper={}, store_best_only=False, reassign_bounds=True))
        pool_d = [c for c in runlevel.gen_configs('thorough', seed + 292) if c['space'] == 'search']
        for kind in ('ABC', 'CS', 'HS', 'SA', 'PSO', 'HC'):
            for c in [c for c in pool_d if c['kind'] == kind][:1 if tier == 'quick' else 3]:
                extra.append(dict(c, hook='observer', adv=0.3, n_iter=max(c['n_iter'], 4), reassign_bounds=True))
    if prop == 'C04':
        # the store_best_only flag given as a NumPy boolean / as an int: truthiness is what counts
        pool_e = runlevel.gen_configs('thorough', seed + 301)
        for j_, kind in enumerate(['HC', 'PSO', 'ABC', 'GP', 'SA', 'AIWPSO']):
            for c in [c for c in pool_e if c['kind'] == kind][:1 if tier == 'quick' else 3]:
                extra.append(dict(c, hook='observer', adv=0.0, store_best_only=(j_ % 3 != 2), sbo_type=['np', 'int'][j_ % 2]))
    if prop == 'C03':
        # a hook that relocates an agent beyond the box: the sweep evaluates exactly what the hook left behind
        rng0 = _random.Random(seed * 59 + 37)
        pool0 = [c for c in runlevel.gen_configs('thorough', seed + 121) if c['kind'] != 'GP']
        for kind in [k for k in runlevel.KINDS if k != 'GP']:
            for c in [c for c in pool0 if c['kind'] == kind][:1 if tier == 'quick' else 5]:
                extra.append(dict(c, hook='outside', adv=0.0, n_iter=max(2, min(c['n_iter'], 4)), objective=rng0.choice(['sphere', 'positive', 'rastrigin'])))
        for j, c in enumerate([c for c in runlevel.gen_configs('thorough', seed + 78) if c['kind'] == 'GP'][:6 if tier == 'quick' else 24]):
            nv = c['n_vars']
            extra.append(dict(c, hook='observer', functions=[['EXP', 'COS', 'SUM'], ['EXP', 'SIN', 'SUM', 'MUL'], ['EXP', 'SUB', 'COS', 'SUM']][j % 3],
                              min_depth=2, max_depth=6, n_agents=20, n_terminals=2, n_iter=2, box='wide', lb=[0.0] * nv, ub=[10.0] * nv,
                              objective='sphere', adv=0.0,
                              hyper={'p_reproduction': 0.0, 'p_mutation': 0.0 if j % 2 else 0.3, 'p_crossover': 0.0, 'prunning_ratio': 0.0}))
        # every optimizer at the smallest populations it accepts (1, 2, 3 agents; WCA from its minimum), on plain
        # and on plateau / constant objectives: boundary sizes are where index draws and loops degenerate
        rng = _random.Random(seed * 29 + 13)
        pool = runlevel.gen_configs('thorough', seed + 66)
        for kind in runlevel.KINDS:
            ks = [c for c in pool if c['kind'] == kind]
            sizes = [2, 3, 4] if kind == 'WCA' else ([2, 3, 5] if kind == 'GP' else [1, 2, 3])
            for j, n_ in enumerate(sizes if tier == 'quick' else sizes * 4):
                c = dict(ks[j % len(ks)], hook='observer', n_agents=n_, n_iter=rng.choice([2, 3]), adv=0.0)
                if kind == 'WCA':
                    c['hyper'] = {'nsr': rng.randint(1, n_)}
                    c['objective'] = rng.choice(['positive', 'intval', 'constant'])
                elif kind != 'GP':
                    c['hyper'] = {}
                extra.append(c)
    if prop == 'C15':
        # adaptive kinds with degenerate ranges (min == max), an initial w outside [w_min, w_max], end points;
        # and, for every kind, one hyperparameter re-set through its setter after a dictionary construction
        rng = _random.Random(seed * 13 + 7)
        pool = runlevel.gen_configs('thorough', seed + 33)
        for kind in ('AIWPSO', 'IHS', 'SA', 'FA', 'WCA'):
            ks = [c for c in pool if c['kind'] == kind][:10 if tier == 'quick' else 40]
            for j, c in enumerate(ks):
                mode = ['degenerate', 'outside', 'ends', 'degenerate', 'random'][j % 5] if kind != 'SA' else ['underflow', 'ends', 'random', 'underflow', 'ends'][j % 5]
                c = dict(c, hook='observer', n_iter=rng.choice([1, 2, 3, 6]) if mode != 'underflow' else rng.choice([3, 6]),
                         hyper=runlevel.hyper_sample(rng, kind, c['n_agents'], mode))
                if kind == 'AIWPSO':
                    c['objective'] = rng.choice(['sphere', 'plateau', 'constant', 'rastrigin'])
                extra.append(c)
        for kind in runlevel.KINDS:
            ks = [c for c in pool if c['kind'] == kind][10:12 if tier == 'quick' else 16]
            if kind in ('IHS', 'AIWPSO'):
                ks = [c for c in pool if c['kind'] == kind][10:16 if tier == 'quick' else 30]
            for c in ks:
                h = runlevel.hyper_sample(rng, kind, c['n_agents'], 'random')
                c = dict(c, hook='observer', hyper=h, hyper_post=runlevel.hyper_post_sample(rng, kind, c['n_agents'], h))
                if kind in ('IHS', 'AIWPSO'):
                    c['n_iter'] = rng.choice([3, 6])
                extra.append(c)
    if prop == 'C07':
        # replacements by copy are rare events (ABC scout accepted, HS replace-worst, BHA exchange, GP
        # reproduction): extra runs of exactly those kinds, long enough for the event to happen
        rng = _random.Random(seed * 31 + 5)
        pool = [c for c in runlevel.gen_configs('thorough', seed + 91) if c['kind'] in ('ABC', 'HS', 'IHS', 'BHA', 'GP', 'CS')]
        for kind in ('ABC', 'HS', 'IHS', 'BHA', 'GP', 'CS'):
            ks = [c for c in pool if c['kind'] == kind][:8 if tier == 'quick' else 30]
            for c in ks:
                c = dict(c, hook='observer', n_iter=8 if kind != 'GP' else c['n_iter'])
                if kind == 'ABC':
                    c['hyper'] = {'n_trials': rng.choice([1, 2])}
                    c['n_vars'] = max(c['n_vars'], 2)
                    if len(c['lb']) < c['n_vars']:
                        c['lb'], c['ub'] = runlevel.make_box(rng, c['box'], c['n_vars'])
                    c['objective'] = rng.choice(['boundary', 'signchange', 'positive'])
                if kind == 'BHA':
                    # several stars overtaking the black hole in one generation (two exchanges in a row)
                    # (objectives that are not monotone along the segment star -> black hole)
                    c['n_agents'] = rng.choice([8, 12])
                    c['n_iter'] = 10
                    c['objective'] = rng.choice(['sphere', 'rastrigin', 'boundary', 'outside'])
                    c['box'] = 'wide'
                    c['lb'], c['ub'] = runlevel.make_box(rng, 'wide', c['n_vars'])
                extra.append(c)
    if prop in ('C07', 'C01'):
        # before the task: the incumbent reset to a default agent (another shape) / the bounds re-declared as column arrays
        pool_v = [c for c in runlevel.gen_configs('thorough', seed + 401) if c['space'] == 'search']
        for j_, kind in enumerate(['HC', 'SA', 'FA', 'SCA', 'PSO', 'ABC', 'GSA', 'BHA']):
            for c in [c for c in pool_v if c['kind'] == kind][:1 if tier == 'quick' else 3]:
                nv = max(c['n_vars'], 2)
                base = dict(c, hook='observer', adv=0.0, n_iter=max(c['n_iter'], 4), n_agents=max(c['n_agents'], 4), n_vars=nv, box='wide', lb=[-10.0] * nv,
                            ub=[10.0] * nv, objective='sphere', hyper={}, store_best_only=False)
                if kind not in ('PSO',):
                    extra.append(dict(base, reset_best=True))
                extra.append(dict(base, reassign_bounds='column', adv=0.3))
    if prop == 'C07':
        # sweeps in which no agent gets a finite value (+inf penalties everywhere / on most of the box), small populations: whatever
        # the optimizer falls back on, nothing shares storage with anything else
        pool = [c for c in runlevel.gen_configs('thorough', seed + 231) if c['space'] == 'search']
        for kind in ('HC', 'BHA', 'SCA', 'FA', 'SA', 'GSA'):
            for j_, c in enumerate([c for c in pool if c['kind'] == kind][:2 if tier == 'quick' else 6]):
                extra.append(dict(c, hook='observer', adv=0.0, n_iter=3, n_agents=[1, 3, 2][j_ % 3], box='wide', lb=[-4.0] * c['n_vars'],
                                  ub=[6.0] * c['n_vars'], objective=['allinf', 'infpen'][j_ % 2], hyper={}, store_best_only=False))
    if prop in ('C20', 'C07'):
        # large colonies / populations (rules that scale with the population size — a share of scouts, of nests abandoned, of
        # harmonies — only differ from 'one' from a certain size on), with exhaustion reached quickly
        rng = _random.Random(seed * 79 + 53)
        pool = [c for c in runlevel.gen_configs('thorough', seed + 221) if c['space'] == 'search']
        for kind in ('ABC', 'CS', 'FPA', 'HS', 'IHS', 'PSO'):
            for j_, c in enumerate([c for c in pool if c['kind'] == kind][:2 if tier == 'quick' else 6]):
                nv = max(c['n_vars'], 2)
                c = dict(c, hook='observer', adv=0.0, n_iter=12, n_agents=[24, 40][j_ % 2], n_vars=nv, box='wide', objective=['rastrigin', 'sphere'][j_ % 2],
                         hyper={'n_trials': 1 + j_ % 3} if kind == 'ABC' else {}, store_best_only=False)
                c['lb'], c['ub'] = runlevel.make_box(rng, 'wide', nv)
                extra.append(c)
    if prop in ('C20', 'C02'):
        # a lattice start: positions assigned as integer-typed arrays before the task (what is stored later is what was computed)
        rng = _random.Random(seed * 89 + 61)
        pool = [c for c in runlevel.gen_configs('thorough', seed + 251) if c['space'] == 'search']
        for kind in ('PSO', 'AIWPSO', 'RPSO', 'HC', 'ABC', 'CS', 'FPA', 'HS'):
            for c in [c for c in pool if c['kind'] == kind][:1 if tier == 'quick' else 4]:
                nv = max(c['n_vars'], 2)
                extra.append(dict(c, hook='observer', adv=0.0, n_iter=6, n_agents=max(c['n_agents'], 5), n_vars=nv, box='wide', lb=[-10.0] * nv,
                                  ub=[10.0] * nv, objective='sphere', hyper={}, store_best_only=False, int_start=True))
                if kind in ('ABC', 'CS', 'FPA', 'HS'):
                    # (an optimum at the upper bounds: what is stored rounded towards zero is worse than what was evaluated)
                    extra.append(dict(c, hook='observer', adv=0.0, n_iter=10, n_agents=max(c['n_agents'], 6), n_vars=nv, box='wide', lb=[-10.0] * nv,
                                      ub=[10.0] * nv, objective='boundary', hyper={}, store_best_only=False, int_start=True))
    if prop == 'C20':
        # the greedy kinds on a hypercomplex space with real bounds far from the unit box (the usual set-up: the bounds are only
        # consumed by span inside the objective), long enough for an out-of-box trial to be a matter of course
        rng = _random.Random(seed * 97 + 67)
        pool = [c for c in runlevel.gen_configs('thorough', seed + 261) if c['space'] == 'hyper']
        for kind in ('ABC', 'CS', 'FPA', 'HS', 'IHS'):
            for c in [c for c in pool if c['kind'] == kind][:1 if tier == 'quick' else 4]:
                nv = max(c['n_vars'], 2)
                extra.append(dict(c, hook='observer', adv=0.0, n_iter=12, n_agents=max(c['n_agents'], 8), n_vars=nv, n_dims=max(c['n_dims'], 2), box='wide',
                                  lb=[-10.0] * nv, ub=[10.0] * nv, objective='outside', hyper={}, store_best_only=False))
    if prop == 'C20':
        # greedy kinds on objectives whose unconstrained optimum lies outside the box: a trial accepted on an
        # out-of-box value would be clipped and re-evaluated to something worse
        rng = _random.Random(seed * 19 + 11)
        pool = [c for c in runlevel.gen_configs('thorough', seed + 44) if c['kind'] in ('ABC', 'CS', 'FPA', 'HS', 'IHS', 'PSO', 'AIWPSO', 'RPSO')]
        for kind in ('ABC', 'CS', 'FPA', 'HS', 'IHS', 'PSO', 'AIWPSO', 'RPSO'):
            for j_, c in enumerate([c for c in pool if c['kind'] == kind][:5 if tier == 'quick' else 25]):
                box = rng.choice(['unit', 'offset', 'narrow'])
                c = dict(c, hook='observer', n_iter=rng.choice([3, 6]), objective=rng.choice(['outside', 'boundary']), box=box)
                if j_ < 2:
                    # two long runs per kind on larger populations with several variables (so that the event does not depend on the seed):
                    # out-of-box trial solutions that look better than anything inside are then a matter of course
                    c.update(n_iter=12, n_agents=max(c['n_agents'], 8), n_vars=max(c['n_vars'], 2), objective='outside', adv=0.0,
                             box=['unit', 'offset'][j_], store_best_only=False)
                    box = c['box']
                c['lb'], c['ub'] = runlevel.make_box(rng, box, c['n_vars'])
                extra.append(c)
    return extra


def repeated_start_issues(kinds=('PSO', 'HC', 'ABC', 'SA')):
    """the same Opytimizer started several times, with and without a hook that takes (scripted) time: every start
    adds exactly one non-negative elapsed-time entry to the history it returns"""
    import lib
    L = lib.load()
    np = L['np']
    import opytimizer.opytimizer as om
    issues = []
    real = om.time.time
    for kind in kinds:
        np.random.seed(7)
        sp = L['SearchSpace'](n_agents=3, n_variables=2, n_iterations=2, lower_bound=[-1, -1], upper_bound=[1, 1])
        task = L['Opytimizer'](space=sp, optimizer=L['kinds'][kind](), function=L['Function'](pointer=lambda x: float(np.sum(x ** 2))))
        tick = [1000.0]

        def clock():
            tick[0] += 1.0
            return tick[0]

        def slow_hook(o, s_, f):
            for _ in range(5):
                om.time.time()
        om.time.time = clock
        try:
            hs = [task.start(pre_evaluation_hook=slow_hook), task.start(), task.start(pre_evaluation_hook=slow_hook), task.start()]
        except Exception as ex:
            issues.append(dict(what='repeated-start-raised', layer='oracle', cfg_kind=kind, error=repr(ex)[:120],
                               replay=dict(how='repeated-start', kind=kind)))
            continue
        finally:
            om.time.time = real
        # the flag is an argument of each start(): a task started without it records everything, whatever an earlier start on the
        # same object was given
        try:
            om.time.time = clock
            ha = task.start(store_best_only=True)
            hb = task.start()
            if not hasattr(hb, 'agents') or hasattr(ha, 'agents'):
                issues.append(dict(what='store-best-only-carried-over', layer='oracle', cfg_kind=kind, first=sorted(vars(ha)), second=sorted(vars(hb)),
                                   replay=dict(how='repeated-start', kind=kind)))
        except Exception as ex:
            issues.append(dict(what='repeated-start-raised', layer='oracle', cfg_kind=kind, error=repr(ex)[:120], replay=dict(how='repeated-start', kind=kind)))
        finally:
            om.time.time = real
        for j, h in enumerate(hs):
            tm = getattr(h, 'time', None)
            if not (isinstance(tm, list) and len(tm) == 1 and isinstance(tm[0], (int, float)) and tm[0] >= 0):
                issues.append(dict(what='time', layer='oracle', cfg_kind=kind, start=j, value=repr(tm)[:60],
                                   replay=dict(how='repeated-start', kind=kind)))
                break
    return issues


from runlevel import fnum


def plain_gp_issues(seeds=range(8)):
    """GP tasks run *without any tap* (the recorder itself evaluates trees, which would trigger — and thereby hide — an
    evaluation that has side effects on shared terminal arrays): at return and in the returned records every agent's position is
    its tree's value limited to the box, its fitness the objective there, and best tree / best position / best fitness agree"""
    import lib
    L = lib.load()
    np = L['np']
    issues = []
    boxes = [([-5.0, 0.0], [5.0, 5e-11]), ([0.0], [5e-11]), ([-10.0, -10.0], [10.0, 10.0]), ([1e-9, 5e-9], [2e-9, 6e-9]),
             ([0.0], [5000.0]), ([-5000.0, 0.0], [5000.0, 800.0])]
    funcsets = {4: ['EXP', 'SUM', 'MUL'], 5: ['EXP', 'SUB', 'COS', 'SUM']}
    for sd in seeds:
        lb, ub = boxes[sd % len(boxes)]
        nv = len(lb)

        def objective(x):
            with np.errstate(all='ignore'):
                return float(np.sum((np.asarray(x, dtype=float) * 1e3 - 1.0) ** 2))

        def clip(v):
            v = np.array(v, dtype=float)
            for j in range(nv):
                v[j] = np.clip(v[j], lb[j], ub[j])
            return v
        rp = dict(how='plain-gp', seed=int(sd))
        sp = None
        np.random.seed(1000 + sd)
        try:
            sp = L['TreeSpace'](n_trees=10, n_terminals=2, n_variables=nv, n_iterations=1 + sd % 5, min_depth=1, max_depth=3,
                                functions=funcsets.get(sd % len(boxes), ['SUM', 'SUB', 'MUL', 'DIV']), lower_bound=lb, upper_bound=ub)
            gp = L['kinds']['GP'](hyperparams={'p_reproduction': 0.3, 'p_mutation': 0.3, 'p_crossover': 0.3, 'prunning_ratio': 0.0})
            h = L['Opytimizer'](space=sp, optimizer=gp, function=L['Function'](pointer=objective)).start()
        except Exception as ex:
            import traceback as _tb
            frames_ = [fr.name for fr in _tb.extract_tb(ex.__traceback__)]
            nan_fit = False
            try:
                nan_fit = any(fnum(a_.fit) != fnum(a_.fit) for a_ in sp.agents)
            except Exception:
                pass
            if isinstance(ex, IndexError) and 'tournament_selection' in frames_ and nan_fit:
                # the recorded finding K4 (a NaN fitness - inf - inf in an overflowing tree - leaves the tournament without a
                # winner): outside what C12 claims (finite tree values); K4's own witness is replayed by the C01 / C03 checks
                continue
            issues.append(dict(what='plain-gp-raised', layer='oracle', cfg_kind='GP', error=repr(ex)[:120], replay=rp))
            continue
        bad = None
        if len(sp.trees) != 10 or len(sp.agents) != 10:
            bad = 'population size changed'
        for i, (t, a) in enumerate(zip(sp.trees, sp.agents)):
            if bad:
                break
            e_ = clip(t.position)
            if e_.shape != a.position.shape or not np.array_equal(e_, a.position, equal_nan=True):
                bad = f'agent {i} is not its tree at return'
            elif not np.isnan(a.fit) and objective(a.position) != a.fit:
                bad = f'agent {i}: fitness is not the objective at its position'
        if not bad and not np.array_equal(clip(sp.best_tree.position), sp.best_agent.position, equal_nan=True):
            bad = 'best tree is not the best position at return'
        if not bad:
            for t_, (tree, rec) in enumerate(zip(getattr(h, 'best_tree', []), getattr(h, 'best_agent', []))):
                pos = np.asarray(rec[0], dtype=float)
                if not np.array_equal(clip(tree.position), pos, equal_nan=True) or objective(pos) != rec[1]:
                    bad = f'record {t_}: best tree, best position and best fitness disagree'
                    break
        if bad:
            issues.append(dict(what='plain-gp-inconsistent', layer='oracle', cfg_kind='GP', detail=bad, lb=lb, ub=ub, replay=rp))
    return issues


def check(ctx):
    prop, tier, seed = ctx['prop'], ctx['tier'], ctx['seed']
    res = runpass.cached_pass(tier, seed)
    res = dict(res, runs=list(res['runs']))
    # property-specific extra runs (not shared): rare sites and settings of this property
    extra = extra_configs(prop, tier, seed)
    if extra:
        drv = common.Driver()
        try:
            n_light = 0
            for c in extra:
                # (a share of the extra runs is repeated without the recorder: all GP runs, every third other one)
                lt = prop in ('C01', 'C02', 'C03', 'C04', 'C07', 'C12', 'C20') and (c['kind'] == 'GP' or n_light % 3 == 0)
                n_light += 1
                res['runs'].append(runpass.analyse_run(c, drv, props=[prop], light=lt))
        finally:
            drv.close()
    issues = collect(prop, res)
    if prop == 'C04':
        issues += repeated_start_issues()
    if prop == 'C12':
        issues += plain_gp_issues(range(12 if tier == 'quick' else 60))
    runs = res['runs']
    nt = [r for r in runs if nontrivial(prop, r)]
    distinct = len({json.dumps(r['cfg'], sort_keys=True) for r in nt})
    kinds = {}
    for r in runs:
        kinds[r['cfg']['kind']] = kinds.get(r['cfg']['kind'], 0) + 1
    dist = dict(by_kind=kinds,
                by_space={k: sum(1 for r in runs if r['cfg']['space'] == k) for k in ('search', 'hyper', 'tree')},
                by_box={k: sum(1 for r in runs if r['cfg']['box'] == k) for k in sorted({r['cfg']['box'] for r in runs})},
                by_objective={k: sum(1 for r in runs if r['cfg']['objective'] == k) for k in sorted({r['cfg']['objective'] for r in runs})},
                adversarial_runs=sum(1 for r in runs if r['cfg']['adv'] > 0),
                adversarial_draws_moved=sum(r.get('adv_hits', 0) for r in runs),
                mutating_hook_runs=sum(1 for r in runs if r['cfg']['hook'] != 'observer'),
                machine_events=sum(r['machine'].get('stats', {}).get('events', 0) for r in runs),
                machine_trials=sum(r['machine'].get('stats', {}).get('trials', 0) for r in runs),
                machine_sweeps=sum(r['machine'].get('stats', {}).get('sweeps', 0) for r in runs),
                machine_ties=sum(r['machine'].get('stats', {}).get('ties', 0) for r in runs),
                machine_swaps=sum(r['machine'].get('stats', {}).get('swaps', 0) for r in runs),
                runs_with_exception=sum(1 for r in runs if r['error'] is not None))
    stat_tot = {}
    for r in runs:
        for k, v in r['stats'].get(prop, {}).items():
            if isinstance(v, (int, float)):
                stat_tot[k] = stat_tot.get(k, 0) + v
    samples = [dict(cfg={k: v for k, v in r['cfg'].items()}, stats=r['stats'].get(prop, {}),
                    machine=r['machine'].get('stats', {})) for r in (nt[:2] + runs[:1])]
    comp_extra = {}
    if prop == 'C03':
        from comp import Comp
        from props import c03_components
        C = Comp(ctx, '')
        drv = common.Driver()
        try:
            c03_components.run(C, drv)
        finally:
            drv.close()
        issues += C.issues
        comp_extra = dict(component_cases=C.cases, component_nontrivial=len(C.nontrivial), component_distribution=C.dist)
    cov = dict(evaluations=len(runs), distinct_nontrivial=distinct, rule=RULES[prop], samples=samples,
               traces_validated_against_impl=sum(1 for r in runs if r['machine'].get('stats', {}).get('events', 0) > 0),
               input_distribution=dist, oracle_totals=stat_tot, pass_wall_s=round(res['wall'], 1), exhaustive=False)
    cov['runs_replayed_on_task_model'] = sum(1 for r in runs if (r['machine'].get('task') or {}).get('replayed'))
    cov['task_model_records_compared'] = sum((r['machine'].get('task') or {}).get('records', 0) for r in runs)
    lights = [r['light'] for r in runs if r.get('light')]
    if lights:
        cov['runs_repeated_without_recorder'] = len(lights)
        cov['of_which_same_end_state'] = sum(1 for l_ in lights if l_.get('same', True))
    cov.update(comp_extra)
    return dict(issues=issues, coverage=cov, assumptions=ASSUME[prop])


def kinds_from(corr_broken, broken):
    ks = set()
    for i in corr_broken:
        if i.get('cfg_kind'):
            ks.add(i['cfg_kind'])
    for name, why in broken:
        for k in runpass_kinds():
            if f'skel_{k}_good' in str(name) or f'{k}.' in str(why) or f'"{k}.' in str(why):
                ks.add(k)
    return ks


def runpass_kinds():
    import runlevel
    return runlevel.KINDS


def search(ctx, corr_broken, broken):
    """failing-input search: direct oracles on the real code, adversarial draws, implicated kinds first"""
    import runlevel
    prop = ctx['prop']
    kinds = kinds_from(corr_broken, broken)
    drv = common.Driver() if os.path.exists(common.DRIVER) else None
    try:
        # (1) the disagreeing inputs themselves and shrunk variants
        seeds = []
        for i in corr_broken[:6]:
            cfg = i.get('replay', {}).get('cfg')
            if cfg:
                seeds.append(cfg)
                small = dict(cfg, n_iter=1)
                seeds.append(small)
        for cfg in seeds:
            r = runpass.analyse_run(cfg, drv, props=[prop]) if drv else None
            if r:
                for i in r['issues'][prop]:
                    if i['what'] not in CORR_WHATS and not i.get('known'):
                        i['replay'] = dict(how='runlevel', cfg=cfg, what=i['what'])
                        return i
        # (2) the property's generator, thorough budget, adversarial draws forced on
        cfgs = extra_configs(prop, 'thorough', ctx['seed'] + 1000) + runlevel.gen_configs('thorough', ctx['seed'] + 1000)
        if kinds:
            cfgs = [c for c in cfgs if c['kind'] in kinds] + [c for c in cfgs if c['kind'] not in kinds][:200]
        else:
            cfgs = cfgs[:900]
        for c in cfgs:
            c = dict(c)
            if c['adv'] == 0.0:
                c['adv'] = 0.4
            if prop in ('C02', 'C07', 'C20'):
                c['hook'] = 'observer'
            r = runpass.analyse_run(c, drv, props=[prop]) if drv else None
            if r:
                for i in r['issues'][prop]:
                    if i['what'] not in CORR_WHATS and not i.get('known'):
                        i['replay'] = dict(how='runlevel', cfg=c, what=i['what'])
                        return i
    finally:
        if drv:
            drv.close()
    return None


def replay(prop, payload):
    if payload.get('how') == 'repeated-start':
        return bool(repeated_start_issues((payload['kind'],)))
    if payload.get('how') == 'plain-gp':
        return bool(plain_gp_issues([payload['seed']]))
    drv = common.Driver()
    try:
        w_ = payload.get('what') or ''
        r = runpass.analyse_run(payload['cfg'], drv, props=[prop], light=(w_.startswith('light-') or w_ == 'recorder-changes-the-run'))
    finally:
        drv.close()
    if (payload.get('what') or '') == 'recorder-changes-the-run':
        return bool(r.get('light')) and not r['light'].get('same', True)
    want = payload.get('what')
    got = [i for i in r['issues'][prop] if not i.get('known')]
    if want and want.startswith('machine:'):
        return bool(r['machine']['issues'])
    return any(i['what'] == want for i in got) if want else bool(got)
