"""C03, component part: the fitness normalisers of GSA / BHA / WCA and the ABC onlooker loop against
their Lean models (Model/Normalise.lean, Model/Onlooker.lean)."""
import common, lib
from common import enc_bits, dec_bits, fbits, bits2f


def run(C, drv):
    L = lib.load()
    np = L['np']
    Agent = L['Agent']
    import opytimizer.math.random as r
    reps = 80 if C.ctx['tier'] == 'quick' else 1200
    gsa, wca = L['kinds']['GSA'](), None
    for k in range(reps):
        n = C.rng.randint(1, 7)
        mode = C.rng.choice(['rand', 'equal', 'neg', 'ties', 'tiny-range'])
        if mode == 'equal':
            fits = [C.rng.choice([0.0, 3.0, -2.5])] * n
        elif mode == 'neg':
            fits = sorted(C.rng.uniform(-50, -1) for _ in range(n))
        elif mode == 'ties':
            fits = sorted(float(C.rng.choice([1, 2, 3])) for _ in range(n))
        elif mode == 'tiny-range':
            b = C.rng.uniform(-5, 5)
            fits = sorted(b + C.rng.choice([0.0, 1e-10, 2e-10, 1e-12]) for _ in range(n))
        else:
            fits = sorted(C.rng.uniform(-10, 100) for _ in range(n))
        ags = [Agent() for _ in range(n)]
        for a, f in zip(ags, fits):
            a.fit = f
        rp = dict(how='gsa-mass', fits=fits)
        try:
            out = np.asarray(gsa._calculate_mass(ags), dtype=float)
        except Exception as ex:
            C.issue('normaliser-raised', 'oracle', rp, error=type(ex).__name__)
            continue
        if not np.all(np.isfinite(out)):
            C.issue('normaliser-not-finite', 'oracle', rp, out=out.tolist())
        elif np.any(out < 0) or np.any(out >= 1):
            C.issue('mass-out-of-range', 'oracle', rp, out=out.tolist())
        o = drv.ask(f'n.gsamass {enc_bits(fits)}')
        if [int(t) for t in o.split(',')] != [fbits(x) for x in out]:
            m = dec_bits(o)
            if not all(abs(a - b) <= 1e-12 * (1 + abs(a) + abs(b)) for a, b in zip(m, out)):
                C.issue('gsa-mass-mismatch', 'correspondence', rp, model=m, real=out.tolist())
        C.case(key=('gsa', tuple(fits)), nontrivial=mode != 'rand', kind='gsa-' + mode)
    # WCA flow intensities (positive fitness: the working range)
    for k in range(reps):
        n = C.rng.randint(2, 9)
        nsr = C.rng.randint(1, n)
        fits = sorted(C.rng.choice([1.0, 2.0, 0.5, 7.0]) if C.rng.random() < 0.4 else C.rng.uniform(0.01, 50) for _ in range(n))
        ags = [Agent() for _ in range(n)]
        for a, f in zip(ags, fits):
            a.fit = f
        w = L['kinds']['WCA'](hyperparams={'nsr': nsr})
        rp = dict(how='wca-flows', fits=fits, nsr=nsr)
        try:
            flows = [int(x) for x in w._flow_intensity(ags)]
        except Exception as ex:
            C.issue('normaliser-raised', 'oracle', rp, error=type(ex).__name__)
            continue
        if any(f < 0 for f in flows) or sum(flows[1:]) > n:
            C.issue('flows-do-not-fit-population', 'oracle', rp, flows=flows)
        o = drv.ask(f'n.wcaflow {nsr} {n} {enc_bits(fits)}')
        model = [round(x) for x in dec_bits(o)]
        if model != flows:
            C.issue('wca-flow-mismatch', 'correspondence', rp, model=model, real=flows)
        C.case(key=('wca', nsr, tuple(fits)), nontrivial=nsr > 1, kind='wca-flows')
    # ABC onlooker loop: selection bits observed from outside, selections against the model and the budget
    abc = L['kinds']['ABC']()
    for k in range(reps // 2):
        n = C.rng.randint(1, 7)
        np.random.seed(C.rng.randrange(1 << 30))
        sp = L['SearchSpace'](n_agents=n, n_variables=2, n_iterations=1, lower_bound=[-5, -5], upper_bound=[5, 5])
        obj = C.rng.choice(['pos', 'neg', 'sign', 'zero'])
        f = {'pos': lambda x: float(np.sum(x ** 2)) + 0.1, 'neg': lambda x: -float(np.sum(x ** 2)) - 0.1,
             'sign': lambda x: float(np.sum(x)), 'zero': lambda x: 0.0}[obj]
        fn = L['Function'](pointer=f)
        for a in sp.agents:
            a.fit = f(a.position)
        trials = np.zeros(n)
        visits = []
        orig_u, orig_e = r.generate_uniform_random_number, abc._evaluate_location

        def tap_u(*a, **kw):
            if len(a) == 2 and a[0] == 0 and a[1] == 1 and not kw:
                visits.append(0)
            return orig_u(*a, **kw)

        def tap_e(*a, **kw):
            if visits:
                visits[-1] = 1
            return orig_e(*a, **kw)
        r.generate_uniform_random_number = tap_u
        abc._evaluate_location = tap_e
        rp = dict(how='abc-onlooker', n=n, objective=obj)
        try:
            import signal
            def on_alarm(s_, fr):
                raise TimeoutError()
            old = signal.signal(signal.SIGALRM, on_alarm)
            signal.setitimer(signal.ITIMER_REAL, 10)
            try:
                abc._send_onlooker(sp.agents, fn, trials)
            finally:
                signal.setitimer(signal.ITIMER_REAL, 0)
                signal.signal(signal.SIGALRM, old)
        except TimeoutError:
            C.issue('onlooker-loop-does-not-terminate', 'oracle', rp)
            continue
        finally:
            r.generate_uniform_random_number = orig_u
            abc._evaluate_location = orig_e
        sel = sum(visits)
        passes = [visits[i:i + n] for i in range(0, len(visits), n)]
        if not (n <= sel <= 2 * n - 1) or len(visits) % n != 0:
            C.issue('onlooker-budget', 'oracle', rp, selections=sel, visits=len(visits))
        o = drv.ask(f"o.run {n} {';'.join(common.enc_ints(p) for p in passes)}")
        if o != str(sel):
            C.issue('onlooker-mismatch', 'correspondence', rp, model=o, real=sel)
        C.case(key=('onl', n, obj, tuple(visits)), nontrivial=len(passes) > 1, kind='abc-onlooker-' + obj)
