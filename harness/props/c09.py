"""C09 — GP mutation, crossover and reproduction perform the subtree operations they name."""
import collections, copy, random
import common, lib, treeutil as T, gpops
from comp import Comp
from props.c08 import op_kinds


def check_cross(C, drv, gp, fa, mo, pf, pm, np, parents=None, hist=None):
    terms = [np.array([[0.25]]), np.array([[0.75]])]
    if parents is not None:
        father, mother = parents
    else:
        father = T.build(fa, terminals=terms, term_ids=[0, 1])
        mother = T.build(mo, ops=['COS' if s == 'U' else 'MUL' for s in op_kinds(mo)], terminals=terms, term_ids=[1, 0])
    # parents have usually been traversed / measured before they are crossed (as in a GP run)
    _ = (father.pre_order, father.n_nodes, mother.pre_order, mother.n_nodes)
    nf, nm = father.n_nodes, mother.n_nodes
    fb, mb = T.canon(father), T.canon(mother)
    fids, mids = gpops.node_ids(father), gpops.node_ids(mother)
    fstruct, mstruct = gpops.struct(father), gpops.struct(mother)
    sf, sm = gpops.slot_of(father, pf), gpops.slot_of(mother, pm)
    sc = gpops.Script(C.rng, forced=[pf, pm]).install()
    try:
        o1, o2 = gp._cross(father, mother, nf, nm)
    except AttributeError:
        return
    finally:
        sc.remove()
    rp = dict(how='cross', father=T.enc_tree(father), mother=T.enc_tree(mother), pf=pf, pm=pm)
    if father is mother:
        rp['same_object'] = True
    if hist:
        # the parents are offspring of earlier crossovers: the replay re-runs the whole history
        rp['history'] = list(hist)
    # model
    out = drv.ask(f't.cross {T.enc_tree(father)} {T.enc_tree(mother, base=100)} {pf} {pm}')
    real = T.canon(o1) + ' ' + T.canon(o2)
    if out != real:
        C.issue('cross-mismatch', 'correspondence', rp, model=out[:300], real=real[:300])
    # the method as the translator read it (test + field writes), run on the heap of the two copies by the Lean semantics
    wout = drv.ask(f'w.cross {T.enc_tree(father)} {T.enc_tree(mother, base=100)} {pf} {pm}')
    if wout != real:
        C.issue('translated-cross-mismatch', 'correspondence', rp, model=wout[:300], real=real[:300])
    C.extra['translated_operator_runs'] = C.extra.get('translated_operator_runs', 0) + 1
    # definition: exactly the selected slots exchanged (or plain copies when a slot is missing)
    if sf is not None and sm is not None:
        fsub = gpops.struct(sf[0].left if sf[1] else sf[0].right)
        msub = gpops.struct(sm[0].left if sm[1] else sm[0].right)
        e1 = gpops.replace_slot(father, sf[0], sf[1], msub)
        e2 = gpops.replace_slot(mother, sm[0], sm[1], fsub)
    else:
        e1, e2 = fstruct, mstruct
    if gpops.struct(o1) != e1 or gpops.struct(o2) != e2:
        C.issue('crossover-wrong-result', 'oracle', rp, got=[gpops.struct(o1), gpops.struct(o2)], expected=[e1, e2])
    # two *new* trees, parents untouched, multiset conserved
    if o1 is father or o2 is mother or set(gpops.node_ids(o1) + gpops.node_ids(o2)) & set(fids + mids):
        C.issue('offspring-not-new', 'oracle', rp)
    if o1 is o2 or set(gpops.node_ids(o1)) & set(gpops.node_ids(o2)):
        C.issue('offspring-share-nodes', 'oracle', rp)
    if T.canon(father) != fb or T.canon(mother) != mb or gpops.node_ids(father) != fids or gpops.node_ids(mother) != mids:
        C.issue('crossover-changed-parent', 'oracle', rp)
    if gpops.labels(o1) + gpops.labels(o2) != gpops.labels(father) + gpops.labels(mother):
        C.issue('multiset-not-conserved', 'oracle', rp)
    exchanged = sf is not None and sm is not None
    C.case(key=('cross', fb, mb, pf, pm), nontrivial=exchanged, kind=('cross-exchange' if exchanged else 'cross-no-slot') + ('-gen2' if parents is not None else ''),
           sample=dict(rp, offspring=real) if exchanged and nf >= 4 and nm >= 4 else None)
    o1._c09_hist = o2._c09_hist = (hist or []) + [dict(father=rp['father'], mother=rp['mother'], pf=pf, pm=pm)]
    return o1, o2


def term_values(root, skip):
    """(path, copy of the value) of every terminal, in pre-order, leaving out the subtree hanging in slot `skip` =
    (path of the slot's parent, is-left)"""
    out = []

    def go(n, path):
        if n is None:
            return
        if n.type == 'TERMINAL':
            out.append((path, None if n.value is None else lib.load()['np'].array(n.value, copy=True)))
            return
        for side, ch in (('L', n.left), ('R', n.right)):
            if skip is not None and skip == (path, side == 'L'):
                continue
            go(ch, path + side)
    go(root, '')
    return out


def check_mutate(C, drv, gp, s, p):
    L = lib.load()
    np_ = L['np']
    sc = gpops.Script(C.rng).install()
    try:
        sp = gpops.make_space(C.rng, n_trees=1)
        # the parent's terminals either still are the space's terminal arrays (a tree straight out of grow) or private copies
        # (a tree that went through reproduction / crossover / mutation before)
        aliasing = C.rng.random() < 0.5
        tree = T.build(s, terminals=[t.position if aliasing else np_.array(t.position, copy=True) for t in sp.terminals],
                       term_ids=list(range(sp.n_terminals)))
        before = T.canon(tree)
        vals_before = term_values(tree, None)
        ids = gpops.node_ids(tree)
        slot = gpops.slot_of(tree, p)
        sc.forced = [p]
        sc.log.clear()
        try:
            res = gp._mutate(sp, tree, tree.n_nodes)
        except AttributeError:
            return
        draws = [d for _, _, d in sc.log][1:]
    finally:
        sc.remove()
    rp = dict(how='mutate', tree=T.enc_tree(tree), point=p, functions=sp.functions, n_terminals=sp.n_terminals,
              min_depth=sp.min_depth, max_depth=sp.max_depth, draws=draws)
    branch = gpops.model_grow(drv, sp, draws, sp.max_depth - sp.min_depth) if draws else None
    if branch is not None:
        out = drv.ask(f't.mutate {T.enc_tree(tree)} {p} {T.reoffset(branch, 1000)}')
        if out != T.canon(res):
            C.issue('mutate-mismatch', 'correspondence', rp, model=out[:300], real=T.canon(res)[:300])
        wout = drv.ask(f'w.mutate {T.enc_tree(tree)} {p} {T.reoffset(branch, 1000)}')
        if wout != T.canon(res):
            C.issue('translated-mutate-mismatch', 'correspondence', rp, model=wout[:300], real=T.canon(res)[:300])
        C.extra['translated_operator_runs'] = C.extra.get('translated_operator_runs', 0) + 1
    # definition: a copy in which only the selected slot is replaced by a freshly grown subtree
    if slot is not None:
        got = gpops.struct(res)
        # the grown branch is whatever hangs in the slot of the result; everything else must equal the parent
        q_path = path_to(tree, slot[0])
        rq = follow(res, q_path)
        if rq is None:
            C.issue('mutation-wrong-result', 'oracle', rp, why='slot parent missing in result')
        else:
            grown = gpops.struct(rq.left if slot[1] else rq.right)
            if gpops.replace_slot(tree, slot[0], slot[1], grown) != got:
                C.issue('mutation-wrong-result', 'oracle', rp, why='something outside the slot changed')
            gb = rq.left if slot[1] else rq.right
            if gb is None or T.wf_oracle_sub(gb) or gb.max_depth > sp.max_depth:
                C.issue('mutation-branch-not-grown', 'oracle', rp)
    # … values included: every terminal outside the slot carries the value the parent's terminal had when _mutate was called
    if slot is not None:
        sk = (path_to(tree, slot[0]) or '', bool(slot[1]))
        want = [(pa, v) for pa, v in vals_before if not in_slot(pa, sk)]
        got_v = term_values(res, sk)
        if [pa for pa, _ in want] == [pa for pa, _ in got_v]:
            if any(not np_.array_equal(a, b, equal_nan=True) for (_, a), (_, b) in zip(want, got_v)):
                C.issue('mutation-changed-values-outside-slot', 'oracle', dict(rp, aliasing=aliasing))
    now = term_values(tree, None)
    if any(not np_.array_equal(a, b, equal_nan=True) for (_, a), (_, b) in zip(vals_before, now)):
        # K15: grow() re-samples the space's terminal arrays in place, and a parent that still aliases them changes with them
        C.issue('mutation-changed-parent-values', 'oracle', dict(rp, aliasing=aliasing), known='K15' if aliasing else None)
    if set(gpops.node_ids(res)) & set(ids):
        C.issue('mutant-not-new', 'oracle', rp)
    if T.canon(tree) != before or gpops.node_ids(tree) != ids:
        C.issue('mutation-changed-parent', 'oracle', rp)
    C.case(key=('mutate', before, p, tuple(draws)), nontrivial=slot is not None,
           kind='mutate-slot' if slot is not None else 'mutate-whole')


def in_slot(path, sk):
    pre = sk[0] + ('L' if sk[1] else 'R')
    return path.startswith(pre)


def path_to(root, target):
    def go(n, acc):
        if n is None:
            return None
        if n is target:
            return acc
        a = go(n.left, acc + 'L')
        return a if a is not None else go(n.right, acc + 'R')
    return go(root, '')


def follow(root, path):
    n = root
    for ch in path or '':
        n = n.left if ch == 'L' else n.right
        if n is None:
            return None
    return n


def forest_issues(trees):
    """-> reason or None: two slots holding one tree object / sharing nodes"""
    for i in range(len(trees)):
        for j in range(i + 1, len(trees)):
            if trees[i] is trees[j]:
                return f'slots {i} and {j} hold the same tree object'
            if set(gpops.node_ids(trees[i])) & set(gpops.node_ids(trees[j])):
                return f'slots {i} and {j} share nodes'
    return None


def check_mutation(C, drv, n, selected, seed, single=()):
    """`GP._mutation` on a whole population with a scripted tournament outcome: result compared with the loop the translator
    read (`w.mutation`: points drawn and trees grown are tapped and handed to the model in call order) and with the definition
    (unselected slots keep their tree object, the forest stays disjoint, the number of trees stays)"""
    L = lib.load()
    np = L['np']
    import random as _r
    import opytimizer.math.general as g
    np.random.seed(seed)
    sp = L['TreeSpace'](n_trees=n, n_terminals=2, n_variables=1, n_iterations=1, min_depth=1, max_depth=3,
                        functions=['SUM', 'MUL', 'ABS', 'COS'], lower_bound=[0.0], upper_bound=[1.0])
    for i in single:
        # single-node individuals: re-created by `space.grow` instead of being handed to `_mutate`
        sp.trees[i] = L['Node'](name=0, type='TERMINAL', value=np.array(sp.terminals[0].position, copy=True))
    old = list(sp.trees)
    enc0 = [T.enc_tree(t, base=1000 * i) for i, t in enumerate(old)]
    k = len(selected)
    gp2 = L['kinds']['GP'](hyperparams={'p_mutation': min(1.0, (k + 0.5) / n), 'prunning_ratio': 0.0})
    rp = dict(how='mutation', n=n, selected=list(selected), seed=seed, single=list(single))
    orig_t = g.tournament_selection
    g.tournament_selection = lambda fit, kk: list(selected)[:kk]
    sc = gpops.Script(_r.Random(seed)).install()
    grown, points, depth = [], [], [0]
    orig_grow, orig_mut = sp.grow, gp2._mutate

    def grow_tap(*a, **kw):
        depth[0] += 1
        try:
            t = orig_grow(*a, **kw)
        finally:
            depth[0] -= 1
        if depth[0] == 0:
            grown.append(T.enc_tree(t, base=500000 + 1000 * len(grown)))
        return t

    def mut_tap(*a, **kw):
        at = len(sc.log)
        r_ = orig_mut(*a, **kw)
        points.append(sc.log[at][2] if len(sc.log) > at else None)
        return r_
    sp.grow = grow_tap
    gp2._mutate = mut_tap
    try:
        gp2._mutation(sp)
    except Exception as ex:
        C.issue('mutation-raised', 'oracle', rp, error=type(ex).__name__ + ': ' + str(ex)[:80])
        return
    finally:
        sc.remove()
        g.tournament_selection = orig_t
        try:
            del sp.grow
            del gp2._mutate
        except AttributeError:
            pass
    used = list(selected)[:int(n * gp2.p_mutation)]
    if len(sp.trees) != n:
        C.issue('mutation-changed-population-size', 'oracle', rp, trees=len(sp.trees))
    for i in range(n):
        if i not in used and sp.trees[i] is not old[i]:
            C.issue('mutation-touched-unselected-slot', 'oracle', rp, slot=i)
        if i in used and sp.trees[i] is old[i]:
            C.issue('mutation-left-selected-slot', 'oracle', rp, slot=i)
    why = forest_issues(sp.trees)
    if why:
        C.issue('mutation-forest-not-disjoint', 'oracle', rp, why=why)
    if any(set(gpops.node_ids(sp.trees[i])) & set(gpops.node_ids(o)) for i in used for o in old):
        C.issue('mutant-not-new', 'oracle', rp)
    if None not in points and None not in grown and None not in enc0:
        out = drv.ask(f"w.mutation {';'.join(enc0)} 10000000 {common.enc_ints(used)} {common.enc_ints(points)} {';'.join(grown) if grown else '-'}")
        real = ';'.join(T.canon(t) for t in sp.trees)
        if out != real:
            C.issue('translated-mutation-mismatch', 'correspondence', rp, model=out[:300], real=real[:300])
        C.extra['translated_population_loops'] = C.extra.get('translated_population_loops', 0) + 1
    C.case(key=('mutation', n, tuple(selected), seed), nontrivial=len(used) >= 2, kind='mutation-population')


def check_crossover(C, n, selected, seed, drv=None, deep=False):
    """`GP._crossover` on a whole population with a scripted tournament outcome: the selected individuals are crossed in
    consecutive disjoint pairs — the two slots of a pair receive the two offspring of that pair (the nodes of the pair
    are conserved inside the pair), every other slot keeps its tree object"""
    L = lib.load()
    np = L['np']
    import random as _r
    import opytimizer.math.general as g
    np.random.seed(seed)
    sp = L['TreeSpace'](n_trees=n, n_terminals=2, n_variables=1, n_iterations=1, min_depth=2, max_depth=4,
                        functions=['SUM', 'MUL', 'ABS', 'COS'], lower_bound=[0.0], upper_bound=[1.0])
    if deep:
        # a population as bloat leaves it after a long run: trees 14 to 33 levels deep
        def _comb(n_, left):
            s_ = 'L'
            for q_ in range(n_):
                s_ = ('B', s_, 'L') if (left or q_ % 2) else ('B', 'L', s_)
            return s_
        terms = [t_.position for t_ in sp.terminals]
        for i in range(n):
            sp.trees[i] = T.build(_comb(14 + (7 * i) % 20, i % 2 == 0), terminals=terms, term_ids=[0, 1])
    # the (name, type) labels of a pair's nodes are conserved by an exchange of subtrees inside the pair
    before = [sorted((str(x.name), x.type) for x in T.walk(t)[0]) for t in sp.trees]
    old = list(sp.trees)
    enc0 = [T.enc_tree(t, base=1000 * i) for i, t in enumerate(old)]
    k = len(selected)
    gp2 = L['kinds']['GP'](hyperparams={'p_crossover': (k - 0.5) / n if k % 2 == 0 else (k - 1.5) / n, 'prunning_ratio': 0.0})
    rp = dict(how='crossover', n=n, selected=list(selected), seed=seed, deep=deep)
    orig = g.tournament_selection
    g.tournament_selection = lambda fit, kk: list(selected)[:kk] if kk <= len(selected) else list(selected)
    sc = gpops.Script(_r.Random(seed)).install()
    try:
        gp2._crossover(sp)
    except Exception as ex:
        C.issue('crossover-raised', 'oracle', rp, error=type(ex).__name__ + ': ' + str(ex)[:80])
        return
    finally:
        sc.remove()
        g.tournament_selection = orig
    after = [sorted((str(x.name), x.type) for x in T.walk(t)[0]) for t in sp.trees]
    pairs = [tuple(selected[i:i + 2]) for i in range(0, len(selected) - 1, 2)]
    touched = {i for p_ in pairs for i in p_}
    for i in range(n):
        if i not in touched and sp.trees[i] is not old[i]:
            C.issue('crossover-touched-unselected-slot', 'oracle', rp, slot=i)
    if len(set(selected)) == len(selected):
        for a, b in pairs:
            if sorted(after[a] + after[b]) != sorted(before[a] + before[b]):
                C.issue('crossover-pair-not-conserved', 'oracle', rp, pair=[a, b])
                break
    if len(sp.trees) != n:
        C.issue('crossover-changed-population-size', 'oracle', rp, trees=len(sp.trees))
    why = forest_issues(sp.trees)
    if why:
        C.issue('crossover-forest-not-disjoint', 'oracle', rp, why=why)
    if drv is not None and None not in enc0:
        # the loop as the translator read it, on the same population, tournament outcome and points (two per crossed pair,
        # in call order)
        pts = [d_ for _, _, d_ in sc.log]
        draws = ';'.join(f'{pts[q]},{pts[q + 1]}' for q in range(0, len(pts) - 1, 2)) or '-'
        kk = int(n * gp2.p_crossover)
        kk += kk % 2
        out = drv.ask(f"w.crossover {';'.join(enc0)} 10000000 {common.enc_ints(list(selected)[:kk]) if kk <= len(selected) else common.enc_ints(list(selected))} {draws}")
        real = ';'.join(T.canon(t) for t in sp.trees)
        if out != real:
            C.issue('translated-crossover-mismatch', 'correspondence', rp, model=out[:300], real=real[:300])
        C.extra['translated_population_loops'] = C.extra.get('translated_population_loops', 0) + 1
    C.case(key=('crossover', n, tuple(selected), seed, deep), nontrivial=len(pairs) >= 2, kind='crossover-population' + ('-deep' if deep else ''))


def check_repro(C, drv, gp, n, fitness, selected):
    L = lib.load()
    np = L['np']
    import opytimizer.math.general as g
    np.random.seed(C.rng.randrange(1 << 30))
    sp = L['TreeSpace'](n_trees=n, n_terminals=2, n_variables=1, n_iterations=1, min_depth=1, max_depth=2,
                        functions=['SUM', 'ABS'], lower_bound=[0.0], upper_bound=[1.0])
    for i, (a, t, f) in enumerate(zip(sp.agents, sp.trees, fitness)):
        a.fit = f
        a.tag = i
        t.tag = i
    old_trees, old_agents = list(sp.trees), list(sp.agents)
    orig = g.tournament_selection
    g.tournament_selection = lambda fit, k: list(selected)
    gp2 = L['kinds']['GP'](hyperparams={'p_reproduction': 1.0})
    try:
        gp2._reproduction(sp)
    finally:
        g.tournament_selection = orig
    ttags = [t.tag for t in sp.trees]
    atags = [a.tag for a in sp.agents]
    rp = dict(how='repro', fitness=list(fitness), selected=list(selected))
    out = drv.ask(f't.repro {common.enc_ints(common.fkey(f) for f in fitness)} {common.enc_ints(selected)}')
    mt, ma, mf = out.split(' ')
    if common.dec_ints(mt) != ttags or common.dec_ints(ma) != atags:
        C.issue('reproduction-mismatch', 'correspondence', rp, model=out, real=[ttags, atags])
    if ttags != atags:
        C.issue('tree-agent-unpaired', 'oracle', rp, trees=ttags, agents=atags)
    if len(sp.trees) != n or len(sp.agents) != n:
        C.issue('population-size', 'oracle', rp)
    # overwritten slots hold deep copies (new objects sharing nothing with their source)
    for i, (t, a) in enumerate(zip(sp.trees, sp.agents)):
        if t is not old_trees[i]:
            if any(t is o for o in old_trees) or any(a is o for o in old_agents):
                C.issue('reproduction-by-reference', 'oracle', rp, slot=i)
            elif set(gpops.node_ids(t)) & set(x for o in old_trees for x in gpops.node_ids(o)):
                C.issue('reproduction-shares-nodes', 'oracle', rp, slot=i)
            elif any(np.shares_memory(a.position, o.position) for o in old_agents):
                C.issue('reproduction-shares-position', 'oracle', rp, slot=i)
    # ... and every slot holds its own objects: no tree, node, agent or position array in two slots
    for i in range(len(sp.trees)):
        for j in range(i + 1, len(sp.trees)):
            if sp.trees[i] is sp.trees[j] or sp.agents[i] is sp.agents[j]:
                C.issue('reproduction-same-object-in-two-slots', 'oracle', rp, slots=[i, j])
                break
            if set(gpops.node_ids(sp.trees[i])) & set(gpops.node_ids(sp.trees[j])):
                C.issue('reproduction-shares-nodes', 'oracle', rp, slots=[i, j])
                break
            if np.shares_memory(sp.agents[i].position, sp.agents[j].position):
                C.issue('reproduction-shares-position', 'oracle', rp, slots=[i, j])
                break
    # worst-ranked first when every fitness is positive (K12 otherwise)
    if all(f > 0 for f in fitness) and len(selected) <= n:
        work = list(fitness)
        exp_slots = []
        for s in selected:
            w = max(range(n), key=lambda i: (work[i], -i))
            exp_slots.append(w)
            work[w] = 0
        replaced = [i for i in range(n) if sp.trees[i] is not old_trees[i]]
        if sorted(set(exp_slots)) != replaced:
            C.issue('reproduction-wrong-slots', 'oracle', rp, replaced=replaced, expected=sorted(set(exp_slots)))
    C.case(key=('repro', tuple(fitness), tuple(selected)), nontrivial=len(selected) > 0, kind='reproduction')


def check_repro_real_tournament(C, drv, n, fitness, n_repro, by_index=False):
    """`_reproduction` with the library's own tournament: the draws of `np.random.choice` are tapped, the winners
    follow from the definition (first holder of the minimum among the values drawn for the round), and the slots
    overwritten must hold copies of exactly those winners.
    `by_index`: the uniform draw is made by the harness (an index, the element at that index handed back), so the
    contestants of a round are known as individuals and not only through whatever value the code was handed: the
    winner is the contestant whose fitness - as stored on its agent - is smallest"""
    L = lib.load()
    np = L['np']
    np.random.seed(C.rng.randrange(1 << 30))
    sp = L['TreeSpace'](n_trees=n, n_terminals=2, n_variables=1, n_iterations=1, min_depth=1, max_depth=2,
                        functions=['SUM', 'ABS'], lower_bound=[0.0], upper_bound=[1.0])
    for i, (a, t, f) in enumerate(zip(sp.agents, sp.trees, fitness)):
        a.fit = f
        a.tag = i
        t.tag = i
    draws = []
    orig = np.random.choice

    picked = []

    def tapped(a, *args, **kw):
        if by_index and not args and not kw and len(a) == n:
            j_ = int(np.random.randint(len(a)))
            picked.append(j_)
            v = a[j_] if isinstance(a, np.ndarray) else np.asarray(a)[j_]
        else:
            picked.append(None)
            v = orig(a, *args, **kw)
        draws.append(v)
        return v
    np.random.choice = tapped
    gp2 = L['kinds']['GP'](hyperparams={'p_reproduction': min(1.0, (n_repro + 0.5) / n)})
    rp = dict(how='repro-real', fitness=list(fitness), n_repro=n_repro, seed=None)
    if by_index:
        rp['by_index'] = True
    try:
        st = np.random.get_state()
        gp2._reproduction(sp)
    except Exception as ex:
        C.issue('reproduction-raised', 'oracle', rp, error=repr(ex)[:100])
        return
    finally:
        np.random.choice = orig
    k = L['c'].TOURNAMENT_SIZE
    rounds = [draws[j:j + k] for j in range(0, len(draws), k)]
    sel = []
    for q_, r_ in enumerate(rounds):
        m = min(r_)
        who = picked[q_ * k:q_ * k + k]
        if by_index and None not in who:
            # (Python compares its ints and floats exactly)
            m = min(fitness[j_] for j_ in who)
        sel.append(next(i for i, f in enumerate(fitness) if f == m))
    # replay the overwrite rule on the tags with the winners the definition gives
    work = list(fitness)
    ttags = list(range(n))
    for s_ in sel:
        w = max(range(n), key=lambda i: (work[i], -i))
        ttags[w] = ttags[s_]
        work[w] = 0
    got = [t.tag for t in sp.trees]
    rp['draws'] = [int(d) if isinstance(d, (int, np.integer)) else float(d) for d in draws]
    if got != ttags or [a.tag for a in sp.agents] != got:
        C.issue('reproduction-copied-a-non-winner', 'oracle', rp, trees=got, agents=[a.tag for a in sp.agents], expected=ttags, winners=sel)
    C.case(key=('repro-real', tuple(fitness), tuple(sel)), nontrivial=len(sel) > 0, kind='reproduction-real-tournament')


def check(ctx):
    L = lib.load()
    np = L['np']
    C = Comp(ctx, 'one case = one call of GP._cross / GP._mutate / GP._reproduction on the real code with forced points / scripted selection: result compared with the Lean model and with the definition (slot exchange / slot replacement / overwrite-worst), parents untouched, multiset of labels conserved, tree-agent pairing; non-trivial = a slot was actually exchanged / replaced / overwritten; exhaustive over all ordered pairs of parent shapes to depth 2 and all pairs of points',
             ['copy.deepcopy produces a disjoint structure', 'reproduction: positive fitness for the "k worst" reading (K12)'])
    if not hasattr(T, 'wf_oracle_sub'):
        T.wf_oracle_sub = lambda n: [d for d in T.wf_oracle(n) if d != 'root has a parent']
    drv = common.Driver()
    gp = L['kinds']['GP']()
    try:
        shapes = T.shapes_upto(2)
        for fa in shapes:
            for mo in shapes:
                for pf in range(1, T.shape_size(fa) + 2):
                    for pm in range(1, T.shape_size(mo) + 2):
                        check_cross(C, drv, gp, fa, mo, pf, pm, np)
        # the same individual as both parents (the tournament may pair an index with itself): two *new* trees again
        for fa in [s_ for s_ in T.shapes_upto(2) if T.shape_size(s_) >= 2] + [s_ for s_ in T.shapes_upto(3) if T.shape_size(s_) >= 5][:12]:
            for pf in range(1, T.shape_size(fa) + 1):
                for pm in range(1, T.shape_size(fa) + 1):
                    t_ = T.build(fa, terminals=[np.array([[0.25]]), np.array([[0.75]])], term_ids=[0, 1])
                    check_cross(C, drv, gp, None, None, pf, pm, np, parents=(t_, t_), hist=None)
        C.exhaustive = True
        C.extra['exhaustive_over'] = f'_cross: all {len(shapes) ** 2} ordered pairs of parent shapes up to depth 2 x every pair of points 1..n_nodes+1'
        # multi-step histories: offspring of one crossover are the parents of the next
        big = [s_ for s_ in T.shapes_upto(3) if T.shape_size(s_) >= 4]
        for k in range(150 if ctx['tier'] == 'quick' else 1500):
            fa, mo = C.rng.choice(big), C.rng.choice(big)
            r1 = check_cross(C, drv, gp, fa, mo, C.rng.randint(2, T.shape_size(fa)), C.rng.randint(2, T.shape_size(mo)), np)
            if not r1:
                continue
            o1, o2 = r1
            # second generation: every point of either offspring once (the other point fixed), so a slot that the
            # first exchange left in a wrong state is selected whichever node carries it
            r2 = None
            for pm in range(1, o2.n_nodes + 1):
                r2 = check_cross(C, drv, gp, None, None, C.rng.randint(1, o1.n_nodes), pm, np, parents=(o1, o2), hist=o1._c09_hist) or r2
            for pf in range(1, o1.n_nodes + 1):
                r2 = check_cross(C, drv, gp, None, None, pf, C.rng.randint(1, o2.n_nodes), np, parents=(o1, o2), hist=o1._c09_hist) or r2
            if r2:
                check_cross(C, drv, gp, None, None, C.rng.randint(1, r2[0].n_nodes), C.rng.randint(1, r2[1].n_nodes), np, parents=r2, hist=r2[0]._c09_hist)
        # deep parents (as bloat produces them in long runs): offspring far deeper than any depth limit of the space
        def _comb(n_, left=True):
            s_ = 'L'
            for q_ in range(n_):
                s_ = ('B', s_, 'L') if (left or q_ % 2) else ('B', 'L', s_)
            return s_
        def _chain(n_):
            s_ = 'L'
            for _ in range(n_):
                s_ = ('U', s_)
            return s_
        deep = [_comb(20), _comb(14, left=False), _chain(24), ('B', _chain(18), _comb(16)), _comb(33)]
        for k in range(12 if ctx['tier'] == 'quick' else 120):
            fa, mo = C.rng.choice(deep), C.rng.choice(deep)
            nf_, nm_ = T.shape_size(fa), T.shape_size(mo)
            # points deep in the father, shallow in the mother (and the other way round): one offspring much deeper than both
            deep_f = C.rng.choice([nf_ // 2, nf_ // 2 + 1, nf_ - 1, nf_, nf_ // 2 - 2])
            deep_m = C.rng.choice([nm_ // 2, nm_ // 2 + 1, nm_ - 1, nm_, nm_ // 2 - 2])
            pf = deep_f if k % 2 == 0 else C.rng.randint(2, 4)
            pm = C.rng.randint(2, 4) if k % 2 == 0 else deep_m
            r_ = check_cross(C, drv, gp, fa, mo, pf, pm, np)
            if r_:
                C.extra['deepest_offspring'] = max(C.extra.get('deepest_offspring', 0), r_[0].max_depth, r_[1].max_depth)
        if ctx['tier'] == 'thorough':
            d3 = T.shapes_upto(3)
            for k in range(1500):
                fa, mo = C.rng.choice(d3), C.rng.choice(d3)
                check_cross(C, drv, gp, fa, mo, C.rng.randint(1, T.shape_size(fa)), C.rng.randint(1, T.shape_size(mo)), np)
        for s in T.shapes_upto(3 if ctx['tier'] == 'thorough' else 2):
            for p in range(1, T.shape_size(s) + 2):
                check_mutate(C, drv, gp, s, p)
        reps = 150 if ctx['tier'] == 'quick' else 2000
        for k in range(reps):
            n = C.rng.randint(1, 6)
            mode = C.rng.choice(['pos', 'pos', 'ties', 'mixed'])
            if mode == 'pos':
                fit = [round(C.rng.uniform(0.1, 9), 2) for _ in range(n)]
            elif mode == 'ties':
                fit = [float(C.rng.choice([1, 2, 3])) for _ in range(n)]
            else:
                fit = [round(C.rng.uniform(-5, 5), 2) for _ in range(n)]
            sel = [C.rng.randrange(n) for _ in range(C.rng.randint(0, n))]
            check_repro(C, drv, gp, n, fit, sel)
        # whole-population crossover with two or more pairs selected
        for k in range(25 if ctx['tier'] == 'quick' else 250):
            n = C.rng.randint(6, 12)
            npairs = C.rng.choice([2, 2, 3])
            sel = C.rng.sample(range(n), 2 * npairs)
            check_crossover(C, n, sel, C.rng.randrange(1 << 30), drv=drv, deep=(k % 5 == 4))
            # … with an individual selected twice, or paired with itself (a tournament may return that)
            if k % 3 == 0:
                sel2 = [C.rng.randrange(n) for _ in range(2 * npairs)]
                if k % 6 == 0:
                    sel2[1] = sel2[0]
                check_crossover(C, n, sel2, C.rng.randrange(1 << 30), drv=drv)
            # whole-population mutation: selected individuals (possibly twice), single-node individuals among them
            selm = [C.rng.randrange(n) for _ in range(C.rng.randint(2, 5))]
            check_mutation(C, drv, n, selm, C.rng.randrange(1 << 30), single=[selm[0]] if k % 2 == 0 else ())
        # the library's own tournament inside reproduction, on fitness vectors with exact ties and near ties
        for k in range(80 if ctx['tier'] == 'quick' else 800):
            n = C.rng.randint(4, 10)
            base = [round(C.rng.uniform(0.5, 9), 2) for _ in range(n)]
            mode = C.rng.choice(['plain', 'ties', 'near'])
            if mode == 'ties':
                base = [float(C.rng.choice([1, 2, 3])) for _ in range(n)]
            elif mode == 'near':
                j0 = C.rng.randrange(n)
                base = [base[j0] + C.rng.choice([4e-11, 1e-12, 2.5e-16 * base[j0], -4e-11, 1e-9]) * (1 if i != j0 else 0) * C.rng.choice([1, 2, 3])
                        if C.rng.random() < 0.6 else b_ for i, b_ in enumerate(base)]
            check_repro_real_tournament(C, drv, n, base, C.rng.randint(1, max(1, n // 2)))
        # … and on integer-valued fitness (an objective returning Python ints: counts, integer penalties plus a small
        # integer cost): the values are exact and pairwise different although they lie beyond 2**53, closer together than
        # neighbouring float64 values; the winner of a round is the contestant with the smallest fitness, exactly
        for k in range(30 if ctx['tier'] == 'quick' else 300):
            n = C.rng.randint(4, 10)
            off = C.rng.choice([2 ** 53, 10 ** 17, 2 ** 60, 2 ** 62, 3 * 10 ** 18])
            step = C.rng.choice([1, 1, 2, 3])
            base = [off + step * v_ for v_ in C.rng.sample(range(0, 12), n)]
            if k % 5 == 4:
                # one exact tie among them
                base[C.rng.randrange(1, n)] = base[0]
            check_repro_real_tournament(C, drv, n, base, C.rng.randint(1, max(1, n // 2)), by_index=True)
    finally:
        drv.close()
    return C.result()


def search(ctx, corr, broken):
    res = check(dict(ctx, tier='thorough'))
    for i in res['issues']:
        if i['layer'] == 'oracle':
            return i
    return None


def replay(prop, payload):
    from props.c11 import decode
    L = lib.load()
    np = L['np']
    C = Comp(dict(seed=0, tier='quick'), '')
    if not hasattr(T, 'wf_oracle_sub'):
        T.wf_oracle_sub = lambda n: [d for d in T.wf_oracle(n) if d != 'root has a parent']
    drv = common.Driver()
    gp = L['kinds']['GP']()
    try:
        if payload['how'] == 'cross':
            f, m = decode(payload['father']), decode(payload['mother'])
            if payload.get('same_object'):
                m = f
            if payload.get('history'):
                # re-run the earlier crossovers on the real code: their offspring are this step's parents
                h0 = payload['history'][0]
                f, m = decode(h0['father']), decode(h0['mother'])
                for st in payload['history']:
                    sc = gpops.Script(random.Random(0), forced=[st['pf'], st['pm']]).install()
                    try:
                        f, m = gp._cross(f, m, f.n_nodes, m.n_nodes)
                    finally:
                        sc.remove()
            fb, mb = T.canon(f), T.canon(m)
            fstruct, mstruct = gpops.struct(f), gpops.struct(m)
            sf, sm = gpops.slot_of(f, payload['pf']), gpops.slot_of(m, payload['pm'])
            sc = gpops.Script(random.Random(0), forced=[payload['pf'], payload['pm']]).install()
            try:
                o1, o2 = gp._cross(f, m, f.n_nodes, m.n_nodes)
            finally:
                sc.remove()
            if sf is not None and sm is not None:
                fsub = gpops.struct(sf[0].left if sf[1] else sf[0].right)
                msub = gpops.struct(sm[0].left if sm[1] else sm[0].right)
                e1 = gpops.replace_slot(f, sf[0], sf[1], msub)
                e2 = gpops.replace_slot(m, sm[0], sm[1], fsub)
            else:
                e1, e2 = fstruct, mstruct
            return (gpops.struct(o1) != e1 or gpops.struct(o2) != e2 or o1 is f or o2 is m or o1 is o2
                    or bool(set(gpops.node_ids(o1)) & set(gpops.node_ids(o2)))
                    or T.canon(f) != fb or T.canon(m) != mb)
        if payload['how'] == 'repro-real':
            # the tapped draws are part of the witness; re-run on the same fitness with fresh seeds until the rule fails
            for k in range(60):
                check_repro_real_tournament(C, drv, len(payload['fitness']), payload['fitness'], payload['n_repro'],
                                            by_index=bool(payload.get('by_index')))
                if any(i['layer'] == 'oracle' for i in C.issues):
                    return True
            return False
        if payload['how'] == 'mutation':
            check_mutation(C, drv, payload['n'], payload['selected'], payload['seed'], single=payload.get('single', ()))
            return any(i['layer'] == 'oracle' for i in C.issues)
        if payload['how'] == 'crossover':
            check_crossover(C, payload['n'], payload['selected'], payload['seed'], drv=drv, deep=payload.get('deep', False))
            return any(i['layer'] == 'oracle' for i in C.issues)
        if payload['how'] == 'repro':
            check_repro(C, drv, gp, len(payload['fitness']), payload['fitness'], payload['selected'])
            return any(i['layer'] == 'oracle' for i in C.issues)
        if payload['how'] == 'mutate':
            # the grown branch depends on the draws: the replay re-runs the mutation cases on the parent's shape (and all
            # other small shapes) until the rule fails again
            for rep in range(3):
                for s_ in T.shapes_upto(2):
                    for p_ in range(1, T.shape_size(s_) + 2):
                        check_mutate(C, drv, gp, s_, p_)
                if any(i['layer'] == 'oracle' and not i.get('known') and 'mutat' in i['what'] for i in C.issues):
                    return True
            return False
    finally:
        drv.close()
    return True
