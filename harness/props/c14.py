"""C14 — validated attributes accept exactly their documented domain, atomically."""
import functools
import fractions, inspect, math
import common, lib, findings
from comp import Comp


class CallableObject:
    """a one-argument callable without `__name__`"""
    def __call__(self, x):
        return 0.0

    def method(self, x):
        return 0.0


class UnhashableCallable:
    """a legal one-argument objective that cannot be hashed (defines __eq__ without __hash__)"""
    def __call__(self, x):
        return 0.0

    def __eq__(self, other):
        return self is other


def _passthrough(fn):
    """an ordinary pass-through decorator (call counter / timer / logger style): `inspect.signature` of the result is the
    wrapped function's, and it is callable with exactly the wrapped function's arguments"""
    @functools.wraps(fn)
    def wrapper(*args, **kwargs):
        return fn(*args, **kwargs)
    return wrapper


@_passthrough
def decorated_one(x):
    return 0.0


@_passthrough
def decorated_two(x, y):
    return 0.0


@_passthrough
@_passthrough
def decorated_twice(x):
    return 0.0


def make_obj(L, cls):
    np = L['np']
    k = L['kinds']
    if cls in k:
        return k[cls]()
    if cls == 'Agent':
        return L['Agent'](n_variables=2, n_dimensions=1)
    if cls == 'Space':
        from opytimizer.core.space import Space
        return Space(n_agents=2, n_variables=2, n_dimensions=1, n_iterations=3)
    if cls == 'SearchSpace':
        return L['SearchSpace'](n_agents=2, n_variables=2, n_iterations=3, lower_bound=[0, 0], upper_bound=[1, 1])
    if cls == 'HyperSpace':
        return L['HyperSpace'](n_agents=2, n_variables=2, n_dimensions=2, n_iterations=3, lower_bound=[0, 0], upper_bound=[1, 1])
    if cls == 'TreeSpace':
        return L['TreeSpace'](n_trees=2, n_terminals=2, n_variables=2, n_iterations=3, min_depth=2, max_depth=4,
                              functions=['SUM'], lower_bound=[0, 0], upper_bound=[1, 1])
    if cls == 'Node':
        return L['Node'](name=0, type='TERMINAL', value=np.zeros((1, 1)))
    if cls == 'Function':
        return L['Function'](pointer=lambda x: 0.0)
    if cls == 'WeightedFunction':
        return L['WeightedFunction'](functions=[lambda x: 0.0], weights=[1.0])
    if cls == 'Optimizer':
        return L['Optimizer']()
    if cls == 'Opytimizer':
        sp = L['SearchSpace'](n_agents=1, n_variables=1, n_iterations=1, lower_bound=[0], upper_bound=[1])
        return L['Opytimizer'](space=sp, optimizer=k['PSO'](), function=L['Function'](pointer=lambda x: 0.0))
    return None


class Unbuilt:
    built = False


def describe(L, v):
    """value -> (ty, num, len, str, truthy, built) tokens of the driver protocol, or None"""
    np = L['np']
    def num(x):
        x = float(x)
        if x != x:
            return 'nan'
        if x == math.inf:
            return 'pinf'
        if x == -math.inf:
            return 'ninf'
        fr = fractions.Fraction(x)
        return f'f{fr.numerator}/{fr.denominator}'
    ty, n, ln, st = 'other', 'f0/1', 0, '~'
    if isinstance(v, bool):
        ty, n = 'bool', num(int(v))
    elif isinstance(v, int):
        ty, n = 'int', f'f{v}/1'
    elif isinstance(v, float):
        ty, n = 'float', num(v)
    elif isinstance(v, (np.integer,)):
        ty, n = 'other', f'f{int(v)}/1'
    elif isinstance(v, str):
        ty, st = 'str', (v if v and ' ' not in v else '~')
    elif isinstance(v, list):
        ty, ln = 'list', len(v)
    elif isinstance(v, dict):
        ty, ln = 'dict', len(v)
    elif isinstance(v, tuple):
        ty, ln = 'tuple', len(v)
    elif isinstance(v, np.ndarray):
        ty, ln = 'ndarray', (v.shape[0] if v.ndim else 0)
    elif isinstance(v, L['Node']):
        ty = 'node'
    elif isinstance(v, L['Agent']):
        ty = 'agent'
    elif v is None:
        ty = 'none'
    elif callable(v):
        ty = 'callable'
        try:
            ln = len(inspect.signature(v).parameters)
        except Exception:
            ln = 0
    try:
        truthy = bool(v) if not (isinstance(v, np.ndarray) and v.size != 1) else True
    except Exception:
        truthy = True
    built = bool(getattr(v, 'built', False)) if not isinstance(v, (int, float, str, list, dict, tuple, np.ndarray, type(None))) else False
    return f'{ty} {n} {ln} {st} {1 if truthy else 0} {1 if built else 0}'


def ctx_attrs(L, obj):
    np = L['np']
    out = []
    for k, v in vars(obj).items():
        k = k.lstrip('_')
        if isinstance(v, bool):
            continue
        if isinstance(v, int):
            out.append(f'{k}:f{v}/1:{max(v, 0)}')
        elif isinstance(v, float) and v == v and abs(v) != math.inf:
            fr = fractions.Fraction(v)
            out.append(f'{k}:f{fr.numerator}/{fr.denominator}:0')
    return ','.join(out) or '-'


def in_domain(L, d, v, obj):
    """documented domain membership, independently of the guard"""
    np = L['np']
    kind = d[0]
    tymap = {'float': float, 'int': int, 'list': list, 'dict': dict, 'bool': bool, 'str': str, 'ndarray': np.ndarray,
             'node': L['Node'], 'agent': L['Agent'], 'tuple': tuple}
    isnum = isinstance(v, (int, float)) and not (isinstance(v, float) and v != v)
    if kind == 'inst':
        return any(isinstance(v, tymap[t]) for t in d[1])
    if kind == 'noneOr':
        return v is None or any(isinstance(v, tymap[t]) for t in d[1])
    if kind == 'ge':
        return isnum and v >= d[1]
    if kind == 'gt':
        return isnum and v > d[1]
    if kind == 'between':
        return isnum and d[1] <= v <= d[2]
    if kind == 'geAttr':
        return isnum and v >= getattr(obj, d[1])
    if kind == 'oneOf':
        return isinstance(v, str) and v in d[1]
    if kind == 'sameSize':
        return hasattr(v, 'shape') and v.ndim >= 1 and v.shape[0] == getattr(obj, d[1])
    if kind == 'oneArg':
        return callable(v) and len(inspect.signature(v).parameters) == 1
    if kind == 'callable':
        return callable(v)
    if kind == 'built':
        return bool(getattr(v, 'built', False))
    return None


def values_for(L, setter, obj):
    np = L['np']
    vals = [0, 1, -1, 2, 0.0, 1.0, -1.0, 0.5, 1.5, -0.5, math.nextafter(0.0, 1), math.nextafter(0.0, -1), math.nextafter(1.0, 2),
            math.nextafter(1.0, 0), 1e9, -1e9, math.inf, -math.inf, float('nan'), True, False, 'a', 'TERMINAL', 'FUNCTION', None,
            [1, 2], [], {}, {'w': 1}, (1,), np.zeros(2), np.zeros((2, 1)), np.zeros(3), np.zeros(1), np.int64(3), np.float64(0.5),
            L['Node'](name=1, type='TERMINAL', value=np.zeros((1, 1))), L['Agent'](), (lambda x: 0.0), (lambda: 0.0), (lambda x, y: 0.0),
            (lambda x, y=2: 0.0), (lambda x, *, shift=0: 0.0), functools.partial((lambda x, y: 0.0), y=3), (lambda *a: 0.0),
            CallableObject(), CallableObject().method, functools.partial((lambda a, x: 0.0), 1.0), UnhashableCallable(),
            decorated_one, decorated_two, decorated_twice, functools.lru_cache(maxsize=None)(lambda x: 0.0),
            Unbuilt(), L['kinds']['PSO'](), L['Function'](pointer=lambda x: 0.0)]
    for g in setter['guards']:
        c = g['cdesc']
        if c and c[0] == 'truthyAnd':
            c = c[1]
        if c and c[0] == 'ltAttr':
            a = getattr(obj, c[1], None)
            if isinstance(a, (int, float)):
                vals += [a, a + 1, a - 1, math.nextafter(float(a), math.inf), math.nextafter(float(a), -math.inf)]
                if isinstance(a, int):
                    vals += [int(a), int(a) + 1, int(a) - 1]
    return vals


def check(ctx):
    L = lib.load()
    np = L['np']
    e = L['e']
    tables = ctx['build'].tables
    known = {}
    for f in findings.load()['findings']:
        for gid in f.get('guard_ids', []):
            known[gid] = f['id']
    known_ids = {f['id'] for f in findings.load()['findings']}
    C = Comp(ctx, 'one case = one (class, validated attribute, value) triple: the real setter outcome (stored value is the input / typed error class / previous value intact) compared with the Lean setter semantics over the regenerated guard table, and with the documented domain parsed from the error messages; values = each bound, one step either side (ulp and integer), far values, +-inf, NaN, wrong types incl. bool / numpy scalars / None, companion min/max at equality, built/unbuilt components, 0/1/2-argument callables; non-trivial = boundary or wrong-type value',
             ['value universe of the model: rationals, +-inf, NaN, type tags; Node.value only on TERMINAL nodes'])
    errname = {e.TypeError: 'TypeError', e.ValueError: 'ValueError', e.SizeError: 'SizeError', e.ArgumentError: 'ArgumentError',
               e.BuildError: 'BuildError'}
    drv = common.Driver()
    n_guards = 0
    try:
        for s in tables['setters']:
            if not s['guards']:
                continue
            n_guards += len(s['guards'])
            probe = make_obj(L, s['cls'])
            if probe is None:
                C.issue('class-without-harness-constructor', 'correspondence', dict(how='setter', cls=s['cls'], attr=s['attr']))
                continue
            lines, recs = [], []
            for v in values_for(L, s, probe):
                obj = make_obj(L, s['cls'])
                desc = describe(L, v)
                try:
                    before = getattr(obj, s['attr'])
                    had = True
                except Exception:
                    before, had = None, False
                try:
                    setattr(obj, s['attr'], v)
                    outcome = 'accept'
                    emsg = None
                except tuple(errname) as ex:
                    outcome = errname[type(ex)]
                    emsg = str(ex)
                except Exception as ex:
                    outcome = 'untyped:' + type(ex).__name__
                    emsg = None
                try:
                    after = getattr(obj, s['attr'])
                except Exception:
                    after = None
                rp = dict(how='setter', cls=s['cls'], attr=s['attr'], value=repr(v)[:60])
                if outcome == 'accept':
                    if after is not v and not (s['cls'] == 'Node' and s['attr'] == 'value'):
                        C.issue('accepted-value-not-stored-unchanged', 'oracle', rp)
                elif had and after is not before:
                    C.issue('rejection-changed-previous-value', 'oracle', rp, outcome=outcome)
                # documented domain, independently
                doms = [in_domain(L, g['ddesc'], v, obj) for g in s['guards']]
                unread = False
                if emsg is not None and emsg not in [g['msg'] for g in s['guards']]:
                    # the setter rejected with a message that is not among the guards the translator read: judge the value
                    # against the domain *that message* documents; when the rejection is right by its own message the
                    # guard table is incomplete (a correspondence gap), not a wrong setter
                    import translate as _tr
                    try:
                        dd = _tr.parse_domain(emsg, s['attr'])[1]
                        own = in_domain(L, dd, v, obj)
                    except Exception:
                        own = None
                    if own is False or own is None:
                        unread = True
                        C.issue('rejection-by-a-guard-the-translator-did-not-read', 'correspondence', rp, outcome=outcome, message=emsg[:80])
                if None not in doms and not unread:
                    should = all(doms)
                    if should != (outcome == 'accept'):
                        gid = next((f"{s['cls']}.{s['attr']}#{i}" for i, dm in enumerate(doms)
                                    if (not dm) == (outcome == 'accept')), f"{s['cls']}.{s['attr']}#0")
                        kn = known.get(gid)
                        # a known finding covers exactly the values it names, not every disagreement at its guard
                        if kn == 'K10a' and not (callable(v) and outcome == 'accept' and describe(L, v).split()[2] == '0'):
                            kn = None
                        if kn == 'K10b':
                            try:
                                falsy = not bool(v)
                            except Exception:
                                falsy = False
                            if not (falsy and outcome == 'accept'):
                                kn = None
                        if isinstance(v, float) and v != v and 'K9' in known_ids:
                            kn = 'K9'
                        if outcome == 'untyped:AttributeError' and not hasattr(v, 'built') and s['cls'] == 'Opytimizer' and 'K10c' in known_ids:
                            kn = 'K10c'
                        C.issue('domain-disagrees-with-setter', 'oracle', rp, outcome=outcome, in_documented_domain=should,
                                guard=gid, known=kn)
                    elif outcome != 'accept':
                        first = next(i for i, dm in enumerate(doms) if not dm)
                        want = {'typeError': 'TypeError', 'valueError': 'ValueError', 'sizeError': 'SizeError',
                                'argumentError': 'ArgumentError', 'buildError': 'BuildError'}.get(s['guards'][first]['err'])
                        if outcome != want:
                            kn = 'K10c' if (outcome == 'untyped:AttributeError' and not hasattr(v, 'built') and s['cls'] == 'Opytimizer' and 'K10c' in known_ids) else None
                            if outcome == 'untyped:ValueError' and s['cls'] == 'Node' and isinstance(v, np.ndarray) and v.size > 1 and 'K10b' in known_ids:
                                kn = 'K10b'   # `if x:` / `x not in [...]` on an array: NumPy's own ValueError
                            C.issue('wrong-error-class', 'oracle', rp, outcome=outcome, expected=want, known=kn)
                lines.append(f"guard {s['cls']} {s['attr']} {ctx_attrs(L, obj)} {desc}")
                recs.append((rp, outcome, v))
                boundary = not isinstance(v, (int, float)) or isinstance(v, bool) or v in (0, 1, -1) or abs(v) in (math.inf,) or v != v or abs(v) < 1e-300 or v in (math.nextafter(1.0, 2), math.nextafter(1.0, 0))
                C.case(key=(s['cls'], s['attr'], repr(v)[:40]), nontrivial=boundary, kind=s['cls'])
            outs = drv.ask_many(lines)
            for o, (rp, outcome, v) in zip(outs, recs):
                if outcome.startswith('untyped'):
                    continue   # Python-level exception before/inside a guard expression: not in the model universe
                if isinstance(v, np.ndarray) and v.ndim == 0:
                    continue
                if o != outcome:
                    C.issue('setter-mismatch', 'correspondence', rp, model=o, real=outcome)
        # an accepted value belongs to the object it was given to: a second live object of the same class, given
        # another value, must not change what the first one holds
        import json as _json, os as _os
        pinned = _json.load(open(_os.path.join(common.HERE, 'pinned_guards.json')))
        by_key = {(s_['cls'], s_['attr']): s_ for s_ in tables['setters']}
        generic = [1, 2, 3, 0.25, 0.5, 0.75, 'TERMINAL', 'FUNCTION', [1.0], [2.0], {'w': 0.5}, {'w': 0.6}, np.zeros(2), np.ones(2),
                   np.zeros((2, 1)), np.ones((2, 1)), (lambda x: 0.0), (lambda x: 1.0)]
        for cls_, attr_, _n in pinned:
            o1, o2 = make_obj(L, cls_), make_obj(L, cls_)
            if o1 is None or o2 is None:
                continue
            cand = (values_for(L, by_key[(cls_, attr_)], o1) if (cls_, attr_) in by_key else []) + generic
            acc = []
            for v in cand:
                if isinstance(v, (bool, type(None))) or (isinstance(v, float) and v != v) or any(v is a_ for a_ in acc):
                    continue
                if acc and type(v) is type(acc[0]) and not isinstance(v, (np.ndarray, list, dict)) and not callable(v) and v == acc[0]:
                    continue
                try:
                    setattr(make_obj(L, cls_), attr_, v)
                    acc.append(v)
                except Exception:
                    pass
                if len(acc) == 2:
                    break
            if len(acc) == 2:
                try:
                    setattr(o1, attr_, acc[0])
                    setattr(o2, attr_, acc[1])
                    got = getattr(o1, attr_)
                    same = got is acc[0] or (isinstance(got, (int, float, str)) and type(got) is type(acc[0]) and got == acc[0])
                    if not same and not (cls_ == 'Node' and attr_ == 'value'):
                        C.issue('value-shared-between-objects', 'oracle', dict(how='two-objects', cls=cls_, attr=attr_,
                                                                              first=repr(acc[0])[:40], second=repr(acc[1])[:40]), read_back=repr(got)[:40])
                except Exception:
                    pass
                C.case(key=('two-objects', cls_, attr_), nontrivial=True, kind='two-objects')
        # Function / WeightedFunction constructors route the callable through the same setter: same outcome, and an
        # accepted callable (whatever its kind: function, lambda, callable object, bound method, partial) is stored
        for v in [(lambda x: 0.0), CallableObject(), CallableObject().method, functools.partial((lambda a, x: 0.0), 1.0), UnhashableCallable(),
                  decorated_one, decorated_two, decorated_twice, (lambda: 0.0), (lambda x, y: 0.0), (lambda x, y=2: 0.0), 3, None]:
            rp = dict(how='function-ctor', value=repr(v)[:60])
            probe = L['Function'](pointer=lambda x: 0.0)
            try:
                probe.pointer = v
                want = 'accept'
            except tuple(errname) as ex:
                want = errname[type(ex)]
            except Exception as ex:
                want = 'untyped:' + type(ex).__name__
            for how, build in (('Function', lambda: L['Function'](pointer=v)),
                               ('WeightedFunction', lambda: L['WeightedFunction'](functions=[v], weights=[1.0]))):
                try:
                    o_ = build()
                    got = 'accept'
                    stored = o_.pointer if how == 'Function' else o_.functions[0].pointer
                    if stored is not v:
                        C.issue('accepted-value-not-stored-unchanged', 'oracle', dict(rp, via=how))
                except tuple(errname) as ex:
                    got = errname[type(ex)]
                except Exception as ex:
                    got = 'untyped:' + type(ex).__name__
                if got != want:
                    C.issue('constructor-disagrees-with-setter', 'oracle', dict(rp, via=how), constructor=got, setter=want)
                C.case(key=('function-ctor', how, repr(v)[:40]), nontrivial=True, kind='function-ctor')
        # constructor dictionaries go through the same validation
        for name, K in L['kinds'].items():
            obj = K()
            for attr, val in list(vars(obj).items()):
                attr = attr.lstrip('_')
                if attr in ('algorithm', 'hyperparams', 'built') or isinstance(val, bool) or not isinstance(val, (int, float)):
                    continue
                for bad in ('x', None, [1]):
                    rp = dict(how='ctor', cls=name, attr=attr, value=repr(bad))
                    try:
                        K(hyperparams={attr: bad})
                        C.issue('constructor-bypasses-validation', 'oracle', rp)
                    except (e.TypeError, e.ValueError):
                        pass
                    except Exception as ex:
                        C.issue('constructor-untyped-error', 'oracle', rp, got=type(ex).__name__)
                    C.case(key=('ctor', name, attr, repr(bad)), nontrivial=True, kind='ctor')
                try:
                    o2 = K(hyperparams={attr: val})
                    if getattr(o2, attr) != val:
                        C.issue('constructor-did-not-store', 'oracle', dict(how='ctor', cls=name, attr=attr, value=repr(val)))
                except Exception as ex:
                    C.issue('constructor-rejects-default', 'oracle', dict(how='ctor', cls=name, attr=attr, value=repr(val)), got=type(ex).__name__)
        # ordered min/max pairs through the constructor dictionary, in both key orders: a pair is legal iff
        # min <= max, whatever the defaults and whatever the order in which the dictionary lists the keys
        for s_ in tables['setters']:
            for g in s_['guards']:
                cd = g['cdesc']
                if cd and cd[0] == 'ltAttr' and s_['cls'] in L['kinds']:
                    K = L['kinds'][s_['cls']]
                    hi_attr, lo_attr = s_['attr'], cd[1]
                    d_hi, d_lo = getattr(K(), hi_attr), getattr(K(), lo_attr)
                    span_ = max(abs(d_hi), abs(d_lo), 1.0)
                    for lo_v, hi_v in ((d_lo - 0.5 * span_ if d_lo - 0.5 * span_ >= 0 else 0.0, d_lo * 0.5 if d_lo > 0 else 0.0),
                                       (d_hi + 0.25 * span_, d_hi + 0.5 * span_), (d_hi + 0.5 * span_, d_hi + 0.25 * span_),
                                       (d_lo, d_lo), (d_hi * 0.9, d_hi * 0.5)):
                        for order in ('lo-first', 'hi-first'):
                            hp = {lo_attr: lo_v, hi_attr: hi_v} if order == 'lo-first' else {hi_attr: hi_v, lo_attr: lo_v}
                            # unit-interval companions (PAR, probabilities) stay inside [0, 1]
                            rp = dict(how='ctor-pair', cls=s_['cls'], attrs=[lo_attr, hi_attr], values=[lo_v, hi_v], order=order)
                            legal = lo_v <= hi_v
                            try:
                                o3 = K(hyperparams=hp)
                                ok = True
                                stored = (getattr(o3, lo_attr), getattr(o3, hi_attr))
                            except (e.TypeError, e.ValueError):
                                ok, stored = False, None
                            except Exception as ex:
                                C.issue('constructor-untyped-error', 'oracle', rp, got=type(ex).__name__)
                                continue
                            # values outside the attributes' own domains (e.g. > 1 for a unit-interval pair) are not a pair question
                            try:
                                pa, pb = K(), K()
                                setattr(pa, lo_attr, lo_v)
                                setattr(pb, hi_attr, max(hi_v, getattr(pb, lo_attr)))
                                in_own_domains = True
                            except Exception:
                                in_own_domains = False
                            if in_own_domains:
                                if ok != legal:
                                    C.issue('constructor-pair-validation-depends-on-key-order' if order == 'hi-first' else 'constructor-pair-validation', 'oracle', rp, accepted=ok, legal=legal)
                                elif ok and stored != (lo_v, hi_v):
                                    C.issue('constructor-did-not-store', 'oracle', rp, stored=stored)
                            C.case(key=('ctor-pair', s_['cls'], lo_attr, hi_attr, lo_v, hi_v, order), nontrivial=True, kind='ctor-pair')
        # size guards follow the *current* companion attribute: change it first, then try sizes around the new value
        for s_ in tables['setters']:
            for g in s_['guards']:
                if g['ddesc'] and g['ddesc'][0] == 'sameSize':
                    comp_attr = g['ddesc'][1]
                    for new_n in (1, 3, 4):
                        for order in ((s_['attr'],), ('ub', 'lb'), ('lb', 'ub')):
                            obj = make_obj(L, s_['cls'])
                            if obj is None or not hasattr(obj, comp_attr):
                                continue
                            try:
                                setattr(obj, comp_attr, new_n)
                            except Exception:
                                continue
                            for attr_ in order:
                                for size in (new_n - 1, new_n, new_n + 1):
                                    if size < 1:
                                        continue
                                    rp = dict(how='size-after-companion-change', cls=s_['cls'], attr=attr_, companion=comp_attr, new_value=new_n, size=size)
                                    try:
                                        setattr(obj, attr_, np.zeros(size))
                                        acc = True
                                    except e.SizeError:
                                        acc = False
                                    except Exception as ex:
                                        C.issue('wrong-error-class', 'oracle', rp, outcome=type(ex).__name__, expected='SizeError')
                                        continue
                                    if acc != (size == new_n):
                                        C.issue('domain-disagrees-with-setter', 'oracle', rp, accepted=acc, in_documented_domain=(size == new_n))
                                    C.case(key=('size', s_['cls'], attr_, new_n, size, order), nontrivial=True, kind='size-guard')
        C.extra['guards_in_table'] = n_guards
        C.extra['setters'] = sum(1 for s in tables['setters'] if s['guards'])
    finally:
        drv.close()
    return C.result()


def search(ctx, corr, broken):
    res = check(ctx)
    for i in res['issues']:
        if i['layer'] == 'oracle' and not i.get('known'):
            return i
    return None


def replay(prop, payload):
    import translate
    ctx = dict(seed=0, tier='quick', prop=prop, build=type('B', (), dict(tables=translate.run()))())
    res = check(ctx)
    return any(i['layer'] == 'oracle' and not i.get('known') and i['replay'].get('cls') == payload.get('cls')
               and i['replay'].get('attr') == payload.get('attr') for i in res['issues'])
