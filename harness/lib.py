"""Imports the library under test from /repo (current working tree) with logging silenced,
from a scratch cwd (importing opytimizer opens `opytimizer.log` in the cwd)."""
import os, sys, logging, warnings, importlib
from common import REPO, scratch_dir

_loaded = {}


def load():
    if _loaded:
        return _loaded
    d = scratch_dir()
    os.chdir(d)
    logging.disable(logging.CRITICAL)
    warnings.simplefilter('ignore')
    if REPO not in sys.path:
        sys.path.insert(0, REPO)
    for m in list(sys.modules):
        if m == 'opytimizer' or m.startswith('opytimizer.'):
            del sys.modules[m]
    import numpy as np
    np.seterr(all='ignore')
    import opytimizer
    assert os.path.realpath(opytimizer.__file__).startswith(os.path.realpath(REPO)), opytimizer.__file__
    from opytimizer import Opytimizer
    from opytimizer.core.function import Function
    from opytimizer.core.agent import Agent
    from opytimizer.core.node import Node
    from opytimizer.core.optimizer import Optimizer
    from opytimizer.spaces.search import SearchSpace
    from opytimizer.spaces.hyper import HyperSpace
    from opytimizer.spaces.tree import TreeSpace
    from opytimizer.utils.history import History
    from opytimizer.functions.weighted import WeightedFunction
    import opytimizer.utils.constants as c
    import opytimizer.utils.exception as e
    kinds = {}
    for n in ['abc', 'aiwpso', 'ba', 'bha', 'cs', 'fa', 'fpa', 'gp', 'gsa', 'hc', 'hs', 'ihs', 'pso', 'rpso',
              'sa', 'sca', 'wca']:
        mod = importlib.import_module('opytimizer.optimizers.' + n)
        kinds[n.upper()] = getattr(mod, n.upper())
    _loaded.update(dict(np=np, Opytimizer=Opytimizer, Function=Function, Agent=Agent, Node=Node,
                        Optimizer=Optimizer, SearchSpace=SearchSpace, HyperSpace=HyperSpace,
                        TreeSpace=TreeSpace, History=History, WeightedFunction=WeightedFunction,
                        c=c, e=e, kinds=kinds, opytimizer=opytimizer))
    return _loaded
