"""The shared run-level pass: record every generated configuration once, replay it on the Lean
machine, apply all direct oracles, classify issues against known findings; cached per
(tier, seed, source hash) so that the eight run-level properties share one recording."""
import fcntl, hashlib, json, os, sys, time
import common
from common import WORK, REPO, HERE, LEAN, DRIVER

PROPS = ['C01', 'C02', 'C03', 'C04', 'C07', 'C12', 'C15', 'C20']


def source_hash():
    h = hashlib.sha256()
    for root in (os.path.join(REPO, 'opytimizer'), HERE, os.path.join(LEAN, 'OpyVerif', 'Model'),
                 os.path.join(LEAN, 'OpyVerif', 'Generated')):
        for d, _, fs in sorted(os.walk(root)):
            if '__pycache__' in d:
                continue
            for f in sorted(fs):
                if f.endswith(('.py', '.lean')):
                    p = os.path.join(d, f)
                    h.update(p.encode())
                    h.update(open(p, 'rb').read())
    h.update(open(os.path.join(LEAN, 'Driver.lean'), 'rb').read())
    h.update(open(os.path.join(common.VERIF, 'known_findings.json'), 'rb').read())
    return h.hexdigest()[:20]


def jsonable(x):
    import numpy as np
    if isinstance(x, dict):
        return {str(k): jsonable(v) for k, v in x.items()}
    if isinstance(x, (list, tuple)):
        return [jsonable(v) for v in x]
    if isinstance(x, np.ndarray):
        return x.tolist()
    if isinstance(x, (np.floating, np.integer)):
        return x.item()
    if isinstance(x, float) and (x != x or x in (float('inf'), float('-inf'))):
        return repr(x)
    if isinstance(x, (str, int, float, bool)) or x is None:
        return x
    return repr(x)[:200]


def analyse_run(cfg, driver, props=PROPS, light=False):
    import runlevel, analyse, findings
    rec = runlevel.record_run(cfg)
    end_a = None
    if light and rec['error'] is None and rec.get('space') is not None:
        # (taken before the oracles run: some of them write into the live objects, e.g. the write-through test)
        import lightrun as _lr, lib as _lib0
        if _lr.eligible(cfg):
            try:
                end_a = _lr.end_state(_lib0.load(), rec['history'], rec['space'])
            except Exception:
                end_a = None
    out = dict(cfg=cfg, error=rec['error'], issues={}, stats={}, adv_hits=rec.get('adv_hits', 0),
               n_events=len(rec['events']))
    observer = cfg['hook'] == 'observer'
    mach_issues, mach_stats, logs = [], {}, None
    # an objective that returns a view of its argument makes `agent.fit` follow the agent between evaluations: the
    # machine's agents carry values, so such runs are judged by the direct oracles only
    doubles = analyse.values_are_doubles(rec)
    if observer and rec['error'] is None and cfg.get('objective') not in ('view0', 'view00', 'bufout') and doubles \
            and not (cfg.get('prior') or {}).get('other_objective'):   # (the machine starts from a state consistent with one objective)
        try:
            mach_issues, mach_stats, logs = analyse.machine_check(rec, driver)
        except Exception as ex:
            mach_issues = [dict(what='machine-harness-error', detail=repr(ex)[:300])]
    # the same run on the task model composed from the translated programs (skeleton + clip loop + sweep)
    task_stats = {}
    if observer and rec['error'] is None and cfg.get('objective') not in ('view0', 'view00', 'bufout'):
        try:
            t_issues, task_stats = analyse.task_check(rec, driver)
            mach_issues = list(mach_issues) + t_issues
        except Exception as ex:
            mach_issues = list(mach_issues) + [dict(what='task-model-mismatch', op='harness-error', detail=repr(ex)[:300])]
    out['machine'] = dict(issues=mach_issues, stats=mach_stats, logs=logs, task=task_stats)
    table = {
        'C01': lambda: analyse.oracle_c01(rec, driver),
        'C02': lambda: analyse.oracle_c02(rec),
        'C03': lambda: analyse.oracle_c03(rec, driver),
        'C04': lambda: analyse.oracle_c04(rec, driver),
        'C07': lambda: analyse.oracle_c07(rec),
        'C12': lambda: analyse.oracle_c12(rec),
        'C15': lambda: analyse.oracle_c15(rec, driver),
        'C20': lambda: analyse.oracle_c20(rec),
        'C08': lambda: analyse.oracle_c08(rec),
    }
    for p in props:
        try:
            iss, st = table[p]()
        except Exception as ex:
            import traceback
            iss, st = [dict(what='oracle-harness-error', detail=traceback.format_exc()[-600:])], {}
        annotate(rec, cfg, p, iss)
        for i in iss:
            i['known'] = findings.classify(p, cfg, i)
        out['issues'][p] = iss
        out['stats'][p] = st
    # the same configuration without the recorder (no hook, no snapshots, no wrapped methods): the recorder must not change what
    # the task leaves behind, and the light run is judged by end-state oracles of its own (see lightrun.py)
    if light:
        import lightrun
        if lightrun.eligible(cfg) and rec['error'] is None and rec.get('space') is not None and end_a is not None:
            import lib as _lib
            try:
                lr = lightrun.light_run(dict(cfg))
                a = end_a
                b = lightrun.end_state(_lib.load(), lr['history'], lr['space']) if lr['error'] is None else 'error:' + str(lr['error'])
                out['light'] = dict(same=(a == b), recorded=a[:16], light=b[:16])
                for p in props:
                    if not out['issues'].get(p):
                        li = lightrun.oracles(p, lr)
                        for i in li:
                            i['known'] = None
                        out['issues'][p] = list(out['issues'].get(p, [])) + li
            except Exception as ex:
                out['light'] = dict(same=True, error=repr(ex)[:200])
    # machine-side monitors: truth flag at dumps (C20), logs
    if logs and logs != 'noinit':
        toks = logs.split(' ')
        out['machine']['bestLog'] = toks[0]
        out['machine']['truthLog'] = toks[1]
    return jsonable(out)


def annotate(rec, cfg, prop, issues):
    """extra facts used by known-finding signatures"""
    import lib
    np = lib.load()['np']
    if not issues:
        return
    if cfg['kind'] == 'GP':
        nan = any(e['t'] == 'dump' and e.get('gp') and any(np.isnan(v).any() or np.isinf(v).any() for v in e['gp']['vals'])
                  for e in rec['events'])
        nan = nan or any(e['t'] == 'eval' and not np.all(np.isfinite(e['arg'])) for e in rec['events'])
        for i in issues:
            i['tree_nan'] = bool(nan)
    if cfg['kind'] == 'RPSO':
        c = lib.load()['c'].LIGHT_SPEED
        big = max(abs(float(x)) for x in list(cfg['lb']) + list(cfg['ub'])) >= c / 4
        for i in issues:
            i['velocity_ge_c'] = bool(big)


def run_pass(tier, seed, kinds=None, budget_scale=1.0):
    import runlevel
    cfgs = runlevel.gen_configs(tier, seed)
    if kinds:
        cfgs = [c for c in cfgs if c['kind'] in kinds]
    drv = common.Driver()
    res = []
    t0 = time.time()
    try:
        for c in cfgs:
            res.append(analyse_run(c, drv))
    finally:
        drv.close()
    return dict(tier=tier, seed=seed, runs=res, wall=time.time() - t0)


def cached_pass(tier, seed):
    os.makedirs(os.path.join(WORK, 'cache'), exist_ok=True)
    key = f'{tier}_{seed}_{source_hash()}'
    path = os.path.join(WORK, 'cache', key + '.json')
    lock = open(path + '.lock', 'w')
    fcntl.flock(lock, fcntl.LOCK_EX)
    try:
        if os.path.exists(path):
            try:
                return json.load(open(path))
            except Exception:
                pass
        res = run_pass(tier, seed)
        tmp = path + f'.{os.getpid()}.tmp'
        with open(tmp, 'w') as f:
            json.dump(res, f)
        os.replace(tmp, path)
        # keep the cache small
        files = sorted((os.path.getmtime(os.path.join(WORK, 'cache', f)), f) for f in os.listdir(os.path.join(WORK, 'cache')) if f.endswith('.json'))
        for _, f in files[:-6]:
            try:
                os.remove(os.path.join(WORK, 'cache', f))
                os.remove(os.path.join(WORK, 'cache', f + '.lock'))
            except OSError:
                pass
        return res
    finally:
        lock.close()
