"""Re-applies every kept seeded change to /repo, runs the check of its property, reverts, and
updates seeded/<id>/meta.json (`detected_by`).  Usage: seeded_regress.py [ids...]"""
import json, os, subprocess, sys, time
SEEDED = '/verif/seeded'

def sh(cmd, cwd=None):
    p = subprocess.run(cmd, shell=True, cwd=cwd, capture_output=True, text=True)
    return p.returncode, p.stdout + p.stderr

def main():
    ids = sys.argv[1:] or sorted(os.listdir(SEEDED))
    assert sh('git status --porcelain', '/repo')[1].strip() == '', '/repo not clean'
    missed = []
    for i in ids:
        d = os.path.join(SEEDED, i)
        meta = json.load(open(os.path.join(d, 'meta.json')))
        prop = meta['property']
        rc, out = sh(f'git apply {d}/patch.diff', '/repo')
        if rc != 0 or sh('git diff --stat', '/repo')[1].strip() == '':
            print(i, 'PATCH DOES NOT APPLY', out[-200:])
            sh('git checkout -- .', '/repo')
            continue
        t0 = time.time()
        try:
            rc, out = sh(f'./check {prop} quick', '/verif')
        finally:
            sh('git checkout -- .', '/repo')
        lines = [l for l in out.splitlines() if l.startswith('VIOLATION')]
        det = rc == 1 and bool(lines)
        how = 'no-failing-input-found' if lines and lines[0].endswith('no-failing-input-found') else ('failing-input' if det else None)
        meta.setdefault('detected_by', {})[prop] = det
        meta['last_regress'] = dict(exit=rc, how=how, line=lines[0] if lines else None, wall=round(time.time() - t0, 1))
        json.dump(meta, open(os.path.join(d, 'meta.json'), 'w'), indent=1)
        print(i, prop, 'DETECTED' if det else f'MISSED (exit {rc})', how, round(time.time() - t0, 1))
        if not det:
            missed.append(i)
    assert sh('git status --porcelain', '/repo')[1].strip() == ''
    print('missed:', missed)

if __name__ == '__main__':
    main()
