"""Validates seeded changes produced by sub-agents in their scratch worktrees and files the confirmed
ones under /verif/seeded/<prop>_<n>/ (patch.diff, demo.py, meta.json).  Nothing touches /repo.

usage: seedtest2.py <root>            # <root>/<Cxx>/seed{A,B}/{patch.diff,demo.py,meta.json}
A change is kept only if: the worktree is clean, demo exits 0 without the change, the patch applies,
the whole suite passes with it (3 attempts for the unseeded stochastic tests), demo exits 1 with it.
Detection is then measured with harness/mutants.py.
"""
import json, os, shutil, subprocess, sys
from concurrent.futures import ThreadPoolExecutor

SEEDED = '/verif/seeded'


def sh(cmd, cwd=None, env=None, timeout=1800):
    p = subprocess.run(cmd, shell=True, cwd=cwd, env=env, capture_output=True, text=True, timeout=timeout)
    return p.returncode, (p.stdout + p.stderr)


def validate(wt, prop):
    """runs sequentially inside one worktree; returns list of (seed dir, result dict)"""
    out = []
    env = dict(os.environ, PYTHONPATH=wt)
    sh('git checkout -- opytimizer', cwd=wt)
    for sd in sorted(d for d in os.listdir(wt) if d.startswith('seed') and os.path.isdir(os.path.join(wt, d))):
        res = dict(property=prop, seed=sd)
        try:
            if not all(os.path.exists(os.path.join(wt, sd, f)) for f in ('patch.diff', 'demo.py')):
                res['error'] = 'missing files'
                out.append((sd, res))
                continue
            res['demo_clean_exit'] = sh(f'/venv/bin/python {sd}/demo.py', cwd=wt, env=env, timeout=300)[0]
            rc, o = sh(f'git apply {sd}/patch.diff', cwd=wt)
            if rc != 0:
                res['error'] = 'patch does not apply: ' + o[-200:]
                out.append((sd, res))
                continue
            try:
                for attempt in range(3):
                    rc, o = sh('/venv/bin/python -m pytest -q -p no:cacheprovider --timeout=900 --continue-on-collection-errors 2>&1 | tail -3', cwd=wt, env=env)
                    res['tests_with_change'] = o.strip().splitlines()[-1] if o.strip() else ''
                    if 'failed' not in res['tests_with_change'] and 'error' not in res['tests_with_change']:
                        break
                    res['flaky_retry'] = attempt + 1
                rc, o = sh(f'/venv/bin/python {sd}/demo.py', cwd=wt, env=env, timeout=300)
                res['demo_changed_exit'] = rc
                res['demo_output'] = o[-400:]
            finally:
                sh('git checkout -- opytimizer', cwd=wt)
            res['confirmed'] = (res['demo_clean_exit'] == 0 and res['demo_changed_exit'] == 1
                                and 'passed' in res['tests_with_change'] and 'failed' not in res['tests_with_change'])
        except Exception as ex:
            res['error'] = repr(ex)
        out.append((sd, res))
    return out


def main():
    root = sys.argv[1]
    only = sys.argv[3:]
    props = sorted(d for d in os.listdir(root) if os.path.isdir(os.path.join(root, d)) and d.startswith('C') and (not only or d in only))
    kept = []
    with ThreadPoolExecutor(10) as ex:
        results = list(ex.map(lambda p: (p, validate(os.path.join(root, p), p)), props))
    for prop, rs in results:
        for sd, res in rs:
            if not res.get('confirmed'):
                print(prop, sd, 'NOT CONFIRMED', json.dumps(res)[:500])
                continue
            n = 1
            while os.path.exists(f'{SEEDED}/{prop}_{n}'):
                n += 1
            dest = f'{SEEDED}/{prop}_{n}'
            os.makedirs(dest)
            src = os.path.join(root, prop, sd)
            shutil.copy(os.path.join(src, 'patch.diff'), dest)
            shutil.copy(os.path.join(src, 'demo.py'), dest)
            meta = {}
            try:
                meta = json.load(open(os.path.join(src, 'meta.json')))
            except Exception:
                pass
            meta.update(property=prop, round=int(sys.argv[2]) if len(sys.argv) > 2 else 3,
                        confirmed_in_scratch_worktree=dict(tests=res['tests_with_change'], demo_exit_with_change=res['demo_changed_exit'],
                                                           demo_exit_without=res['demo_clean_exit']),
                        ran='harness/mutants.py: patch applied to a scratch worktree of /repo, `VERIF_REPO=<worktree> ./check <prop> quick` in a scratch copy of /verif, both removed afterwards')
            json.dump(meta, open(os.path.join(dest, 'meta.json'), 'w'), indent=1)
            kept.append(os.path.basename(dest))
            print(prop, sd, 'kept as', dest)
    print('KEPT', ' '.join(kept))


if __name__ == '__main__':
    main()
