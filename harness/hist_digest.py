"""What a user sees of a History: a canonical text of the recorded series read through attribute access.
Run as a script it loads a saved history in a *fresh interpreter* and prints that text (so that state which lives
outside the file — class attributes, module globals — cannot make the loaded object look right)."""
import hashlib, json, os, sys
sys.path.insert(0, os.path.dirname(os.path.abspath(__file__)))

NAMES = ('agents', 'best_agent', 'local', 'best_tree', 'time', 'store_best_only')


def canon(x, Node=None):
    import numpy as np
    if Node is not None and isinstance(x, Node):
        return ['node', str(x.name), str(x.type), canon(x.value, Node) if x.type == 'TERMINAL' else None,
                canon(x.left, Node), canon(x.right, Node)]
    if isinstance(x, np.ndarray):
        return ['nd', list(x.shape), [canon(v, Node) for v in x.ravel().tolist()]]
    if isinstance(x, (list, tuple)):
        return [type(x).__name__] + [canon(v, Node) for v in x]
    if isinstance(x, (bool, np.bool_)):
        return bool(x)
    if isinstance(x, (float, np.floating)):
        return float(x).hex()
    if isinstance(x, (int, np.integer)):
        return int(x)
    if x is None or isinstance(x, str):
        return x
    return repr(type(x))


def visible(h, Node, names=NAMES):
    out = {}
    for k in sorted(set(names) | {k for k in vars(h) if not k.startswith('_')}):
        if hasattr(h, k):
            out[k] = canon(getattr(h, k), Node)
    return out


def digest(h, Node):
    return hashlib.sha256(json.dumps(visible(h, Node), sort_keys=True).encode()).hexdigest()


if __name__ == '__main__':
    import lib
    L = lib.load()
    h = L['History']()
    empty = {k: canon(getattr(h, k), L['Node']) for k in NAMES if hasattr(h, k) and k != 'store_best_only'}
    h.load(sys.argv[1])
    print(json.dumps(dict(digest=digest(h, L['Node']), fresh_nonempty=sorted(k for k, v in empty.items() if v not in ([], ['list'], None)))))
