"""Validates a seeded change in its scratch worktree, then runs our checks against it in /repo.

usage: seedtest.py <worktree> <seed_dir_name> <property> [extra props...]
Writes /verif/seeded/<property>_<n>/{patch.diff,demo.py,meta.json}."""
import json, os, shutil, subprocess, sys, time

def sh(cmd, cwd=None, env=None, timeout=1800):
    p = subprocess.run(cmd, shell=True, cwd=cwd, env=env, capture_output=True, text=True, timeout=timeout)
    return p.returncode, (p.stdout + p.stderr)

def main():
    wt, sd, prop = sys.argv[1], sys.argv[2], sys.argv[3]
    extra = sys.argv[4:]
    seed = os.path.join(wt, sd)
    env = dict(os.environ, PYTHONPATH=wt)
    res = dict(property=prop, worktree=wt, seed=sd)
    assert sh('git status --porcelain -- opytimizer', cwd=wt)[1].strip() == '', 'worktree not clean'
    assert sh('git status --porcelain', cwd='/repo')[1].strip() == '', '/repo not clean'
    # 1. scratch validation
    rc, out = sh(f'/venv/bin/python {sd}/demo.py', cwd=wt, env=env)
    res['demo_clean_exit'] = rc
    rc, out = sh(f'git apply {sd}/patch.diff', cwd=wt)
    assert rc == 0, out
    try:
        for attempt in range(3):   # the suite has unseeded stochastic tests (test_gp_run, test_sa_run): retry a flaky failure
            rc, out = sh('/venv/bin/python -m pytest -q -p no:cacheprovider --timeout=900 --continue-on-collection-errors -q 2>&1 | tail -3', cwd=wt, env=env)
            res['tests_with_change'] = out.strip().splitlines()[-1] if out.strip() else ''
            if 'failed' not in res['tests_with_change']:
                break
            res['flaky_retry'] = attempt + 1
        rc, out = sh(f'/venv/bin/python {sd}/demo.py', cwd=wt, env=env)
        res['demo_changed_exit'] = rc
        res['demo_output'] = out[-600:]
    finally:
        sh('git checkout -- opytimizer', cwd=wt)
    res['confirmed'] = (res['demo_clean_exit'] == 0 and res['demo_changed_exit'] == 1 and 'passed' in res['tests_with_change'] and 'failed' not in res['tests_with_change'])
    # 2. our checks against /repo with the change applied
    rc, out = sh(f'git apply {seed}/patch.diff', cwd='/repo')
    assert rc == 0, out
    res['checks'] = {}
    try:
        for p in [prop] + extra:
            t0 = time.time()
            rc, out = sh(f'./check {p} quick', cwd='/verif')
            lines = [l for l in out.splitlines() if l.startswith('VIOLATION') or l.startswith(p + ' ')]
            rp = None
            for l in lines:
                if l.startswith('VIOLATION') and 'replay=' in l:
                    path = l.split('replay=')[1].split()[0]
                    try:
                        r = json.load(open(path))
                        rp = dict(kind=r.get('kind'), what=(r.get('issue') or {}).get('what'),
                                  broken=[b.get('name') for b in r.get('broken_obligations', [])][:4])
                    except Exception:
                        pass
            res['checks'][p] = dict(exit=rc, lines=lines[:4], replay=rp, wall=round(time.time() - t0, 1))
    finally:
        sh('git checkout -- .', cwd='/repo')
    assert sh('git status --porcelain', cwd='/repo')[1].strip() == ''
    # 3. keep
    meta = {}
    try:
        meta = json.load(open(os.path.join(seed, 'meta.json')))
    except Exception:
        pass
    n = 1
    while os.path.exists(f'/verif/seeded/{prop}_{n}'):
        n += 1
    dest = f'/verif/seeded/{prop}_{n}'
    if res['confirmed']:
        os.makedirs(dest)
        shutil.copy(os.path.join(seed, 'patch.diff'), dest)
        shutil.copy(os.path.join(seed, 'demo.py'), dest)
        meta.update(dict(property=prop, confirmed_in_scratch_worktree=dict(tests=res['tests_with_change'],
                    demo_exit_with_change=res['demo_changed_exit'], demo_exit_without=res['demo_clean_exit']),
                    ran='git -C /repo apply patch.diff; ./check <prop> quick; git -C /repo checkout -- .',
                    detected_by={p: (c['exit'] == 1) for p, c in res['checks'].items()},
                    detection={p: c for p, c in res['checks'].items()}))
        json.dump(meta, open(os.path.join(dest, 'meta.json'), 'w'), indent=1)
        res['kept_as'] = dest
    print(json.dumps(res, indent=1)[:3000])

if __name__ == '__main__':
    main()
