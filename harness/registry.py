"""Which Lean theorems are the obligations of which property.  Theorem names are read from the
property files on every run (so the count is measured, never a constant); generated
obligations (skeletons, guards, constants) are read from the files the translator just wrote."""
import os, re
from common import LEAN

# property -> list of (module, namespace, regex on theorem names or None for all)
TABLE = {
    'C01': [('OpyVerif.Proofs.C01', 'Opy', None),
            ('OpyVerif.Proofs.ClipCode', 'Opy', r'code_(agentClip|searchClip|hyperClip)(_inBox|_inUnitBox)?$'),
            ('OpyVerif.Proofs.ClipProg', 'Opy', None), ('OpyVerif.Generated.ClipLoops', 'Opy.Gen', None),
            ('OpyVerif.Proofs.C06', 'Opy', r'clip(Pos|All|Hyper|Row)?_(inBox|mem|shape|length|inUnitBox)|boundsOk_unit'),
            ('OpyVerif.Proofs.C03', 'Opy', r'clip_precedes_hook|sweep_follows_hook'),
            ('OpyVerif.Generated.Skeletons', 'Opy.Gen', r'skel_\w+_good|evalSites_ok|evalSites_nonempty'),
            ('OpyVerif.Proofs.InitCode', 'Opy', None), ('OpyVerif.Generated.Init', 'Opy.Gen', None),
            ('OpyVerif.Generated.FormulasC18', 'Opy.Gen', r'uniformWrapper_eq|gaussianWrapper_eq'),
            ('OpyVerif.Proofs.TaskRun', 'Opy', r'^(goodBody_pattern|good_pattern|exec_body|task_evals_inBox|task_best_inBox|task_best_evaluated)$'),
            ('OpyVerif.Proofs.TaskRunCodeBox', 'Opy', r'code_task_evals_in|clipsInto'), ('OpyVerif.Proofs.TaskRunCodeSkel', 'Opy', r'code_taskSkeletons_good'),
            ('OpyVerif.Proofs.TaskRunCode', 'Opy', r'code_task_best_inBox|code_taskSweeps_plain'),
            ('OpyVerif.Proofs.TaskAnyTrial', 'Opy', r'^(anyUpdate_spec|scan_append|scan_runSkel|scan_sound|task_all_evals_inBox|code_task_all_evals_inBox|code_anyTrial_ok)$'),
            ('OpyVerif.Proofs.TaskTrial', 'Opy', r'^(trialStep_evals_inBox|greedyUpdate_evals_inBox|task_greedy)$'),
            ('OpyVerif.Proofs.TaskTrialCode', 'Opy', r'code_trial_evals_inBox|code_trialSites_ok|code_task_greedy')],
    'C02': [('OpyVerif.Proofs.C02', 'Opy', None),
            ('OpyVerif.Proofs.SweepCode', 'Opy', None), ('OpyVerif.Proofs.SweepProg', 'Opy', None),
            ('OpyVerif.Generated.Sweeps', 'Opy.Gen', None),
            ('OpyVerif.Proofs.Accept', 'Opy', r'best_site_is_sweep_rule|accept_takes_better'),
            ('OpyVerif.Generated.Accepts', 'Opy.Gen', r'acceptSites_ok|best_sites_present'),
            ('OpyVerif.Proofs.Lemmas.MachineInv', 'Opy', r'inv_(apply|run|init)'),
            ('OpyVerif.Generated.Constants', 'Opy.Gen', r'floatMax_is_sys_max'),
            ('OpyVerif.Generated.Skeletons', 'Opy.Gen', r'skel_\w+_good'),
            ('OpyVerif.Proofs.TaskRun', 'Opy', r'^(sweepPop_best|sweepPop_best_from|bestInv_execEv|task_best|task_best_evaluated|rule_best|sweepAgent_fit_le)$'),
            ('OpyVerif.Proofs.TaskRunCode', 'Opy', r'code_task_best$|isRule|code_task_best_is_min'),
            ('OpyVerif.Proofs.TaskRun', 'Opy', r'^(evald_execEv|task_best_is_min)$'),
            ('OpyVerif.Proofs.TaskTrial', 'Opy', r'^(runOps_one|accept_bound|trialStep_bound|greedyUpdate_bound|trialBound_execEv|ginv2_exec|task_greedy_best_is_min)$'),
            ('OpyVerif.Proofs.TaskTrialCode', 'Opy', r'code_task_greedy_best_is_min|code_sites_one_eval|code_greedySites_ok|code_trialSites_ok')],
    'C03': [('OpyVerif.Proofs.C03', 'Opy', None),
            ('OpyVerif.Proofs.C03norm', 'Opy', None), ('OpyVerif.Proofs.C03onlooker', 'Opy', None),
            ('OpyVerif.Proofs.Budget', 'Opy', None), ('OpyVerif.Generated.Budget', 'Opy.Gen', None),
            ('OpyVerif.Proofs.SweepCode', 'Opy', r'code_sweeps_eval_once|code_sweep_owners'), ('OpyVerif.Generated.Sweeps', 'Opy.Gen', None),
            ('OpyVerif.Generated.Skeletons', 'Opy.Gen', r'skel_\w+_good'),
            ('OpyVerif.Proofs.C18real', 'Opy', r'index_draw_range'),
            ('OpyVerif.Proofs.TaskRun', 'Opy', r'^(goodBody_pattern|good_pattern|exec_body|exec_pre|task_logs|task_sweep_calls)$'),
            ('OpyVerif.Proofs.TaskRunCodeSkel', 'Opy', r'code_task_logs|code_task_sweep_calls|code_taskSkeletons_good'),
            ('OpyVerif.Proofs.TaskRunCode', 'Opy', r'code_taskSweeps_plain'),
            ('OpyVerif.Proofs.TaskAnyTrial', 'Opy', r'^(anyUpdate_calls|code_anyUpdate_calls)$'),
            ('OpyVerif.Proofs.TaskTrialCode', 'Opy', r'code_sites_one_eval')],
    'C04': [('OpyVerif.Proofs.C04', 'Opy', r'dump|lookup_appendAttr'),
            ('OpyVerif.Generated.Ops', 'Opy.Gen', r'dumpSkips_spec|dump_guard_known|parseRules_spec'),
            ('OpyVerif.Proofs.C19', 'Opy', r'dump_series'),
            ('OpyVerif.Generated.Constants', 'Opy.Gen', r'historyKeys_eq'),
            ('OpyVerif.Generated.Skeletons', 'Opy.Gen', r'skel_\w+_good'),
            ('OpyVerif.Proofs.HistCode', 'Opy', r'code_start_time'), ('OpyVerif.Generated.HistProg', 'Opy.Gen', r'startProg_eq'),
            ('OpyVerif.Proofs.TaskRun', 'Opy', r'^(good_pattern|exec_body|task_logs|task_last_dump|task_dumps_append|task_dumps_prefix)$'),
            ('OpyVerif.Proofs.TaskRunCodeSkel', 'Opy', r'code_task_logs|code_task_last_dump|code_task_dumps_prefix|code_taskSkeletons_good')],
    'C05': [('OpyVerif.Proofs.C05', 'Opy', None), ('OpyVerif.Proofs.C05code', 'Opy', None),
            ('OpyVerif.Model.EffectSites', 'Opy', None), ('OpyVerif.Generated.Effects', 'Opy.Gen', None)],
    'C06': [('OpyVerif.Proofs.C06', 'Opy', None),
            ('OpyVerif.Proofs.ClipCode', 'Opy', None), ('OpyVerif.Proofs.ClipProg', 'Opy', None),
            ('OpyVerif.Generated.ClipLoops', 'Opy.Gen', None),
            ('OpyVerif.Generated.Guards', 'Opy.Gen', r'guard_mismatches|guardTable_size'),
            ('OpyVerif.Proofs.C14', 'Opy.G', r'agree_sound|accepts_iff_all_domains'),
            ('OpyVerif.Proofs.C18real', 'Opy', r'uniformAffine_mem'),
            ('OpyVerif.Proofs.InitProg', 'Opy', None), ('OpyVerif.Proofs.InitCode', 'Opy', None), ('OpyVerif.Generated.Init', 'Opy.Gen', None),
            ('OpyVerif.Generated.FormulasC18', 'Opy.Gen', r'uniformWrapper_eq|gaussianWrapper_eq'),
            ('OpyVerif.Proofs.CreateCode', 'Opy', None), ('OpyVerif.Generated.Create', 'Opy.Gen', None)],
    'C07': [('OpyVerif.Proofs.C07', 'Opy', None),
            ('OpyVerif.Proofs.Accept', 'Opy', r'accept_private|accept_pair'),
            ('OpyVerif.Generated.Accepts', 'Opy.Gen', r'acceptSites_ok'),
            ('OpyVerif.Proofs.CreateProg', 'Opy', None), ('OpyVerif.Proofs.CreateCode', 'Opy', None), ('OpyVerif.Generated.Create', 'Opy.Gen', None)],
    'C08': [('OpyVerif.Proofs.C08ops', 'Opy.PNode', None), ('OpyVerif.Proofs.C08grow', 'Opy.PNode', None),
            ('OpyVerif.Generated.Constants', 'Opy.Gen', r'nArgs_'),
            ('OpyVerif.Proofs.HeapCode', 'Opy', None), ('OpyVerif.Generated.HeapOps', 'Opy.Gen', None),
            ('OpyVerif.Proofs.GrowProg', 'Opy', None), ('OpyVerif.Proofs.GrowCode', 'Opy', None), ('OpyVerif.Generated.Grow', 'Opy.Gen', None),
            ('OpyVerif.Proofs.Forest', 'Opy', None),
            ('OpyVerif.Proofs.PopLoops', 'Opy', None), ('OpyVerif.Proofs.PopLoopsCode', 'Opy', None), ('OpyVerif.Generated.PopLoops', 'Opy.Gen', None),
            ('OpyVerif.Proofs.TreesProg', 'Opy', None), ('OpyVerif.Proofs.TreesCode', 'Opy', None), ('OpyVerif.Generated.Trees', 'Opy.Gen', None),
            ('OpyVerif.Proofs.GPRun', 'Opy', None), ('OpyVerif.Proofs.GPRunCode', 'Opy', None), ('OpyVerif.Generated.GPRun', 'Opy.Gen', None)],
    'C09': [('OpyVerif.Proofs.C09', 'Opy.PNode', None), ('OpyVerif.Proofs.C09repro', 'Opy.PNode', None),
            ('OpyVerif.Proofs.ReproProg', 'Opy', None), ('OpyVerif.Proofs.ReproCode', 'Opy', None), ('OpyVerif.Generated.Repro', 'Opy.Gen', None),
            ('OpyVerif.Proofs.SelectProg', 'Opy', r'tournProg'), ('OpyVerif.Generated.Select', 'Opy.Gen', r'tournProg_eq'),
            ('OpyVerif.Proofs.Heap', 'Opy', None), ('OpyVerif.Proofs.HeapCode', 'Opy', None), ('OpyVerif.Generated.HeapOps', 'Opy.Gen', None),
            ('OpyVerif.Proofs.PopLoopsCode', 'Opy', None), ('OpyVerif.Generated.PopLoops', 'Opy.Gen', None)],
    'C10': [('OpyVerif.Proofs.C10', 'Opy', None), ('OpyVerif.Proofs.C10real', 'Opy', None),
            ('OpyVerif.Proofs.OpTable', 'Opy', None),
            ('OpyVerif.Generated.Ops', 'Opy.Gen', r'opTable_eq|terminal_returns_value|evalProg_eq'),
            ('OpyVerif.Proofs.EvalProg', 'Opy', None), ('OpyVerif.Proofs.EvalCode', 'Opy', None),
            ('OpyVerif.Generated.Constants', 'Opy.Gen', r'nArgs_|epsilon_pos')],
    'C11': [('OpyVerif.Proofs.C11', 'Opy.PNode', None), ('OpyVerif.Proofs.NodeWalk', 'Opy', None),
            ('OpyVerif.Proofs.WalkCode', 'Opy', None), ('OpyVerif.Generated.Walks', 'Opy.Gen', None),
            ('OpyVerif.Proofs.FindProg', 'Opy', None), ('OpyVerif.Proofs.FindCode', 'Opy', None), ('OpyVerif.Generated.Find', 'Opy.Gen', None),
            ('OpyVerif.Proofs.BfsProg', 'Opy', None), ('OpyVerif.Proofs.PropsCode', 'Opy', None), ('OpyVerif.Generated.Props', 'Opy.Gen', None)],
    'C12': [('OpyVerif.Proofs.C12', 'Opy', None),
            ('OpyVerif.Proofs.SweepCode', 'Opy', r'code_gpSweep'), ('OpyVerif.Proofs.SweepProg', 'Opy', r'gpSweep'),
            ('OpyVerif.Generated.Sweeps', 'Opy.Gen', r'gpSweep_eq|sweepOwners_eq'),
            ('OpyVerif.Generated.Skeletons', 'Opy.Gen', r'skel_GP_good|evalSites_ok')],
    'C13': [('OpyVerif.Proofs.C13', 'Opy', None),
            ('OpyVerif.Proofs.C13code', 'Opy', None),
            ('OpyVerif.Proofs.ClipCode', 'Opy', r'code_hyperClip'), ('OpyVerif.Proofs.ClipProg', 'Opy', r'hyperClip_run|clipRows_lit'),
            ('OpyVerif.Generated.ClipLoops', 'Opy.Gen', r'hyperClip_eq|boundWrites_eq|no_other_clip_override'), ('OpyVerif.Proofs.Formulas', 'Opy', r'^d_(span|norm)$'),
            ('OpyVerif.Generated.FormulasC13', 'Opy.Gen', None),
            ('OpyVerif.Proofs.C06', 'Opy', r'clipHyper'),
            ('OpyVerif.Proofs.InitCode', 'Opy', r'code_hyperInit'), ('OpyVerif.Generated.Init', 'Opy.Gen', r'hyperInit_eq'),
            ('OpyVerif.Proofs.TaskRunCodeBox', 'Opy', r'code_task_evals_inUnitBox|code_hyperClip_clipsInto'),
            ('OpyVerif.Proofs.TaskTrialCode', 'Opy', r'code_task_greedy_hyper|code_hyperClip_fixes')],
    'C14': [('OpyVerif.Proofs.C14', 'Opy.G', None),
            ('OpyVerif.Generated.Guards', 'Opy.Gen', None)],
    'C15': [('OpyVerif.Proofs.C15', 'Opy', None),
            ('OpyVerif.Proofs.C15code', 'Opy', None), ('OpyVerif.Proofs.Formulas', 'Opy', r'^d_(aiwpso_w|ihs_PAR|ihs_bw|sa_T|fa_alpha|wca_dmax)$'),
            ('OpyVerif.Generated.FormulasC15', 'Opy.Gen', None)],
    'C16': [('OpyVerif.Proofs.C16', 'Opy', None),
            ('OpyVerif.Proofs.C16code', 'Opy', None), ('OpyVerif.Proofs.Formulas', 'Opy', r'^(d_weightedBody|weighted_is_body_fold)$'),
            ('OpyVerif.Generated.FormulasC16', 'Opy.Gen', None)],
    'C17': [('OpyVerif.Proofs.C17', 'Opy', None),
            ('OpyVerif.Proofs.C17code', 'Opy', None),
            ('OpyVerif.Proofs.Formulas', 'Opy', r'^d_(ackley1|alpine1|alpine2|brown|chung_reynolds|cosine_mixture|csendes|deb1|deb2|exponential|quintic|rastringin|salomon|schumer_steiglitz|schwefel|sphere|styblinski_tang)$'),
            ('OpyVerif.Generated.FormulasC17', 'Opy.Gen', None)],
    'C18': [('OpyVerif.Proofs.C18', 'Opy', None), ('OpyVerif.Proofs.C18real', 'Opy', None),
            ('OpyVerif.Proofs.C18code', 'Opy', None), ('OpyVerif.Proofs.Formulas', 'Opy', r'^d_levy$'),
            ('OpyVerif.Generated.FormulasC18', 'Opy.Gen', None),
            ('OpyVerif.Proofs.SelectProg', 'Opy', None), ('OpyVerif.Generated.Select', 'Opy.Gen', None),
            ('OpyVerif.Generated.Constants', 'Opy.Gen', r'tournamentSize_pos'),
            ('OpyVerif.Generated.Effects', 'Opy.Gen', r'hiddenState_none')],
    'C19': [('OpyVerif.Proofs.C19', 'Opy', None),
            ('OpyVerif.Proofs.C04', 'Opy', r'load_after_save|lookup_loadInto_saved'),
            ('OpyVerif.Proofs.HistCode', 'Opy', r'code_get'), ('OpyVerif.Generated.HistProg', 'Opy.Gen', r'getProg_eq'),
            ('OpyVerif.Proofs.PersistProg', 'Opy', None), ('OpyVerif.Proofs.PersistCode', 'Opy', None), ('OpyVerif.Generated.Persist', 'Opy.Gen', None)],
    'C20': [('OpyVerif.Proofs.C20', 'Opy', None),
            ('OpyVerif.Proofs.SweepCode', 'Opy', None), ('OpyVerif.Proofs.SweepProg', 'Opy', r'_truthful|_is_machine_rule|eval_once'),
            ('OpyVerif.Generated.Sweeps', 'Opy.Gen', None),
            ('OpyVerif.Proofs.Accept', 'Opy', r'accept_never_worse|accept_pair'),
            ('OpyVerif.Generated.Accepts', 'Opy.Gen', r'acceptSites_ok|replacing_sites'),
            ('OpyVerif.Proofs.C06', 'Opy', r'clipPos_fixed'),
            ('OpyVerif.Proofs.Lemmas.MachineInv', 'Opy', r'inv_(apply|run|init)'),
            ('OpyVerif.Proofs.TaskTrial', 'Opy', r'^(leAll_refl|leAll_trans|leAll_set|trialStep_pop|greedyUpdate_evals_inBox|sweepPop_pop|ginv_execEv|ginv_exec|task_greedy)$'),
            ('OpyVerif.Proofs.TaskTrialCode', 'Opy', r'code_task_greedy|code_greedySites_ok|code_trialSites_ok|code_searchClip_fixes|code_hyperClip_fixes'),
            ('OpyVerif.Proofs.TaskSwarm', 'Opy', r'^(memory_fits|memory_mem|leAll_map|swarm_sweep_fit|swInv_execEv|swInv_exec|task_swarm)$'),
            ('OpyVerif.Proofs.TaskSwarmCode', 'Opy', r'code_task_swarm'), ('OpyVerif.Proofs.TaskHarmony', 'Opy', r'hsMemory_iter'),
            ('OpyVerif.Proofs.TaskRunCode', 'Opy', r'code_psoSweep_isRule|code_genericSweep_isRule'),
            ('OpyVerif.Generated.Skeletons', 'Opy.Gen', r'skel_\w+_good|evalSites_ok')],
}


def module_path(mod):
    return os.path.join(LEAN, *mod.split('.')) + '.lean'


def theorems_in(mod):
    """[(namespace-qualified name, line)] for every `theorem` of the file (namespaces tracked)"""
    p = module_path(mod)
    if not os.path.exists(p):
        return None
    out = []
    ns = []
    for i, l in enumerate(open(p).read().split('\n'), 1):
        m = re.match(r'^namespace\s+(\S+)', l)
        if m:
            ns.append(m.group(1))
            continue
        m = re.match(r'^end\s+(\S+)\s*$', l)
        if m and ns and ns[-1].split('.')[-1] == m.group(1).split('.')[-1]:
            ns.pop()
            continue
        m = re.match(r'^(?:@\[[^\]]*\]\s*)?(?:protected\s+|private\s+)?theorem\s+([^\s:({\[]+)', l)
        if m:
            out.append(('.'.join(ns + [m.group(1)]), i))
    return out


def expand(mod, depth=0):
    """a module that only imports others (the per-theorem parts of a generated file, the per-method parts of a split proof
    file) stands for those modules"""
    p = module_path(mod)
    if not os.path.exists(p):
        return [mod]
    src = open(p).read()
    if re.search(r'^(?:@\[[^\]]*\]\s*)?(?:protected\s+|private\s+)?theorem\s', src, re.M) or depth > 2:
        return [mod]
    imps = [m for m in re.findall(r'^import\s+(OpyVerif\.\S+)', src, re.M) if not m.endswith('Defs')]
    if not imps or not all(i.startswith(mod + '.') or i.startswith(mod) for i in imps):
        return [mod]
    out = []
    for i in imps:
        out += expand(i, depth + 1)
    return out


def obligations(prop):
    """-> (modules, [theorem names], missing modules)"""
    mods, thms, missing = [], [], []
    for mod0, ns, rx in TABLE[prop]:
        for mod in expand(mod0):
            ts = theorems_in(mod)
            if ts is None:
                missing.append(mod)
                continue
            sel = [n for n, _ in ts if rx is None or re.search(rx, n.split('.')[-1])]
            if sel:
                mods.append(mod)
                thms += sel
    return mods, thms, missing


def owner_props(file_rel, line=None):
    """properties whose obligations live in this file (for mapping build errors)"""
    mod = file_rel[:-5].replace('/', '.') if file_rel.endswith('.lean') else file_rel
    owners = []
    name = None
    if line is not None:
        ts = theorems_in(mod) or []
        prev = [n for n, ln in ts if ln <= line]
        name = prev[-1] if prev else None
    if name is None and mod.startswith('OpyVerif.Generated.') and mod.count('.') == 3:
        # a per-theorem part: the theorem is named by the file
        ts = theorems_in(mod) or []
        name = ts[0][0] if ts else None
    for prop, rows in TABLE.items():
        for m, ns, rx in rows:
            if m == mod or mod in expand(m) or (mod.endswith('Defs') and m == mod[:-4]):
                if name is None or rx is None or re.search(rx, name.split('.')[-1]):
                    owners.append(prop)
    if 'Model' in mod or 'Lemmas' in mod or mod.endswith('Defs') or mod.endswith('.All') or mod == 'Driver':
        owners = sorted(set(owners) | set(TABLE))   # a broken model/helper breaks everything built on it
    return sorted(set(owners)), name
