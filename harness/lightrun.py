"""Runs of a configuration with (almost) no instrumentation: no hook, no snapshots, no wrapped library methods — only the
objective logs its calls (a copy of the argument and the value).  The run-level recorder reads the live objects at every
objective call and hook (positions, fitness, tree values); code whose *reads* have effects (an evaluation that writes into a
shared array, a getter that caches or normalises) behaves differently under that recorder, and a defect can hide behind it.
A light run is what a user sees.  `compare(cfg)` says whether the recorder changed what the task leaves behind;
`oracles(prop, …)` judge the light run's end state and records."""
import hashlib, sys
import lib, runlevel
from runlevel import fnum


def eligible(cfg):
    return cfg.get('adv', 0.0) == 0.0 and not cfg.get('adv_init') and cfg.get('hook') == 'observer' and not cfg.get('prior') \
        and cfg.get('objective') not in ('weighted',)


def end_state(L, h_, sp):
    np = L['np']
    out = []

    def feed(x):
        if isinstance(x, (list, tuple)):
            out.append('[')
            for y in x:
                feed(y)
            out.append(']')
        elif isinstance(x, float):
            out.append(x.hex())
        elif hasattr(x, 'tolist'):
            feed(x.tolist())
        elif isinstance(x, (int, str, bool)) or x is None:
            out.append(repr(x))
        else:
            import treeutil as T
            try:
                out.append(T.canon(x))
                for n in T.walk(x)[0]:
                    if n.value is not None:
                        feed(n.value)
            except Exception:
                out.append(type(x).__name__)

    def num(v):
        return float(np.asarray(v).reshape(-1)[0]) if np.size(v) == 1 else np.asarray(v)
    for k in sorted(vars(h_)):
        if k == 'time':
            continue
        out.append(k)
        feed(getattr(h_, k))
    for a in sp.agents:
        feed(a.position)
        feed(num(a.fit))
    feed(sp.best_agent.position)
    feed(num(sp.best_agent.fit))
    if hasattr(sp, 'trees'):
        for t in sp.trees:
            feed(t)
        feed(sp.best_tree)
    return hashlib.sha256('|'.join(out).encode()).hexdigest()


def light_run(cfg):
    """-> dict(calls=[(arg copy, value)], marks=[number of calls when each record was written], history, space, of, error)"""
    L = lib.load()
    np = L['np']
    runlevel.REC.reset()
    runlevel.REC.active = False
    sp, opt, fn, of = runlevel.build_task(L, cfg, [])
    calls, marks = [], []

    def logged(x):
        v = of(x)
        calls.append((np.array(x, copy=True), fnum(v)))
        return v
    task = runlevel.make_task(L, cfg, sp, opt, L['Function'](pointer=logged))
    import opytimizer.utils.history as hm
    orig = hm.History.dump

    def dump(self, **kw):
        if 'best_agent' in kw:
            marks.append(len(calls))
        return orig(self, **kw)
    hm.History.dump = dump
    out = dict(calls=calls, marks=marks, of=of, cfg=cfg, error=None, history=None, space=sp)
    try:
        sbo = cfg['store_best_only']
        if cfg.get('sbo_type') == 'np':
            sbo = np.bool_(sbo)
        elif cfg.get('sbo_type') == 'int':
            sbo = int(sbo)
        out['history'] = task.start(store_best_only=sbo)
    except Exception as ex:
        out['error'] = type(ex).__name__ + ': ' + str(ex)[:120]
    finally:
        hm.History.dump = orig
    return out


def compare(cfg, rec):
    """-> None if the recorded run `rec` (runlevel.record_run) and a light run leave the same end state, else a description"""
    L = lib.load()
    if rec.get('error') is not None or rec.get('space') is None:
        return None
    a = end_state(L, rec['history'], rec['space'])
    lr = light_run(dict(cfg))
    if lr['error'] is not None:
        return dict(light_error=lr['error'])
    b = end_state(L, lr['history'], lr['space'])
    return None if a == b else dict(recorded=a[:16], light=b[:16])


def oracles(prop, lr):
    """end-state / record oracles on a light run -> list of issues (dicts with `what`)"""
    L = lib.load()
    np = L['np']
    cfg = lr['cfg']
    issues = []
    if lr['error'] is not None:
        return issues
    sp, h_, calls, of = lr['space'], lr['history'], lr['calls'], lr['of']
    hyper = cfg['space'] == 'hyper'
    lo = np.array([0.0] * cfg['n_vars'] if hyper else cfg['lb'], dtype=float)[:, None]
    hi = np.array([1.0] * cfg['n_vars'] if hyper else cfg['ub'], dtype=float)[:, None]
    vals = [v for _, v in calls if v == v]
    if prop == 'C01':
        for k, (a, _) in enumerate(calls):
            if a.ndim != 2 or a.shape[0] != cfg['n_vars'] or not np.all(np.isfinite(a)) or np.any(a < lo) or np.any(a > hi):
                issues.append(dict(what='light-eval-infeasible', call=k, arg=a.tolist()))
                break
        b = np.asarray(sp.best_agent.position, dtype=float)
        if calls and vals and (not np.all(np.isfinite(b)) or np.any(b < lo) or np.any(b > hi)):
            issues.append(dict(what='light-best-infeasible', best=b.tolist()))
    if prop == 'C02' and vals and cfg['objective'] != 'fmax':
        bf = fnum(sp.best_agent.fit)
        if bf != min(vals):
            issues.append(dict(what='light-best-not-min', best_fit=bf, min=min(vals)))
        elif not any(v == bf and a.shape == np.shape(sp.best_agent.position) and np.array_equal(a, sp.best_agent.position) for a, v in calls):
            issues.append(dict(what='light-best-pos-not-evaluated', best_fit=bf))
        recs = getattr(h_, 'best_agent', [])
        for t, (r_, m_) in enumerate(zip(recs, lr['marks'])):
            seen = [v for _, v in calls[:m_] if v == v]
            if seen and fnum(r_[1]) != min(seen):
                issues.append(dict(what='light-record-best-not-min', t=t, recorded=fnum(r_[1]), min=min(seen)))
                break
    if prop == 'C20' and cfg['kind'] not in runlevel.SWARM and cfg['kind'] != 'WCA':
        for i, a in enumerate(sp.agents):
            f = fnum(a.fit)
            try:
                g = fnum(of(np.array(a.position, copy=True)))
            except Exception:
                continue
            if f == f and g == g and f != g:
                issues.append(dict(what='light-final-fitness-untruthful', agent=i, stored=f, objective=g))
                break
    if prop == 'C03':
        N, n = cfg['n_iter'], cfg['n_agents']
        recs = getattr(h_, 'best_agent', [])
        if len(recs) != N:
            issues.append(dict(what='light-iteration-count', records=len(recs), expected=N))
        lo_b, hi_b = runlevel.budget(cfg['kind'], n)
        total = len(calls)
        # the initial sweep, then per iteration at least one call per agent and at most the algorithm's budget
        if total < n * (N + 1) or total > n + N * hi_b:
            issues.append(dict(what='light-call-count', calls=total, min=n * (N + 1), max=n + N * hi_b))
    if prop == 'C04':
        N = cfg['n_iter']
        keys = set(k for k in vars(h_) if k != 'store_best_only')
        sbo = bool(cfg['store_best_only'])
        want = {'best_agent', 'time'}
        if not sbo:
            want |= {'agents'}
            if cfg['kind'] in runlevel.SWARM:
                want |= {'local'}
        if cfg['kind'] == 'GP':
            want |= {'best_tree'}
        if keys != want:
            issues.append(dict(what='light-keys', have=sorted(keys), expected=sorted(want)))
        for k in keys - {'time'}:
            if len(getattr(h_, k)) != N:
                issues.append(dict(what='light-length', key=k, records=len(getattr(h_, k)), expected=N))
                break
        tm = getattr(h_, 'time', None)
        if not (isinstance(tm, list) and len(tm) == 1 and fnum(tm[0]) >= 0):
            issues.append(dict(what='light-time', value=repr(tm)[:60]))
        # the last record describes the space as the task left it
        if 'agents' in keys and len(h_.agents) == N and N > 0:
            last = h_.agents[-1]
            if len(last) != len(sp.agents) or any(not np.array_equal(np.asarray(r_[0], dtype=float), np.asarray(a.position, dtype=float), equal_nan=True)
                                                 for r_, a in zip(last, sp.agents)):
                issues.append(dict(what='light-last-record-is-not-the-space'))
    if prop == 'C07':
        objs = list(sp.agents) + [sp.best_agent]
        for i in range(len(objs)):
            for j in range(i + 1, len(objs)):
                if objs[i] is objs[j] or np.shares_memory(objs[i].position, objs[j].position):
                    issues.append(dict(what='light-shared-storage', pair=[i, j]))
                    break
            if issues:
                break
        if len(sp.agents) != cfg['n_agents']:
            issues.append(dict(what='light-population-size', n=len(sp.agents)))
    return issues
