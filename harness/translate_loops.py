"""Translator, part 3: small loop programs.

`check_limits` of Agent / SearchSpace / HyperSpace -> `ClipLoop` records (lean/OpyVerif/Model/ClipProg.lean).
Per-iteration evaluation budget: for every optimizer, the objective call sites reachable from `_update`
(and helpers it calls on `self`) with the loop nest around each -> `BudgetTerm`s (Model/Budget.lean).
Pure `ast`; nothing is imported from the repo.
"""
import inline
import ast, copy, os, struct

REPO = os.environ.get('VERIF_REPO', '/repo')


def lean_str(s):
    return '"' + s.replace('\\', '\\\\').replace('"', '\\"').replace('\n', ' ') + '"'


def fkey(x):
    b = struct.unpack('<Q', struct.pack('<d', float(x)))[0]
    return b if b < (1 << 63) else -(b & ((1 << 63) - 1))


def body_of(fn):
    return [s for s in fn.body if not (isinstance(s, ast.Expr) and isinstance(s.value, ast.Constant))]


def find_method(path, cls, name):
    t = inline.parse(path)
    for c in t.body:
        if isinstance(c, ast.ClassDef) and c.name == cls:
            for f in c.body:
                if isinstance(f, ast.FunctionDef) and f.name == name:
                    return f
    return None


# ------------------------------------------------------------------ clip loops
def bsrc(expr):
    u = ast.unparse(expr)
    return {'self.lb': '.lb', 'self.ub': '.ub'}.get(u, '.other')


def clip_call(call, fst, snd, idx=None):
    """-> (source expr, lo BRef, hi BRef) for np.clip(x, lo, hi) and np.minimum(np.maximum(x, lo), hi);
    `fst`/`snd` are the names bound to the zipped pair, or (with `idx`) the two sequences indexed by the loop variable"""
    def bref(n):
        if idx is not None and isinstance(n, ast.Subscript) and ast.unparse(n.slice) == idx:
            if ast.unparse(n.value) == fst and fst != snd:
                return '.zipFst'
            if ast.unparse(n.value) == snd and fst != snd:
                return '.zipSnd'
        if isinstance(n, ast.Name) and n.id == fst and fst != snd:
            return '.zipFst'
        if isinstance(n, ast.Name) and n.id == snd and fst != snd:
            return '.zipSnd'
        if isinstance(n, ast.Constant) and isinstance(n.value, (int, float)) and not isinstance(n.value, bool):
            return f'(.lit {fkey(n.value)})' if fkey(n.value) >= 0 else f'(.lit ({fkey(n.value)}))'
        if isinstance(n, ast.UnaryOp) and isinstance(n.op, ast.USub) and isinstance(n.operand, ast.Constant) \
                and isinstance(n.operand.value, (int, float)):
            return f'(.lit ({fkey(-n.operand.value)}))'
        return '.unknown'
    if not isinstance(call, ast.Call):
        return None
    f = ast.unparse(call.func)
    if f == 'np.clip':
        args = list(call.args)
        kw = {k.arg: k.value for k in call.keywords}
        if len(args) == 3 and not kw:
            return args[0], bref(args[1]), bref(args[2])
        if len(args) == 1 and set(kw) == {'a_min', 'a_max'}:
            return args[0], bref(kw['a_min']), bref(kw['a_max'])
        return None
    if isinstance(call.func, ast.Attribute) and call.func.attr == 'clip' and f != 'np.clip' and len(call.args) == 2 and not call.keywords:
        # ndarray.clip(lo, hi) is what np.clip dispatches to
        return call.func.value, bref(call.args[0]), bref(call.args[1])
    if f == 'np.minimum' and len(call.args) == 2 and not call.keywords:
        inner, hi = call.args
        if isinstance(inner, ast.Call) and ast.unparse(inner.func) == 'np.maximum' and len(inner.args) == 2 and not inner.keywords:
            return inner.args[0], bref(inner.args[1]), bref(hi)
    return None


def read_clip(fn):
    """-> Lean ClipLoop term for one check_limits method"""
    bad = lambda why: ('{ perAgent := false, zipL := .other, zipR := .other, targetIsRowJ := false, sourceIsRowJ := false, '
                       f'lo := .unknown, hi := .unknown, extraStmts := 1 }} /- {why} -/')
    if fn is None:
        return bad('method missing')
    fn = inline.propagate_locals(fn)
    stmts = body_of(fn)
    extra = 0
    per_agent = False
    owner = 'self'
    if len(stmts) >= 1 and isinstance(stmts[0], ast.For) and ast.unparse(stmts[0].iter) == 'self.agents' \
            and isinstance(stmts[0].target, ast.Name):
        per_agent = True
        owner = stmts[0].target.id
        extra += len(stmts) - 1 + len(stmts[0].orelse)
        stmts = body_of(stmts[0])
    loops = [s for s in stmts if isinstance(s, ast.For)]
    if len(loops) != 1:
        return bad(f'{len(loops)} row loops')
    extra += len(stmts) - 1
    lp = loops[0]
    extra += len(lp.orelse)
    it = lp.iter
    ok_iter = (isinstance(it, ast.Call) and ast.unparse(it.func) == 'enumerate' and len(it.args) == 1 and not it.keywords
               and isinstance(it.args[0], ast.Call) and ast.unparse(it.args[0].func) == 'zip' and len(it.args[0].args) == 2)
    tg = lp.target
    ok_tg = (isinstance(tg, ast.Tuple) and len(tg.elts) == 2 and isinstance(tg.elts[0], ast.Name)
             and isinstance(tg.elts[1], ast.Tuple) and len(tg.elts[1].elts) == 2
             and all(isinstance(e, ast.Name) for e in tg.elts[1].elts))
    idx = None
    # the same rows by index: `for j in range(min(len(x), len(y)))` with bounds written `x[j]`, `y[j]` or literals
    rng_form = (isinstance(it, ast.Call) and ast.unparse(it.func) == 'range' and len(it.args) == 1 and not it.keywords
                and isinstance(it.args[0], ast.Call) and ast.unparse(it.args[0].func) == 'min' and len(it.args[0].args) == 2
                and all(isinstance(a, ast.Call) and ast.unparse(a.func) == 'len' and len(a.args) == 1 for a in it.args[0].args)
                and isinstance(tg, ast.Name))
    if rng_form:
        j = tg.id
        idx = j
        x_, y_ = it.args[0].args[0].args[0], it.args[0].args[1].args[0]
        fst, snd = ast.unparse(x_), ast.unparse(y_)
        zl, zr = bsrc(x_), bsrc(y_)
    elif not (ok_iter and ok_tg):
        return bad('row loop is not `for j, (a, b) in enumerate(zip(x, y))`')
    else:
        j = tg.elts[0].id
        fst, snd = tg.elts[1].elts[0].id, tg.elts[1].elts[1].id
        zl, zr = bsrc(it.args[0].args[0]), bsrc(it.args[0].args[1])
    body = body_of(lp)
    assigns = [s for s in body if isinstance(s, ast.Assign) and len(s.targets) == 1]
    extra += len(body) - 1
    if len(assigns) != 1 or len(body) < 1:
        return bad('row loop body is not one assignment')
    a = assigns[0]
    row = f'{owner}.position[{j}]'
    cc = clip_call(a.value, fst, snd, idx)
    if cc is None:
        return bad('value is not a clip')
    src, lo, hi = cc
    b = lambda v: 'true' if v else 'false'
    return (f'{{ perAgent := {b(per_agent)}, zipL := {zl}, zipR := {zr}, targetIsRowJ := {b(ast.unparse(a.targets[0]) == row)}, '
            f'sourceIsRowJ := {b(ast.unparse(src) == row)}, lo := {lo}, hi := {hi}, extraStmts := {extra} }}')


def extract_clips():
    return [('agentClip', read_clip(find_method(f'{REPO}/opytimizer/core/agent.py', 'Agent', 'check_limits'))),
            ('searchClip', read_clip(find_method(f'{REPO}/opytimizer/spaces/search.py', 'SearchSpace', 'check_limits'))),
            ('hyperClip', read_clip(find_method(f'{REPO}/opytimizer/spaces/hyper.py', 'HyperSpace', 'check_limits')))]


def tree_space_has_no_override():
    """TreeSpace (and Space) define no check_limits of their own: GP clips per agent"""
    out = {}
    for path, cls in ((f'{REPO}/opytimizer/spaces/tree.py', 'TreeSpace'), (f'{REPO}/opytimizer/core/space.py', 'Space')):
        out[cls] = find_method(path, cls, 'check_limits') is not None
    return out


def gen_loops():
    clips = extract_clips()
    ov = tree_space_has_no_override()
    D = ['-- GENERATED by harness/translate_loops.py from the check_limits methods. Do not edit.',
         'import OpyVerif.Model.ClipProg', 'namespace Opy.Gen', 'open Opy', '']
    for n, t in clips:
        D.append(f'def {n} : ClipLoop := {t}')
    D.append('/-- classes that define a `check_limits` of their own besides Agent, SearchSpace, HyperSpace -/')
    D.append('def otherClipOverrides : List String := [' + ', '.join(lean_str(k) for k, v in ov.items() if v) + ']')
    D += ['', 'end Opy.Gen', '']
    T = ['-- GENERATED by harness/translate_loops.py: obligations re-decided on every build. Do not edit.',
         'import OpyVerif.Generated.ClipLoopsDefs', 'namespace Opy.Gen', 'open Opy',
         '/-- `Agent.check_limits` reads as the loop that `Proofs/ClipProg.agentClip_run` proves to be `clipPos` -/',
         'theorem agentClip_eq : agentClip = Expected.agentClip := by decide +kernel',
         '/-- `SearchSpace.check_limits` reads as the loop proved to be `clipAll` -/',
         'theorem searchClip_eq : searchClip = Expected.searchClip := by decide +kernel',
         '/-- `HyperSpace.check_limits` reads as the loop proved to clip to the unit box -/',
         'theorem hyperClip_eq : hyperClip = Expected.hyperClip := by decide +kernel',
         'theorem no_other_clip_override : otherClipOverrides = [] := by decide',
         'end Opy.Gen', '']
    return {'ClipLoopsDefs': '\n'.join(D), 'ClipLoops': '\n'.join(T)}, dict(clips=clips, overrides=ov)


if __name__ == '__main__':
    t, d = gen_loops()
    for k, v in t.items():
        print('-----', k)
        print(v)


# ------------------------------------------------------------------ where agents get their bounds and first positions
def is_setter(fn):
    return any(isinstance(d, ast.Attribute) and d.attr == 'setter' for d in fn.decorator_list)


def canon_for_targets(fn):
    """the names bound by `for` targets, renamed v1, v2, … in order of appearance (when bound only there)"""
    import copy as _copy
    fn = _copy.deepcopy(fn)
    order = []
    for n in ast.walk(fn):
        if isinstance(n, ast.For):
            for m in ast.walk(n.target):
                if isinstance(m, ast.Name) and m.id not in order:
                    order.append(m.id)
    params = {a.arg for a in fn.args.args}
    fors = {id(m) for n in ast.walk(fn) if isinstance(n, ast.For) for m in ast.walk(n.target)}
    ren = {}
    for nm in order:
        other = [m for m in ast.walk(fn) if isinstance(m, ast.Name) and m.id == nm and isinstance(m.ctx, ast.Store) and id(m) not in fors]
        if nm not in params and not other and nm != '_':
            ren[nm] = f'v{len(ren) + 1}'
    for m in ast.walk(fn):
        if isinstance(m, ast.Name) and m.id in ren:
            m.id = ren[m.id]
    return fn


def extract_bound_writes():
    """every assignment to a `.lb` / `.ub` / `.position` attribute (or an element of it) in core/agent.py,
    core/space.py and spaces/*.py, outside property setters: (Class, method, target, value)"""
    out = []
    files = ['core/agent.py', 'core/space.py', 'spaces/search.py', 'spaces/hyper.py', 'spaces/tree.py']
    for fl in files:
        try:
            t = inline.parse(f'{REPO}/opytimizer/{fl}')
        except OSError:
            out.append((fl, '?', 'file missing', ''))
            continue
        for c in t.body:
            if not isinstance(c, ast.ClassDef):
                continue
            for fn in c.body:
                if not isinstance(fn, ast.FunctionDef) or is_setter(fn):
                    continue
                fn = canon_for_targets(fn)
                def visit(block, ctx):
                    for n in block:
                        tgts = n.targets if isinstance(n, ast.Assign) else [n.target] if isinstance(n, (ast.AugAssign, ast.AnnAssign)) else []
                        for tg in tgts:
                            for el in (tg.elts if isinstance(tg, (ast.Tuple, ast.List)) else [tg]):
                                base = el
                                while isinstance(base, ast.Subscript):
                                    base = base.value
                                if isinstance(base, ast.Attribute) and base.attr in ('lb', 'ub', 'position', '_lb', '_ub', '_position'):
                                    if fn.name == 'check_limits' and base.attr == 'position':
                                        continue   # the clip loops have their own table
                                    val = ast.unparse(n.value) if getattr(n, 'value', None) is not None else ''
                                    val = ' '.join(val.split())
                                    out.append((c.name, fn.name, ast.unparse(el), (' / '.join(ctx) + ' :: ' if ctx else '') + val[:90]))
                        hdr = None
                        if isinstance(n, ast.For):
                            hdr = f'for {ast.unparse(n.target)} in {ast.unparse(n.iter)}'
                        elif isinstance(n, ast.While):
                            hdr = f'while {ast.unparse(n.test)}'
                        elif isinstance(n, ast.If):
                            hdr = f'if {ast.unparse(n.test)}'
                        elif isinstance(n, (ast.With, ast.Try)):
                            hdr = type(n).__name__
                        for fld in ('body', 'orelse', 'finalbody'):
                            sub = getattr(n, fld, None)
                            if isinstance(sub, list) and sub and isinstance(sub[0], ast.stmt) and not isinstance(n, (ast.FunctionDef, ast.ClassDef)):
                                visit(sub, ctx + ([hdr + (' [else]' if fld == 'orelse' else '')] if hdr else []))
                        for h in getattr(n, 'handlers', []) or []:
                            visit(h.body, ctx + ['except'])
                visit(fn.body, [])
    return out


_old_gen_loops = gen_loops


def gen_loops():
    texts, data = _old_gen_loops()
    bw = extract_bound_writes()
    d = texts['ClipLoopsDefs'].replace('\nend Opy.Gen\n', '')
    d += ('/-- every write to an agent\'s / space\'s `lb`, `ub`, `position` outside setters and `check_limits` -/\n'
          'def boundWrites : List (String × String × String × String) := [\n' +
          ',\n'.join(f'  ({lean_str(a)}, {lean_str(b)}, {lean_str(c)}, {lean_str(v)})' for a, b, c, v in bw) + ']\n\nend Opy.Gen\n')
    texts['ClipLoopsDefs'] = d
    texts['ClipLoops'] = texts['ClipLoops'].replace('end Opy.Gen\n',
        '/-- agents get their bounds and first positions exactly where `Model/Clip.initSearch` / `initHyper` say:\n'
        '    unit bounds from `Agent.__init__`, the declared bounds copied row by row in Search/TreeSpace, nothing in HyperSpace -/\n'
        'theorem boundWrites_eq : boundWrites = Expected.boundWrites := by decide +kernel\nend Opy.Gen\n')
    data['bound_writes'] = bw
    return texts, data


if __name__ == '__main__':
    t, d = gen_loops()
    print(t['ClipLoopsDefs'])


# ------------------------------------------------------------------ per-iteration evaluation budget
OPT_FILES = ['abc', 'aiwpso', 'ba', 'bha', 'cs', 'fa', 'fpa', 'gp', 'gsa', 'hc', 'hs', 'ihs',
             'pso', 'rpso', 'sa', 'sca', 'wca']


def _classes():
    out = {}
    for fl in OPT_FILES + ['../core/optimizer']:
        path = os.path.normpath(f'{REPO}/opytimizer/optimizers/{fl}.py')
        try:
            t = inline.parse(path)
        except OSError:
            continue
        for c in t.body:
            if isinstance(c, ast.ClassDef):
                out[c.name] = (c, [ast.unparse(b) for b in c.bases])
    return out


def _resolve(classes, cname, mname):
    seen = set()
    while cname in classes and cname not in seen:
        seen.add(cname)
        cls, bases = classes[cname]
        for f in cls.body:
            if isinstance(f, ast.FunctionDef) and f.name == mname:
                return cname, f
        cname = next((b.split('.')[-1] for b in bases if b.split('.')[-1] in classes), None)
    return None, None


def _loop_factor(st):
    """how often the body of a loop statement runs, as a Factor term"""
    if isinstance(st, ast.While):
        return f'(.whileLoop {lean_str(ast.unparse(st.test)[:50])})'
    it = ast.unparse(st.iter)
    for pat in ('agents', 'space.agents', 'enumerate(agents)', 'enumerate(space.agents)', 'nests', 'enumerate(nests)',
                'new_agents', 'enumerate(new_agents)', 'range(len(agents))', 'range(len(space.agents))',
                'range(space.n_agents)', 'space.trees', 'enumerate(space.trees)', 'enumerate(zip(space.trees, space.agents))',
                'zip(space.trees, space.agents)', 'enumerate(zip(agents, new_agents))', 'zip(agents, new_agents)'):
        if it == pat:
            return '.agents'
    return f'(.other {lean_str(it[:50])})'


def eval_terms(classes, cname, mname, stack=(), depth=0):
    """[(site function, [factors])] for every objective call reachable from Class.method"""
    owner, fn = _resolve(classes, cname, mname)
    if fn is None or depth > 4 or (owner, mname) in stack:
        return []
    out = []

    def walk(block, factors):
        for st in block:
            # objective calls in this statement (not inside nested statements: those are visited below)
            own_exprs = []
            if isinstance(st, (ast.For, ast.While, ast.If, ast.With, ast.Try)):
                own_exprs = [st.iter] if isinstance(st, ast.For) else [st.test] if isinstance(st, (ast.While, ast.If)) else []
            else:
                own_exprs = [st]
            for ex in own_exprs:
                for n in ast.walk(ex):
                    if isinstance(n, ast.Call):
                        f = ast.unparse(n.func)
                        if f in ('function.pointer', 'function', 'self.function.pointer'):
                            out.append((f'{owner}.{mname}', list(factors)))
                        elif f.startswith('self.') and f.count('.') == 1:
                            for site, fs in eval_terms(classes, cname, f.split('.')[1], stack + ((owner, mname),), depth + 1):
                                out.append((site, list(factors) + fs))
            if isinstance(st, (ast.For, ast.While)):
                walk(st.body, factors + [_loop_factor(st)])
                walk(st.orelse, factors)
            elif isinstance(st, ast.If):
                walk(st.body, factors)
                walk(st.orelse, factors)
            elif isinstance(st, (ast.With,)):
                walk(st.body, factors)
            elif isinstance(st, ast.Try):
                walk(st.body, factors)
                for h in st.handlers:
                    walk(h.body, factors)
                walk(st.orelse, factors)
                walk(st.finalbody, factors)
    walk(fn.body, [])
    return out


def extract_budgets():
    classes = _classes()
    out = []
    for fl in OPT_FILES:
        k = fl.upper()
        if k not in classes:
            out.append((k, [('missing', [])], [('missing', [])]))
            continue
        out.append((k, eval_terms(classes, k, '_update'), eval_terms(classes, k, '_evaluate')))
    return out


_old_gen_loops2 = gen_loops


def gen_loops():
    texts, data = _old_gen_loops2()
    bud = extract_budgets()
    term = lambda site, fs: f'{{ site := {lean_str(site)}, factors := [' + ', '.join(fs) + '] }'
    D = ['-- GENERATED by harness/translate_loops.py from the _update / _evaluate methods of the optimizers. Do not edit.',
         'import OpyVerif.Model.Budget', 'namespace Opy.Gen', 'open Opy', '',
         '/-- for every optimizer: the objective call sites reachable from `_update` (through calls on `self`), each with',
         '    the loop nest around it; and the same for `_evaluate` (the sweep) -/',
         'def evalTerms : List (String × List EvalTerm × List EvalTerm) := [']
    D.append(',\n'.join(f'  ({lean_str(k)}, [' + ', '.join(term(s, f) for s, f in up) + '], [' + ', '.join(term(s, f) for s, f in ev) + '])'
                        for k, up, ev in bud))
    D += [']', '', 'end Opy.Gen', '']
    T = ['-- GENERATED by harness/translate_loops.py: obligations re-decided on every build. Do not edit.',
         'import OpyVerif.Generated.BudgetDefs', 'namespace Opy.Gen', 'open Opy',
         '/-- the objective call sites of every optimizer and the loops around them are the ones the budget theorems',
         '    of `Proofs/Budget.lean` are stated for -/',
         'theorem evalTerms_eq : evalTerms = Expected.evalTerms := by decide +kernel',
         'end Opy.Gen', '']
    texts['BudgetDefs'] = '\n'.join(D)
    texts['Budget'] = '\n'.join(T)
    data['budgets'] = bud
    return texts, data


if __name__ == '__main__':
    t, d = gen_loops()
    print(t['BudgetDefs'])


# ------------------------------------------------------------------ the three evaluation sweeps
CMP = {ast.Lt: '.lt', ast.LtE: '.le', ast.Gt: '.gt', ast.GtE: '.ge'}


def _is_copy(v):
    """-> (copied?, inner expression string)"""
    if isinstance(v, ast.Call):
        f = ast.unparse(v.func)
        if f in ('copy.deepcopy', 'copy.copy', 'np.array', 'np.copy') and len(v.args) == 1 and not v.keywords:
            return True, ast.unparse(v.args[0])
        if isinstance(v.func, ast.Attribute) and v.func.attr == 'copy' and not v.args:
            return True, ast.unparse(v.func.value)
    return False, ast.unparse(v)


def read_sweep(fn):
    U = lambda why: f'{{ iter := .other, steps := [.unknown {lean_str(why)}], outside := 1 }}'
    if fn is None:
        return U('method missing')
    stmts = body_of(fn)
    stmts = [s for s in stmts if not (isinstance(s, ast.Expr) and isinstance(s.value, ast.Call) and ast.unparse(s.value.func).startswith('logger.'))]
    loops = [s for s in stmts if isinstance(s, ast.For)]
    if len(loops) != 1:
        return U(f'{len(loops)} loops')
    lp = loops[0]
    outside = len(stmts) - 1 + len(lp.orelse)
    it, tg = ast.unparse(lp.iter), ast.unparse(lp.target)
    agent, idx, tree = 'agent', None, None
    if it == 'space.agents' and isinstance(lp.target, ast.Name):
        iter_, agent = '.agents', lp.target.id
    elif it == 'enumerate(space.agents)' and isinstance(lp.target, ast.Tuple) and len(lp.target.elts) == 2 \
            and all(isinstance(e, ast.Name) for e in lp.target.elts):
        iter_, idx, agent = '.enumAgents', lp.target.elts[0].id, lp.target.elts[1].id
    elif it == 'enumerate(zip(space.trees, space.agents))' and isinstance(lp.target, ast.Tuple) and len(lp.target.elts) == 2 \
            and isinstance(lp.target.elts[0], ast.Name) and isinstance(lp.target.elts[1], ast.Tuple) and len(lp.target.elts[1].elts) == 2:
        iter_, idx = '.enumTreesAgents', lp.target.elts[0].id
        tree, agent = lp.target.elts[1].elts[0].id, lp.target.elts[1].elts[1].id
    elif it == 'zip(space.trees, space.agents)' and isinstance(lp.target, ast.Tuple) and len(lp.target.elts) == 2 \
            and all(isinstance(e, ast.Name) for e in lp.target.elts):
        # the index of enumerate(zip(...)) is not used by any step of this shape
        iter_, tree, agent = '.enumTreesAgents', lp.target.elts[0].id, lp.target.elts[1].id
    else:
        return U('iteration ' + it[:40])
    b = lambda v: 'true' if v else 'false'
    steps = []
    for st in body_of(lp):
        if isinstance(st, ast.Expr) and isinstance(st.value, ast.Call) and ast.unparse(st.value.func).startswith('logger.'):
            continue
        u = ast.unparse(st)
        if isinstance(st, ast.Expr) and u == f'{agent}.check_limits()':
            steps.append('.clipAgent')
            continue
        if isinstance(st, ast.Assign) and len(st.targets) == 1:
            t = ast.unparse(st.targets[0])
            cp, inner = _is_copy(st.value)
            if tree and t == f'{agent}.position' and inner == f'{tree}.position':
                steps.append(f'(.posFromTree {b(cp)})')
                continue
            if ast.unparse(st.value) in (f'function.pointer({agent}.position)', f'function({agent}.position)'):
                if t == f'{agent}.fit':
                    steps.append('.evalToFit')
                    continue
                if t == 'fit' and isinstance(st.targets[0], ast.Name):
                    steps.append('.evalToLocal')
                    continue
        if isinstance(st, ast.If) and not st.orelse and isinstance(st.test, ast.Compare) and len(st.test.ops) == 1 \
                and type(st.test.ops[0]) in CMP:
            l, r, op = ast.unparse(st.test.left), ast.unparse(st.test.comparators[0]), CMP[type(st.test.ops[0])]
            body = [x for x in body_of(st) if not (isinstance(x, ast.Expr) and isinstance(x.value, ast.Call) and ast.unparse(x.value.func).startswith('logger.'))]
            asg = {}
            okb = all(isinstance(x, ast.Assign) and len(x.targets) == 1 for x in body)
            if okb:
                for x in body:
                    asg[ast.unparse(x.targets[0])] = _is_copy(x.value)
            if okb and l == 'fit' and r == f'{agent}.fit' and idx and set(asg) == {f'{agent}.fit', f'local_position[{idx}]'}:
                fl = asg[f'{agent}.fit'][1] == 'fit'
                cp, inner = asg[f'local_position[{idx}]']
                # a slot assignment into an array copies the values
                steps.append(f'(.pbest {op} {b(fl)} {b(inner == agent + ".position")})')
                continue
            if okb and l == f'{agent}.fit' and r == 'space.best_agent.fit' \
                    and {'space.best_agent.position', 'space.best_agent.fit'} <= set(asg) <= {'space.best_agent.position', 'space.best_agent.fit', 'space.best_tree'}:
                cp, inner = asg['space.best_agent.position']
                src = '.agentPos' if inner == f'{agent}.position' else ('.localPos' if idx and inner == f'local_position[{idx}]' else '.other')
                fa = asg['space.best_agent.fit'][1] == f'{agent}.fit'
                tr = 'none'
                if 'space.best_tree' in asg:
                    tcp, tin = asg['space.best_tree']
                    tr = f'(some {b(tcp and tin == tree)})'
                steps.append(f'(.best {op} {src} {b(cp)} {b(fa)} {tr})')
                continue
        steps.append(f'(.unknown {lean_str(u[:60])})')
    return f'{{ iter := {iter_}, steps := [' + ', '.join(steps) + f'], outside := {outside} }}'


def extract_sweeps():
    return [('genericSweep', read_sweep(find_method(f'{REPO}/opytimizer/core/optimizer.py', 'Optimizer', '_evaluate'))),
            ('psoSweep', read_sweep(find_method(f'{REPO}/opytimizer/optimizers/pso.py', 'PSO', '_evaluate'))),
            ('gpSweep', read_sweep(find_method(f'{REPO}/opytimizer/optimizers/gp.py', 'GP', '_evaluate')))]


def sweep_overrides():
    """which optimizer classes define `_evaluate` themselves (everyone else inherits a translated one)"""
    out = []
    classes = _classes()
    for k, (c, bases) in sorted(classes.items()):
        if any(isinstance(f, ast.FunctionDef) and f.name == '_evaluate' for f in c.body):
            out.append(k)
    return out


_old_gen_loops3 = gen_loops


def gen_loops():
    texts, data = _old_gen_loops3()
    sw = extract_sweeps()
    ov = sweep_overrides()
    D = ['-- GENERATED by harness/translate_loops.py from the three _evaluate methods. Do not edit.',
         'import OpyVerif.Model.SweepProg', 'namespace Opy.Gen', 'open Opy', '']
    for n, t in sw:
        D.append(f'def {n} : SweepLoop := {t}')
    D.append('/-- the classes that define `_evaluate` themselves -/')
    D.append('def sweepOwners : List String := [' + ', '.join(lean_str(x) for x in ov) + ']')
    D += ['', 'end Opy.Gen', '']
    T = ['-- GENERATED by harness/translate_loops.py: obligations re-decided on every build. Do not edit.',
         'import OpyVerif.Generated.SweepsDefs', 'namespace Opy.Gen', 'open Opy',
         '/-- `Optimizer._evaluate` reads as the loop that `Proofs/SweepProg.genericSweep_is_machine_rule` proves to be the machine\'s sweep rule -/',
         'theorem genericSweep_eq : genericSweep = Expected.genericSweep ∨ genericSweep = Expected.genericSweepLe := by decide +kernel',
         '/-- `PSO._evaluate` reads as the loop proved to be the swarm sweep rule -/',
         'theorem psoSweep_eq : psoSweep = Expected.psoSweep ∨ psoSweep = Expected.psoSweepLe := by decide +kernel',
         '/-- `GP._evaluate` reads as the loop proved to be the sweep rule on clip(value(tree)) -/',
         'theorem gpSweep_eq : gpSweep = Expected.gpSweep ∨ gpSweep = Expected.gpSweepLe := by decide +kernel',
         '/-- no other optimizer overrides the sweep -/',
         'theorem sweepOwners_eq : sweepOwners = ["GP", "Optimizer", "PSO"] := by decide',
         'end Opy.Gen', '']
    texts['SweepsDefs'] = '\n'.join(D)
    texts['Sweeps'] = '\n'.join(T)
    data['sweeps'] = sw
    return texts, data


if __name__ == '__main__':
    t, d = gen_loops()
    print(t['SweepsDefs'])


# ------------------------------------------------------------------ effect sites (C05)
EFFECT_PREFIXES = ('np.random.', 'numpy.random.', 'random.', 'time.', 'datetime.', 'os.urandom', 'os.getpid', 'os.environ', 'uuid.', 'secrets.',
                   'threading.', 'multiprocessing.', 'concurrent.', 'socket.', 'tempfile.')
EFFECT_NAMES = {'hash', 'id', 'set', 'frozenset', 'np.empty', 'np.empty_like', 'np.ndarray', 'numpy.empty', 'input', 'open', 'globals', 'vars'}


def extract_effects():
    """every call in opytimizer/ that can read something other than its arguments and the NumPy global stream:
    random sources, clocks, process state, hash/identity/set order, uninitialised memory, files — with the module
    and function it occurs in"""
    out = []
    root = os.path.join(REPO, 'opytimizer')
    for dp, _, files in sorted(os.walk(root)):
        for fl in sorted(files):
            if not fl.endswith('.py'):
                continue
            path = os.path.join(dp, fl)
            mod = os.path.relpath(path, REPO)[:-3].replace('/', '.')
            try:
                t = ast.parse(open(path).read())
            except SyntaxError:
                out.append((mod, '?', 'unparsable'))
                continue
            def visit(node, fname):
                for ch in ast.iter_child_nodes(node):
                    if isinstance(ch, (ast.FunctionDef, ast.AsyncFunctionDef)):
                        visit(ch, (fname + '.' if fname else '') + ch.name)
                    elif isinstance(ch, ast.ClassDef):
                        visit(ch, (fname + '.' if fname else '') + ch.name)
                    else:
                        if isinstance(ch, ast.Call):
                            f = ast.unparse(ch.func)
                            if f.startswith(EFFECT_PREFIXES) or f in EFFECT_NAMES:
                                out.append((mod, fname or '<module>', f))
                        # set / dict comprehensions and set literals: iteration order of strings depends on the hash seed
                        if isinstance(ch, (ast.Set, ast.SetComp)):
                            out.append((mod, fname or '<module>', 'set-literal'))
                        visit(ch, fname)
            visit(t, '')
            for n in ast.walk(t):
                if isinstance(n, (ast.Import, ast.ImportFrom)):
                    names = [a.name for a in n.names] if isinstance(n, ast.Import) else [n.module or '']
                    for nm in names:
                        if nm.split('.')[0] in ('random', 'secrets', 'uuid', 'threading', 'multiprocessing', 'socket', 'tempfile', 'datetime'):
                            out.append((mod, '<import>', nm))
    return sorted(set(out))


_old_gen_loops4 = gen_loops


def gen_loops():
    texts, data = _old_gen_loops4()
    eff = extract_effects()
    D = ['-- GENERATED by harness/translate_loops.py from every module of opytimizer/. Do not edit.',
         'import OpyVerif.Model.Effects', 'namespace Opy.Gen', 'open Opy', '',
         '/-- every call site that can read anything besides its arguments: (module, function, call) -/',
         'def effectSites : List (String × String × String) := [']
    D.append(',\n'.join(f'  ({lean_str(a)}, {lean_str(b)}, {lean_str(c)})' for a, b, c in eff))
    D += [']', '', 'end Opy.Gen', '']
    texts['EffectsDefs'] = '\n'.join(D)
    texts['Effects'] = '\n'.join([
        '-- GENERATED by harness/translate_loops.py: obligations re-decided on every build. Do not edit.',
        'import OpyVerif.Generated.EffectsDefs', 'import OpyVerif.Model.EffectSites', 'namespace Opy.Gen', 'open Opy',
        '/-- the library\'s only sources of non-determinism are the NumPy global generator (through the wrappers of',
        '    math/random, `np.random.choice` in tournament selection, and the seeding-free calls below), the wall clock',
        '    in `Opytimizer.start`, and file access in `History.save/load` and logging -/',
        'theorem effectSites_eq : effectSites = Expected.effectSites := by decide +kernel',
        'end Opy.Gen', ''])
    data['effects'] = eff
    return texts, data


if __name__ == '__main__':
    t, d = gen_loops()
    print(t['EffectsDefs'])


# ------------------------------------------------------------------ stack walks of core/node.py (pre_order, post_order)
def read_walk(fn):
    """-> (init WStmt term, loop WStmt term) for a stack-based traversal method"""
    U = lambda why: ('.skip', f'(.unknown {lean_str(why)})')
    if fn is None:
        return U('method missing')
    stmts = body_of(fn)
    ret = stmts[-1] if stmts and isinstance(stmts[-1], ast.Return) and isinstance(stmts[-1].value, ast.Name) else None
    if ret is None:
        return U('no `return <list>`')
    out = ret.value.id
    inits = {}
    k = 0
    while k < len(stmts) and isinstance(stmts[k], ast.Assign) and len(stmts[k].targets) == 1 and isinstance(stmts[k].targets[0], ast.Name) \
            and isinstance(stmts[k].value, ast.List):
        inits[stmts[k].targets[0].id] = [ast.unparse(e) for e in stmts[k].value.elts]
        k += 1
    rest = stmts[k:-1]
    # a local cursor initialised from `self` (instead of walking with `self` itself): the walk starts on the root either way
    cursor_alias = None
    if len(rest) == 2 and isinstance(rest[0], ast.Assign) and len(rest[0].targets) == 1 and isinstance(rest[0].targets[0], ast.Name) \
            and ast.unparse(rest[0].value) == 'self':
        cursor_alias = rest[0].targets[0].id
        rest = rest[1:]
    if inits.get(out) != [] or len(inits) != 2 or len(rest) != 1 or not isinstance(rest[0], ast.While):
        return U('not `out = []; stack = [...]; while …; return out`')
    stack = next(n for n in inits if n != out)
    init = '.skip' if inits[stack] == [] else ('(.push .self_)' if inits[stack] == ['self'] else f'(.unknown {lean_str("stack = " + str(inits[stack]))})')
    loop = rest[0]
    # the cursor: the name that receives `stack.pop()`
    cur = None
    for n in ast.walk(loop):
        if isinstance(n, ast.Assign) and len(n.targets) == 1 and isinstance(n.targets[0], ast.Name) and ast.unparse(n.value) == f'{stack}.pop()':
            cur = n.targets[0].id
    if cur is None:
        return U('no cursor')
    if (cursor_alias is not None and cursor_alias != cur) or (cursor_alias is None and cur != 'self' and inits[stack] == []):
        # the cursor must be `self`, or a local that starts as `self`, or (pre-order style) be filled from the stack first
        return U('cursor is not initialised from self')

    def expr(e):
        u = ast.unparse(e)
        return {cur: '.cur', f'{cur}.left': '.curLeft', f'{cur}.right': '.curRight', 'None': '.none_'}.get(u)

    def cond(c):
        if isinstance(c, ast.BoolOp) and isinstance(c.op, ast.And):
            parts = [cond(v) for v in c.values]
            acc = parts[-1]
            for p_ in reversed(parts[:-1]):
                acc = f'(.and {p_} {acc})'
            return acc
        u = ast.unparse(c)
        table = {f'len({stack}) > 0': '.stackNonEmpty', f'len({stack}) != 0': '.stackNonEmpty', f'{stack}': '.stackNonEmpty',
                 f'len({stack}) == 0': '.stackEmpty', f'not {stack}': '.stackEmpty',
                 f'{cur} is not None': '.curNotNone', f'{cur}.left is not None': '.curLeftNotNone',
                 f'{cur}.right is not None': '.curRightNotNone', f'{stack}[-1] is {cur}.right': '.stackTopIsCurRight'}
        return table.get(u, '.unknown')

    def block(bs):
        items = [stmt(b) for b in bs if not (isinstance(b, ast.Expr) and isinstance(b.value, ast.Constant))]
        if not items:
            return '.skip'
        acc = items[-1]
        for it in reversed(items[:-1]):
            acc = f'(.seq {it} {acc})'
        return acc

    def stmt(st):
        u = ast.unparse(st)
        if isinstance(st, ast.Expr) and isinstance(st.value, ast.Call):
            f = ast.unparse(st.value.func)
            if f == f'{stack}.append' and len(st.value.args) == 1 and expr(st.value.args[0]):
                return f'(.push {expr(st.value.args[0])})'
            if f == f'{out}.append' and len(st.value.args) == 1 and ast.unparse(st.value.args[0]) == cur:
                return '.emitCur'
            if u == f'{stack}.pop()':
                return '.popDiscard'
        if isinstance(st, ast.Assign) and len(st.targets) == 1 and isinstance(st.targets[0], ast.Name) and st.targets[0].id == cur:
            if ast.unparse(st.value) == f'{stack}.pop()':
                return '.popToCur'
            if expr(st.value):
                return f'(.setCur {expr(st.value)})'
        if isinstance(st, ast.If):
            return f'(.ifThenElse {cond(st.test)} {block(st.body)} {block(st.orelse)})'
        if isinstance(st, ast.While) and not st.orelse:
            # `while True: (while c1: b1); rest; if brk: break`
            if ast.unparse(st.test) == 'True':
                b = [x for x in st.body if not (isinstance(x, ast.Expr) and isinstance(x.value, ast.Constant))]
                if len(b) >= 2 and isinstance(b[0], ast.While) and not b[0].orelse and isinstance(b[-1], ast.If) and not b[-1].orelse \
                        and len(b[-1].body) == 1 and isinstance(b[-1].body[0], ast.Break) \
                        and not any(isinstance(n, (ast.Break, ast.Continue)) for x in b[:-1] for n in ast.walk(x)):
                    return f'(.loopNest {cond(b[0].test)} {block(b[0].body)} {block(b[1:-1])} {cond(b[-1].test)})'
                return f'(.unknown {lean_str("while True: " + u[:40])})'
            if not any(isinstance(n, (ast.Break, ast.Continue)) for n in ast.walk(st)):
                return f'(.whileDo {cond(st.test)} {block(st.body)})'
        return f'(.unknown {lean_str(u[:50])})'
    return init, stmt(loop)


def extract_walks():
    path = f'{REPO}/opytimizer/core/node.py'
    pre = read_walk(find_method(path, 'Node', 'pre_order'))
    post = read_walk(find_method(path, 'Node', 'post_order'))
    return dict(preInit=pre[0], preLoop=pre[1], postInit=post[0], postLoop=post[1])


_old_gen_loops5 = gen_loops


def gen_loops():
    texts, data = _old_gen_loops5()
    w = extract_walks()
    D = ['-- GENERATED by harness/translate_loops.py from Node.pre_order / Node.post_order. Do not edit.',
         'import OpyVerif.Model.NodeWalk', 'namespace Opy.Gen', 'open Opy', '',
         f'def preOrderInit : WStmt := {w["preInit"]}', f'def preOrderLoop : WStmt := {w["preLoop"]}',
         f'def postOrderInit : WStmt := {w["postInit"]}', f'def postOrderLoop : WStmt := {w["postLoop"]}',
         '', 'end Opy.Gen', '']
    T = ['-- GENERATED by harness/translate_loops.py: obligations re-decided on every build. Do not edit.',
         'import OpyVerif.Generated.WalksDefs', 'namespace Opy.Gen', 'open Opy',
         '/-- `Node.pre_order` reads as the program `Proofs/NodeWalk.pre_loop_eq` proves to be `preLoop` -/',
         'theorem preOrder_eq : preOrderInit = Expected.preOrderInit ∧ preOrderLoop = Expected.preOrderLoop := by decide +kernel',
         '/-- `Node.post_order` reads as the program `Proofs/NodeWalk.post_loop_eq` proves to be `postLoop` -/',
         'theorem postOrder_eq : postOrderInit = .skip ∧ postOrderLoop = Expected.postOrderLoop := by decide +kernel',
         'end Opy.Gen', '']
    texts['WalksDefs'] = '\n'.join(D)
    texts['Walks'] = '\n'.join(T)
    data['walks'] = w
    return texts, data


if __name__ == '__main__':
    t, d = gen_loops()
    print(t['WalksDefs'])


# ------------------------------------------------------------------ GP._reproduction
def read_repro(fn):
    b = lambda v: 'true' if v else 'false'
    F = dict(fitnessFromAgents=False, countIsTreesTimesP=False, selectionIsTournament=False, worstIsArgmax=False,
             treeCopy='.other', treeFromSelected=False, agentCopy='.other', agentFromSelected=False, marker='none', extraStmts=0)
    if fn is None:
        F['extraStmts'] = 1
    else:
        stmts = [s for s in body_of(fn) if not (isinstance(s, ast.Expr) and isinstance(s.value, ast.Call) and ast.unparse(s.value.func).startswith('logger.'))]
        loop = None
        fitness = count = selected = None
        for st in stmts:
            u = ' '.join(ast.unparse(st).split())
            tgt = st.targets[0].id if isinstance(st, ast.Assign) and len(st.targets) == 1 and isinstance(st.targets[0], ast.Name) else None
            v = getattr(st, 'value', None)
            if tgt and isinstance(v, ast.ListComp) and len(v.generators) == 1 and not v.generators[0].ifs \
                    and isinstance(v.generators[0].target, ast.Name) and ast.unparse(v.generators[0].iter) == 'space.agents' \
                    and ast.unparse(v.elt) == v.generators[0].target.id + '.fit' and fitness is None:
                fitness = tgt
                F['fitnessFromAgents'] = True
            elif tgt and ast.unparse(v) == 'int(space.n_trees * self.p_reproduction)' and count is None:
                count = tgt
                F['countIsTreesTimesP'] = True
            elif tgt and fitness and count and ast.unparse(v) == f'g.tournament_selection({fitness}, {count})' and selected is None:
                selected = tgt
                F['selectionIsTournament'] = True
            elif isinstance(st, ast.For) and selected and ast.unparse(st.iter) == selected and isinstance(st.target, ast.Name) and loop is None and not st.orelse:
                loop = st
            else:
                F['extraStmts'] += 1
        if loop is None:
            F['extraStmts'] += 1
        else:
            s_ = loop.target.id
            worst = None
            for st in body_of(loop):
                u = ' '.join(ast.unparse(st).split())
                if isinstance(st, ast.Assign) and len(st.targets) == 1 and isinstance(st.targets[0], ast.Name) and worst is None \
                        and ast.unparse(st.value) == f'np.argmax({fitness})':
                    worst = st.targets[0].id
                    F['worstIsArgmax'] = True
                    continue
                if isinstance(st, ast.Assign) and len(st.targets) == 1 and worst:
                    t = ast.unparse(st.targets[0])
                    cp, inner = _is_copy(st.value)
                    deep = isinstance(st.value, ast.Call) and ast.unparse(st.value.func) == 'copy.deepcopy'
                    if t == f'space.trees[{worst}]':
                        F['treeCopy'] = '.deep' if deep else '.other'
                        F['treeFromSelected'] = inner == f'space.trees[{s_}]'
                        continue
                    if t == f'space.agents[{worst}]':
                        F['agentCopy'] = '.deep' if deep else '.other'
                        F['agentFromSelected'] = inner == f'space.agents[{s_}]'
                        continue
                    if t == f'{fitness}[{worst}]' and isinstance(st.value, ast.Constant) and isinstance(st.value.value, (int, float)) \
                            and not isinstance(st.value.value, bool):
                        k = fkey(st.value.value)
                        F['marker'] = f'(some {k})' if k >= 0 else f'(some ({k}))'
                        continue
                F['extraStmts'] += 1
    return ('{ ' + ', '.join(f'{k} := {b(v) if isinstance(v, bool) else v}' for k, v in F.items()) + ' }')


_old_gen_loops6 = gen_loops


def gen_loops():
    texts, data = _old_gen_loops6()
    rp = read_repro(find_method(f'{REPO}/opytimizer/optimizers/gp.py', 'GP', '_reproduction'))
    texts['ReproDefs'] = '\n'.join(['-- GENERATED by harness/translate_loops.py from GP._reproduction. Do not edit.',
                                    'import OpyVerif.Model.ReproProg', 'namespace Opy.Gen', 'open Opy', '',
                                    f'def reproLoop : ReproLoop := {rp}', '', 'end Opy.Gen', ''])
    texts['Repro'] = '\n'.join(['-- GENERATED by harness/translate_loops.py: obligations re-decided on every build. Do not edit.',
                                'import OpyVerif.Generated.ReproDefs', 'namespace Opy.Gen', 'open Opy',
                                '/-- `GP._reproduction` reads as the loop `Proofs/ReproProg.reproLoop_is_reproduction` proves to be `PNode.reproduction` -/',
                                'theorem reproLoop_eq : reproLoop = Expected.reproLoop := by decide +kernel',
                                'end Opy.Gen', ''])
    data['repro'] = rp
    return texts, data


if __name__ == '__main__':
    t, d = gen_loops()
    print(t['ReproDefs'])


# ------------------------------------------------------------------ Node.find_node
def read_find(fn):
    if fn is None:
        return '(.unknown "method missing")'
    stmts = body_of(fn)
    pos = fn.args.args[1].arg if len(fn.args.args) == 2 else 'position'
    pre = {'self.pre_order'}
    node = [None]

    alias = {}

    def node_names():
        return ([node[0]] if node[0] else []) + [f'{p_}[{pos}]' for p_ in pre]

    def ref(e):
        u = ast.unparse(e)
        if u in node_names():
            return '.node'
        if isinstance(e, ast.Name) and e.id in alias:
            return alias[e.id]
        if isinstance(e, ast.Attribute) and e.attr == 'parent':
            r = ref(e.value)
            return f'(.parent {r})' if r else None
        return None

    def res(v):
        if isinstance(v, ast.Tuple) and len(v.elts) == 2:
            a, b = v.elts
            if ast.unparse(a) == 'None' and ast.unparse(b) == 'False':
                return '(.ret .none)'
            if isinstance(b, ast.Attribute) and b.attr == 'flag' and ref(a) and ref(b.value):
                return f'(.ret (.pair {ref(a)} {ref(b.value)}))'
        return f'(.unknown {lean_str("return " + ast.unparse(v)[:40])})'

    def prog(block, k):
        if not block:
            return k
        st, rest = block[0], block[1:]
        if isinstance(st, ast.Return) and st.value is not None:
            return res(st.value)
        if isinstance(st, ast.Assign) and len(st.targets) == 1 and isinstance(st.targets[0], ast.Name):
            u = ast.unparse(st.value)
            if u == 'self.pre_order':
                pre.add(st.targets[0].id)
                return prog(rest, k)
        if isinstance(st, ast.Assign) and len(st.targets) == 1 and isinstance(st.targets[0], ast.Name) and node[0] \
                and st.targets[0].id != node[0] and ref(st.value) is not None:
            # a local naming a node reached from the found one (`parent = node.parent`)
            alias[st.targets[0].id] = ref(st.value)
            return prog(rest, k)
        if isinstance(st, ast.If):
            t = ast.unparse(st.test)
            body = list(st.body)
            # early exit: `if not len(pre) > position: return …` followed by the in-range part
            neg = [f'not len({p_}) > {pos}' for p_ in pre] + [f'len({p_}) <= {pos}' for p_ in pre] + [f'{pos} >= len({p_})' for p_ in pre] \
                + [f'not {pos} < len({p_})' for p_ in pre]
            if t in neg and not st.orelse and body and isinstance(body[-1], ast.Return) and rest \
                    and isinstance(rest[0], ast.Assign) and len(rest[0].targets) == 1 and isinstance(rest[0].targets[0], ast.Name) \
                    and any(ast.unparse(rest[0].value) == f'{p_}[{pos}]' for p_ in pre):
                out_branch = prog(body, k)
                node[0] = rest[0].targets[0].id
                return f'(.ifInRange {prog(rest[1:], k)} {out_branch})'
            # `if not node.type == 'X': …return` followed by the X part (a jump branch in normal form)
            if not st.orelse and body and isinstance(body[-1], ast.Return):
                for ty in ('TERMINAL', 'FUNCTION'):
                    if any(t in (f"not {N_}.type == '{ty}'", f"{N_}.type != '{ty}'") for N_ in node_names()):
                        return f"(.ifType {'true' if ty == 'TERMINAL' else 'false'} {prog(rest, k)} {prog(body, k)})"
            kr = prog(rest, k)
            if any(t == f'len({p_}) > {pos}' for p_ in pre) or any(t == f'{pos} < len({p_})' for p_ in pre):
                if body and isinstance(body[0], ast.Assign) and len(body[0].targets) == 1 and isinstance(body[0].targets[0], ast.Name) \
                        and any(ast.unparse(body[0].value) == f'{p_}[{pos}]' for p_ in pre):
                    node[0] = body[0].targets[0].id
                    return f'(.ifInRange {prog(body[1:], kr)} {prog(list(st.orelse), kr)})'
                # the node is written `pre_order[position]` wherever it is used
                return f'(.ifInRange {prog(body, kr)} {prog(list(st.orelse), kr)})'
            if any(t in (f"{N_}.type == 'TERMINAL'", f"{N_}.type == 'FUNCTION'") for N_ in node_names()):
                return f"(.ifType {'true' if 'TERMINAL' in t else 'false'} {prog(body, kr)} {prog(list(st.orelse), kr)})"
            r = ref(st.test)
            if r is None and isinstance(st.test, ast.Compare) and len(st.test.ops) == 1 and isinstance(st.test.ops[0], ast.IsNot) \
                    and ast.unparse(st.test.comparators[0]) == 'None':
                r = ref(st.test.left)
            if r:
                return f'(.ifRef {r} {prog(body, kr)} {prog(list(st.orelse), kr)})'
        return f'(.unknown {lean_str(ast.unparse(st)[:50])})'
    return prog(stmts, '(.unknown "falls off the end")')


_old_gen_loops7 = gen_loops


def gen_loops():
    texts, data = _old_gen_loops7()
    fp = read_find(find_method(f'{REPO}/opytimizer/core/node.py', 'Node', 'find_node'))
    texts['FindDefs'] = '\n'.join(['-- GENERATED by harness/translate_loops.py from Node.find_node. Do not edit.',
                                   'import OpyVerif.Model.FindProg', 'namespace Opy.Gen', 'open Opy', '',
                                   f'def findProg : FProg := {fp}', '', 'end Opy.Gen', ''])
    texts['Find'] = '\n'.join(['-- GENERATED by harness/translate_loops.py: obligations re-decided on every build. Do not edit.',
                               'import OpyVerif.Generated.FindDefs', 'namespace Opy.Gen', 'open Opy',
                               '/-- `Node.find_node` reads as the decision program `Proofs/FindProg.findProg_is_findNode` proves to be `findNode` -/',
                               'theorem findProg_eq : findProg = Expected.findProg := by decide +kernel',
                               'end Opy.Gen', ''])
    data['find'] = fp
    return texts, data


if __name__ == '__main__':
    t, d = gen_loops()
    print(t['FindDefs'])


# ------------------------------------------------------------------ _properties (breadth-first counters)
def find_function(path, name):
    t = inline.parse(path)
    for f in t.body:
        if isinstance(f, ast.FunctionDef) and f.name == name:
            return f
    return None


def _seq(items):
    items = [i for i in items if i != '.skip'] or ['.skip']
    out = items[-1]
    for i in reversed(items[:-1]):
        out = f'(.seq {i} {out})'
    return out


def read_props(fn):
    """-> Lean text of a BfsProg (Model/BfsProg.lean)"""
    def bad(why):
        return ('{ minInit := 0, maxInit := 0, leavesInit := 0, nodesInit := 0, perLevel := .unknown ' + lean_str(why) +
                ', perNode := .skip, swaps := false }')
    if fn is None or len(fn.args.args) != 1:
        return bad('function missing')
    stmts = body_of(fn)
    param = fn.args.args[0].arg
    if not stmts or not isinstance(stmts[-1], ast.Return) or not isinstance(stmts[-1].value, ast.Dict):
        return bad('does not return a dict literal')
    role = {}
    for k, v in zip(stmts[-1].value.keys, stmts[-1].value.values):
        if not (isinstance(k, ast.Constant) and isinstance(v, ast.Name)):
            return bad('dict entry is not name')
        role[v.id] = k.value
    if sorted(role.values()) != ['max_depth', 'min_depth', 'n_leaves', 'n_nodes']:
        return bad('dict keys')
    init = {}
    level = None
    loop = None
    for st in stmts[:-1]:
        if isinstance(st, ast.Assign) and all(isinstance(t, ast.Name) for t in st.targets):
            if isinstance(st.value, ast.List) and len(st.value.elts) == 1 and ast.unparse(st.value.elts[0]) == param and len(st.targets) == 1:
                level = st.targets[0].id
                continue
            try:
                val = ast.literal_eval(st.value)
            except Exception:
                return bad('initialiser ' + ast.unparse(st)[:40])
            if type(val) is not int:
                return bad('initialiser ' + ast.unparse(st)[:40])
            for t in st.targets:
                init[t.id] = val
            continue
        if isinstance(st, ast.While) and loop is None and not st.orelse:
            loop = st
            continue
        return bad(ast.unparse(st)[:50])
    if loop is None or level is None or ast.unparse(loop.test) not in (f'len({level}) > 0', f'len({level}) != 0', level, f'0 < len({level})'):
        return bad('outer loop')
    if any(n not in init for n in role) or any(role.get(n) is None for n in init):
        return bad('counters')
    byrole = {r: n for n, r in role.items()}
    nxt = [None]
    forst = [None]
    swaps = [False]

    def counter(st, var):
        return (isinstance(st, ast.AugAssign) and isinstance(st.op, ast.Add) and ast.unparse(st.target) == var and ast.unparse(st.value) == '1') \
            or (isinstance(st, ast.Assign) and len(st.targets) == 1 and ast.unparse(st.targets[0]) == var
                and ast.unparse(st.value) in (f'{var} + 1', f'1 + {var}'))

    kid = {}   # local name -> 'left' / 'right' (a read of the current node's child bound to a local)

    def cond(e, nd):
        if isinstance(e, ast.BoolOp) and isinstance(e.op, ast.And):
            out = cond(e.values[-1], nd)
            for v in reversed(e.values[:-1]):
                c = cond(v, nd)
                out = f'(.and {c} {out})' if c and out else None
            return out
        if isinstance(e, ast.UnaryOp) and isinstance(e.op, ast.Not):
            c = cond(e.operand, nd)
            return f'(.not {c})' if c else None
        if isinstance(e, ast.Compare) and len(e.ops) == 1:
            l, r = ast.unparse(e.left), ast.unparse(e.comparators[0])
            if isinstance(e.left, ast.Name) and e.left.id in kid and nd:
                l = f'{nd}.{kid[e.left.id]}'
            if r == 'None' and nd and l in (f'{nd}.left', f'{nd}.right'):
                base = '.hasLeft' if l.endswith('.left') else '.hasRight'
                if isinstance(e.ops[0], ast.IsNot):
                    return base
                if isinstance(e.ops[0], ast.Is):
                    return f'(.not {base})'
            if isinstance(e.ops[0], ast.Eq) and {l, r} == {byrole['min_depth'], '0'}:
                return '.minIsZero'
        return None

    def stmt(st, nd):
        if isinstance(st, ast.Assign) and len(st.targets) == 1 and nd:
            tg, vl = st.targets[0], st.value
            pairs = list(zip(tg.elts, vl.elts)) if isinstance(tg, ast.Tuple) and isinstance(vl, ast.Tuple) and len(tg.elts) == len(vl.elts) else [(tg, vl)]
            if all(isinstance(a, ast.Name) and ast.unparse(b) in (f'{nd}.left', f'{nd}.right') and a.id not in role and a.id != nd for a, b in pairs):
                for a, b in pairs:
                    kid[a.id] = ast.unparse(b).split('.')[-1]
                return '.skip'
        for r, con in (('n_nodes', '.incNodes'), ('n_leaves', '.incLeaves'), ('max_depth', '.incMaxDepth')):
            if counter(st, byrole[r]):
                return con
        if isinstance(st, ast.Assign) and len(st.targets) == 1 and ast.unparse(st.targets[0]) == byrole['min_depth'] \
                and ast.unparse(st.value) == byrole['max_depth']:
            return '.setMinToMax'
        if isinstance(st, ast.Expr) and isinstance(st.value, ast.Call) and nxt[0] and nd \
                and ast.unparse(st.value.func) == f'{nxt[0]}.append' and len(st.value.args) == 1 and not st.value.keywords:
            a = ast.unparse(st.value.args[0])
            if isinstance(st.value.args[0], ast.Name) and st.value.args[0].id in kid:
                a = f'{nd}.{kid[st.value.args[0].id]}'
            if a == f'{nd}.left':
                return '.pushLeft'
            if a == f'{nd}.right':
                return '.pushRight'
        if isinstance(st, ast.If):
            c = cond(st.test, nd)
            if c:
                return f'(.ite {c} {block(st.body, nd)} {block(st.orelse, nd)})'
        if isinstance(st, ast.Pass):
            return '.skip'
        return f'(.unknown {lean_str(ast.unparse(st)[:50])})'

    def block(sts, nd):
        return _seq([stmt(s, nd) for s in sts])

    per_level = []
    per_node = None
    after = False
    for st in loop.body:
        if isinstance(st, ast.Assign) and len(st.targets) == 1 and isinstance(st.targets[0], ast.Name) \
                and isinstance(st.value, ast.List) and not st.value.elts and per_node is None and nxt[0] is None:
            nxt[0] = st.targets[0].id
            continue
        if isinstance(st, ast.For) and per_node is None and not st.orelse and isinstance(st.target, ast.Name) \
                and ast.unparse(st.iter) == level:
            if nxt[0] is None:
                return bad('next-level list is not created before the for')
            per_node = block(st.body, st.target.id)
            continue
        if per_node is not None and isinstance(st, ast.Assign) and len(st.targets) == 1 and ast.unparse(st.targets[0]) == level \
                and ast.unparse(st.value) == nxt[0] and not after:
            swaps[0] = True
            after = True
            continue
        if per_node is None:
            per_level.append(stmt(st, None))
            continue
        return bad('after the for: ' + ast.unparse(st)[:40])
    if per_node is None:
        return bad('no for over the level list')
    mn, mx = init[byrole['min_depth']], init[byrole['max_depth']]
    if mn < 0 or init[byrole['n_leaves']] < 0 or init[byrole['n_nodes']] < 0:
        return bad('negative initial counter')
    return ('{ minInit := %d, maxInit := %s, leavesInit := %d, nodesInit := %d, perLevel := %s, perNode := %s, swaps := %s }'
            % (mn, f'({mx})', init[byrole['n_leaves']], init[byrole['n_nodes']], _seq(per_level), per_node, 'true' if swaps[0] else 'false'))


_old_gen_loops8 = gen_loops


def gen_loops():
    texts, data = _old_gen_loops8()
    bp = read_props(find_function(f'{REPO}/opytimizer/core/node.py', '_properties'))
    texts['PropsDefs'] = '\n'.join(['-- GENERATED by harness/translate_loops.py from core/node.py `_properties`. Do not edit.',
                                    'import OpyVerif.Model.BfsProg', 'namespace Opy.Gen', 'open Opy', '',
                                    f'def bfsProg : BfsProg := {bp}', '', 'end Opy.Gen', ''])
    texts['Props'] = '\n'.join(['-- GENERATED by harness/translate_loops.py: obligations re-decided on every build. Do not edit.',
                                'import OpyVerif.Generated.PropsDefs', 'namespace Opy.Gen', 'open Opy',
                                '/-- `_properties` reads as the counter program `Proofs/BfsProg.bfsProg_is_properties` proves to be `PNode.properties` -/',
                                'theorem bfsProg_eq : bfsProg = Expected.bfsProg := by decide +kernel',
                                'end Opy.Gen', ''])
    data['props'] = bp
    return texts, data


if __name__ == '__main__':
    t, d = gen_loops()
    print(t['PropsDefs'])


# ------------------------------------------------------------------ GP._mutate / GP._cross: field writes on node objects
def _hseq(items):
    if not items:
        return '.skip'
    out = items[-1]
    for i in reversed(items[:-1]):
        out = f'(.seq {i} {out})'
    return out


def read_heap_block(stmts, nodes, flags):
    """a block of field writes -> HStmt text (Model/Heap.lean); `nodes` / `flags`: names of node-valued / boolean locals"""
    def ref(e):
        if isinstance(e, ast.Name):
            return f'(.var {lean_str(e.id)})'
        if isinstance(e, ast.Attribute) and e.attr in ('left', 'right', 'parent'):
            r = ref(e.value)
            return f'(.{e.attr} {r})' if r else None
        return None

    def cond(e):
        if isinstance(e, ast.Name):
            if e.id in flags:
                return f'(.flag {lean_str(e.id)})'
            if e.id in nodes:
                return f'(.isNode {lean_str(e.id)})'
            return None
        if isinstance(e, ast.Compare) and len(e.ops) == 1 and isinstance(e.ops[0], ast.IsNot) and ast.unparse(e.comparators[0]) == 'None' \
                and isinstance(e.left, ast.Name) and e.left.id in nodes:
            return f'(.isNode {lean_str(e.left.id)})'
        if isinstance(e, ast.BoolOp) and isinstance(e.op, ast.And):
            cs = [cond(v) for v in e.values]
            if all(cs):
                out = cs[-1]
                for c in reversed(cs[:-1]):
                    out = f'(.and {c} {out})'
                return out
        return None

    def stmt(st):
        if isinstance(st, ast.Assign) and len(st.targets) == 1:
            t, v = st.targets[0], st.value
            if isinstance(t, ast.Name) and ref(v) and not isinstance(v, ast.Name):
                nodes.add(t.id)
                return f'(.assign {lean_str(t.id)} {ref(v)})'
            if isinstance(t, ast.Attribute) and t.attr in ('left', 'right', 'parent') and ref(t.value) and ref(v):
                return f'(.set{t.attr.capitalize()} {ref(t.value)} {ref(v)})'
            if isinstance(t, ast.Attribute) and t.attr == 'flag' and ref(t.value) and isinstance(v, ast.Constant) and isinstance(v.value, bool):
                return f'(.setFlag {ref(t.value)} {"true" if v.value else "false"})'
        if isinstance(st, ast.If):
            c = cond(st.test)
            if c:
                return f'(.ite {c} {block(st.body)} {block(st.orelse)})'
        if isinstance(st, ast.Pass):
            return '.skip'
        return f'(.unknown {lean_str(ast.unparse(st)[:50])})'

    def block(sts):
        return _hseq([stmt(s) for s in sts if not (isinstance(s, ast.Expr) and isinstance(s.value, ast.Constant))])
    return block(stmts), cond


def _norm(s):
    return ' '.join(ast.unparse(s).split())


def read_mutate(fn):
    b = lambda v: 'true' if v else 'false'
    F = dict(copiesDeep=False, pointUniform2Max=False, findsOnCopy=False, cond='(.flag "?")', growsBranch=False, elseGrowsWhole=False,
             returnsCopy=False, extraStmts=0)
    body = '(.unknown "method missing")'
    if fn is not None and len(fn.args.args) == 4:
        _, space, tree, maxn = [a.arg for a in fn.args.args]
        copy_, point, sub, flag = None, None, None, None
        for st in body_of(fn):
            u = _norm(st)
            if isinstance(st, ast.Assign) and len(st.targets) == 1 and isinstance(st.targets[0], ast.Name) and u.endswith(f'= copy.deepcopy({tree})') and copy_ is None:
                copy_ = st.targets[0].id
                F['copiesDeep'] = True
            elif isinstance(st, ast.Assign) and len(st.targets) == 1 and isinstance(st.targets[0], ast.Name) \
                    and _norm(st.value) == f'int(r.generate_uniform_random_number(2, {maxn})[0])' and point is None:
                point = st.targets[0].id
                F['pointUniform2Max'] = True
            elif isinstance(st, ast.Assign) and len(st.targets) == 1 and isinstance(st.targets[0], ast.Tuple) and len(st.targets[0].elts) == 2 \
                    and all(isinstance(e, ast.Name) for e in st.targets[0].elts) and copy_ and point \
                    and _norm(st.value) == f'{copy_}.find_node({point})' and sub is None:
                sub, flag = [e.id for e in st.targets[0].elts]
                F['findsOnCopy'] = True
            elif isinstance(st, ast.If) and sub and body.startswith('(.unknown "method') and not st.orelse and len(st.body) == 1 \
                    and isinstance(st.body[0], ast.Return) and _norm(st.test) in (f'not {sub}', f'{sub} is None') \
                    and _norm(st.body[0]) == f'return {space}.grow({space}.min_depth, {space}.max_depth)':
                # guard-clause form: no slot -> the freshly grown tree is returned at once; the graft follows
                rest_ = body_of(fn)[body_of(fn).index(st) + 1:]
                graft_ = [x for x in rest_ if not isinstance(x, ast.Return)]
                grow = f'{space}.grow({space}.min_depth, {space}.max_depth)'
                branch = None
                if graft_ and isinstance(graft_[0], ast.Assign) and len(graft_[0].targets) == 1 and isinstance(graft_[0].targets[0], ast.Name) \
                        and _norm(graft_[0].value) == grow:
                    branch = graft_[0].targets[0].id
                    F['growsBranch'] = True
                    graft_ = graft_[1:]
                body, cond = read_heap_block(graft_, {sub} | ({branch} if branch else set()), {flag})
                F['cond'] = f'(.isNode {lean_str(sub)})'
                F['elseGrowsWhole'] = True
                F['returnsCopy'] = bool(rest_) and isinstance(rest_[-1], ast.Return) and _norm(rest_[-1]) == f'return {copy_}' \
                    and sum(isinstance(x, ast.Return) for x in rest_) == 1
                break
            elif isinstance(st, ast.If) and sub and body.startswith('(.unknown "method'):
                sts = [s for s in st.body if not (isinstance(s, ast.Expr) and isinstance(s.value, ast.Constant))]
                grow = f'{space}.grow({space}.min_depth, {space}.max_depth)'
                branch = None
                if sts and isinstance(sts[0], ast.Assign) and len(sts[0].targets) == 1 and isinstance(sts[0].targets[0], ast.Name) \
                        and _norm(sts[0].value) == grow:
                    branch = sts[0].targets[0].id
                    F['growsBranch'] = True
                    sts = sts[1:]
                body, cond = read_heap_block(sts, {sub} | ({branch} if branch else set()), {flag})
                F['cond'] = cond(st.test) or '(.flag "?")'
                els = [s for s in st.orelse if not (isinstance(s, ast.Expr) and isinstance(s.value, ast.Constant))]
                F['elseGrowsWhole'] = len(els) == 1 and _norm(els[0]) == f'{copy_} = {grow}'
            elif isinstance(st, ast.Return) and copy_ and _norm(st) == f'return {copy_}':
                F['returnsCopy'] = True
            else:
                F['extraStmts'] += 1
    else:
        F['extraStmts'] = 1
    return body, '{ ' + ', '.join(f'{k} := {b(v) if isinstance(v, bool) else v}' for k, v in F.items()) + ' }'


def read_cross(fn):
    b = lambda v: 'true' if v else 'false'
    F = dict(copiesFatherDeep=False, copiesMotherDeep=False, fatherPointUniform2Max=False, motherPointUniform2Max=False, findsOnCopies=False,
             cond='(.flag "?")', elseNothing=False, returnsCopies=False, extraStmts=0)
    body = '(.unknown "method missing")'
    if fn is not None and len(fn.args.args) == 5:
        _, father, mother, maxf, maxm = [a.arg for a in fn.args.args]
        cp, pt, sub, flg = {}, {}, {}, {}
        finds = 0
        for st in body_of(fn):
            u = _norm(st)
            done = False
            if isinstance(st, ast.Assign) and len(st.targets) == 1 and isinstance(st.targets[0], ast.Name):
                for who, src, mx in (('f', father, maxf), ('m', mother, maxm)):
                    if _norm(st.value) == f'copy.deepcopy({src})' and who not in cp:
                        cp[who] = st.targets[0].id
                        F['copiesFatherDeep' if who == 'f' else 'copiesMotherDeep'] = True
                        done = True
                    elif _norm(st.value) == f'int(r.generate_uniform_random_number(2, {mx})[0])' and who not in pt:
                        pt[who] = st.targets[0].id
                        F['fatherPointUniform2Max' if who == 'f' else 'motherPointUniform2Max'] = True
                        done = True
            if not done and isinstance(st, ast.Assign) and len(st.targets) == 1 and isinstance(st.targets[0], ast.Tuple) \
                    and len(st.targets[0].elts) == 2 and all(isinstance(e, ast.Name) for e in st.targets[0].elts):
                for who in ('f', 'm'):
                    if who in cp and who in pt and who not in sub and _norm(st.value) == f'{cp[who]}.find_node({pt[who]})':
                        sub[who], flg[who] = [e.id for e in st.targets[0].elts]
                        finds += 1
                        done = True
            if done:
                continue
            if isinstance(st, ast.If) and len(sub) == 2 and body.startswith('(.unknown "method'):
                body, cond = read_heap_block(list(st.body), set(sub.values()), set(flg.values()))
                F['cond'] = cond(st.test) or '(.flag "?")'
                F['elseNothing'] = not st.orelse
            elif isinstance(st, ast.Return) and len(cp) == 2 and _norm(st) in (f'return ({cp["f"]}, {cp["m"]})', f'return {cp["f"]}, {cp["m"]}'):
                F['returnsCopies'] = True
            else:
                F['extraStmts'] += 1
        F['findsOnCopies'] = finds == 2
    else:
        F['extraStmts'] = 1
    return body, '{ ' + ', '.join(f'{k} := {b(v) if isinstance(v, bool) else v}' for k, v in F.items()) + ' }'


_old_gen_loops9 = gen_loops


def gen_loops():
    texts, data = _old_gen_loops9()
    gp = f'{REPO}/opytimizer/optimizers/gp.py'
    mb, mf = read_mutate(find_method(gp, 'GP', '_mutate'))
    cb, cf = read_cross(find_method(gp, 'GP', '_cross'))
    texts['HeapOpsDefs'] = '\n'.join(['-- GENERATED by harness/translate_loops.py from GP._mutate / GP._cross. Do not edit.',
                                      'import OpyVerif.Model.Heap', 'namespace Opy.Gen', 'open Opy', '',
                                      f'def mutateBody : HStmt := {mb}', f'def mutFrame : MutFrame := {mf}',
                                      f'def crossBody : HStmt := {cb}', f'def crossFrame : CrossFrame := {cf}', '', 'end Opy.Gen', ''])
    texts['HeapOps'] = '\n'.join(['-- GENERATED by harness/translate_loops.py: obligations re-decided on every build. Do not edit.',
                                  'import OpyVerif.Generated.HeapOpsDefs', 'namespace Opy.Gen', 'open Opy',
                                  '/-- the field writes of `GP._mutate` read as the program `Proofs/Heap.mutate_on_heap` is about -/',
                                  'theorem mutateBody_eq : mutateBody = Expected.mutateBody := by decide +kernel',
                                  'theorem mutFrame_eq : mutFrame = Expected.mutFrame := by decide +kernel',
                                  '/-- the field writes of `GP._cross` read as the program `Proofs/Heap.cross_on_heap` is about -/',
                                  'theorem crossBody_eq : crossBody = Expected.crossBody := by decide +kernel',
                                  'theorem crossFrame_eq : crossFrame = Expected.crossFrame := by decide +kernel',
                                  'end Opy.Gen', ''])
    data['heap_ops'] = dict(mutate=mb, cross=cb)
    return texts, data



# ------------------------------------------------------------------ TreeSpace.grow
def read_grow(fn):
    b = lambda v: 'true' if v else 'false'
    F = dict(leafWhenDepthsEqual=False, leafLow='(.lit 99)', leafHigh='(.lit 0)', leafId='(.lit 99)', innerLow='(.lit 99)', innerHigh='(.lit 0)',
             termThreshold='(.lit 0)', termId='(.lit 99)', funcIndex='(.lit 99)', terminalNode=False, functionNode=False, arityFromTable=False,
             recursesDeeper=False, firstChildLeft=False, restRightFlagFalse=False, setsParent=False, extraStmts=0)
    if fn is None or len(fn.args.args) != 3:
        F['extraStmts'] = 1
        return '{ ' + ', '.join(f'{k} := {b(v) if isinstance(v, bool) else v}' for k, v in F.items()) + ' }'
    _, mn, mx = [a.arg for a in fn.args.args]
    # locals that merely name one of the two sizes (`n_functions = len(self.functions)`), assigned once: read as the size
    size_alias = {}
    counts = {}
    for n_ in ast.walk(fn):
        if isinstance(n_, ast.Name) and isinstance(n_.ctx, ast.Store):
            counts[n_.id] = counts.get(n_.id, 0) + 1
    for n_ in ast.walk(fn):
        if isinstance(n_, ast.Assign) and len(n_.targets) == 1 and isinstance(n_.targets[0], ast.Name) and counts.get(n_.targets[0].id) == 1 \
                and ast.unparse(n_.value) in ('len(self.functions)', 'self.n_terminals'):
            size_alias[n_.targets[0].id] = '.nFunctions' if 'functions' in ast.unparse(n_.value) else '.nTerminals'

    class _DropAliases(ast.NodeTransformer):
        def visit_Assign(self, n_):
            if len(n_.targets) == 1 and isinstance(n_.targets[0], ast.Name) and n_.targets[0].id in size_alias:
                return None
            return n_
    import copy as _copy2
    fn = ast.fix_missing_locations(_DropAliases().visit(_copy2.deepcopy(fn)))

    def iexp(e, draw):
        if isinstance(e, ast.Name) and e.id in size_alias:
            return size_alias[e.id]
        """integer expression over the draw, n_terminals and len(functions)"""
        if isinstance(e, ast.Constant) and type(e.value) is int and e.value >= 0:
            return f'(.lit {e.value})'
        u = ast.unparse(e)
        if u == 'self.n_terminals':
            return '.nTerminals'
        if u == 'len(self.functions)':
            return '.nFunctions'
        if draw and u == draw:
            return '.draw'
        if isinstance(e, ast.BinOp) and isinstance(e.op, (ast.Add, ast.Sub)):
            a, c = iexp(e.left, draw), iexp(e.right, draw)
            if a and c:
                return f'(.{"add" if isinstance(e.op, ast.Add) else "sub"} {a} {c})'
        return None

    def draw_of(st):
        """`name = int(r.generate_uniform_random_number(lo, hi)[0])` -> (name, lo, hi)"""
        if isinstance(st, ast.Assign) and len(st.targets) == 1 and isinstance(st.targets[0], ast.Name):
            v = st.value
            if isinstance(v, ast.Call) and ast.unparse(v.func) == 'int' and len(v.args) == 1 and isinstance(v.args[0], ast.Subscript) \
                    and ast.unparse(v.args[0].slice) == '0' and isinstance(v.args[0].value, ast.Call) \
                    and ast.unparse(v.args[0].value.func) == 'r.generate_uniform_random_number' and len(v.args[0].value.args) == 2 \
                    and not v.args[0].value.keywords:
                lo, hi = v.args[0].value.args
                return st.targets[0].id, lo, hi
        return None

    def terminal_node(st, names):
        """`return Node(name=T, type='TERMINAL', value=self.terminals[T].position)` -> T (an expression) or None"""
        if isinstance(st, ast.Return) and isinstance(st.value, ast.Call) and ast.unparse(st.value.func) == 'Node' and not st.value.args:
            kw = {k.arg: k.value for k in st.value.keywords}
            if set(kw) == {'name', 'type', 'value'} and ast.unparse(kw['type']) == "'TERMINAL'":
                t = ast.unparse(kw['name'])
                if ast.unparse(kw['value']) == f'self.terminals[{t}].position':
                    return kw['name']
        return None

    stmts = [s for s in body_of(fn) if not (isinstance(s, ast.Expr) and ast.unparse(s) == 'self._initialize_terminals()')]
    if len(body_of(fn)) - len(stmts) != 1:                    # exactly one re-initialisation of the terminals is expected
        F['extraStmts'] += 1
    if len(stmts) != 1 or not isinstance(stmts[0], ast.If):
        # guard form: `if …: …return` ; REST
        if len(stmts) >= 2 and isinstance(stmts[0], ast.If) and not stmts[0].orelse and stmts[0].body and isinstance(stmts[0].body[-1], ast.Return):
            top = ast.If(test=stmts[0].test, body=stmts[0].body, orelse=stmts[1:])
        else:
            F['extraStmts'] += 1
            return '{ ' + ', '.join(f'{k} := {b(v) if isinstance(v, bool) else v}' for k, v in F.items()) + ' }'
    else:
        top = stmts[0]
    F['leafWhenDepthsEqual'] = ast.unparse(top.test) in (f'{mn} == {mx}', f'{mx} == {mn}')
    # leaf case
    leaf = [s for s in top.body]
    d = draw_of(leaf[0]) if leaf else None
    if d and len(leaf) == 2:
        name, lo, hi = d
        F['leafLow'], F['leafHigh'] = iexp(lo, None) or '(.lit 99)', iexp(hi, None) or '(.lit 0)'
        t = terminal_node(leaf[1], {name})
        if t is not None:
            F['leafId'] = iexp(t, name) or '(.lit 99)'
            F['terminalNode'] = True
    else:
        F['extraStmts'] += 1
    # inner case
    inner = list(top.orelse)
    d = draw_of(inner[0]) if inner else None
    if not d or len(inner) < 2:
        F['extraStmts'] += 1
        return '{ ' + ', '.join(f'{k} := {b(v) if isinstance(v, bool) else v}' for k, v in F.items()) + ' }'
    nid, lo, hi = d
    F['innerLow'], F['innerHigh'] = iexp(lo, None) or '(.lit 99)', iexp(hi, None) or '(.lit 0)'
    rest = inner[1:]
    if len(rest) >= 2 and isinstance(rest[0], ast.If) and not rest[0].orelse and rest[0].body and isinstance(rest[0].body[-1], ast.Return):
        rest = [ast.If(test=rest[0].test, body=rest[0].body, orelse=rest[1:])]
    if len(rest) != 1 or not isinstance(rest[0], ast.If):
        F['extraStmts'] += 1
        return '{ ' + ', '.join(f'{k} := {b(v) if isinstance(v, bool) else v}' for k, v in F.items()) + ' }'
    br = rest[0]
    tst = br.test
    if isinstance(tst, ast.Compare) and len(tst.ops) == 1 and isinstance(tst.ops[0], ast.GtE) and ast.unparse(tst.left) == nid:
        F['termThreshold'] = iexp(tst.comparators[0], nid) or '(.lit 0)'
    else:
        F['extraStmts'] += 1
    # terminal branch: optional `terminal_id = <expr>` then the node
    tb = list(br.body)
    env = {}
    while tb and isinstance(tb[0], ast.Assign) and len(tb[0].targets) == 1 and isinstance(tb[0].targets[0], ast.Name) and iexp(tb[0].value, nid):
        env[tb[0].targets[0].id] = tb[0].value
        tb = tb[1:]
    if len(tb) == 1:
        t = terminal_node(tb[0], set(env) | {nid})
        if t is not None:
            if isinstance(t, ast.Name) and t.id in env:
                t = env[t.id]
            F['termId'] = iexp(t, nid) or '(.lit 99)'
        else:
            F['terminalNode'] = False
    else:
        F['extraStmts'] += 1
    # function branch
    fb = list(br.orelse)
    fnode = None
    fname = None   # a local holding self.functions[node_id]
    k = 0
    while k < len(fb):
        st = fb[k]
        if isinstance(st, ast.Assign) and len(st.targets) == 1 and isinstance(st.targets[0], ast.Name):
            v = st.value
            if isinstance(v, ast.Subscript) and ast.unparse(v.value) == 'self.functions' and fname is None and fnode is None:
                fname = (st.targets[0].id, v.slice)
                k += 1
                continue
            if isinstance(v, ast.Call) and ast.unparse(v.func) == 'Node' and not v.args and fnode is None:
                kw = {q.arg: q.value for q in v.keywords}
                if set(kw) == {'name', 'type'} and ast.unparse(kw['type']) == "'FUNCTION'":
                    nm = kw['name']
                    idx = None
                    if isinstance(nm, ast.Subscript) and ast.unparse(nm.value) == 'self.functions':
                        idx = nm.slice
                    elif isinstance(nm, ast.Name) and fname and nm.id == fname[0]:
                        idx = fname[1]
                    if idx is not None:
                        F['funcIndex'] = iexp(idx, nid) or '(.lit 99)'
                        F['functionNode'] = True
                        fnode = st.targets[0].id
                        k += 1
                        continue
        break
    tail = fb[k:]
    if fnode and len(tail) == 2 and isinstance(tail[0], ast.For) and not tail[0].orelse and isinstance(tail[0].target, ast.Name) \
            and isinstance(tail[1], ast.Return) and ast.unparse(tail[1].value) == fnode:
        lp = tail[0]
        i_ = lp.target.id
        fn_name = f'self.functions[{ast.unparse(fname[1])}]' if fname else None
        it = ast.unparse(lp.iter)
        F['arityFromTable'] = it in ([f'range(c.N_ARGS_FUNCTION[self.functions[{nid}]])'] + ([f'range(c.N_ARGS_FUNCTION[{fname[0]}])'] if fname and ast.unparse(fname[1]) == nid else []))
        body = list(lp.body)
        child = None
        if body and isinstance(body[0], ast.Assign) and len(body[0].targets) == 1 and isinstance(body[0].targets[0], ast.Name) \
                and ast.unparse(body[0].value) in (f'self.grow({mn} + 1, {mx})', f'self.grow(1 + {mn}, {mx})'):
            child = body[0].targets[0].id
            F['recursesDeeper'] = True
            body = body[1:]
        if child and len(body) == 2 and isinstance(body[0], ast.If):
            iff = body[0]
            t = ast.unparse(iff.test)
            first, other = (iff.body, iff.orelse) if t in (f'not {i_}', f'{i_} == 0') else ((iff.orelse, iff.body) if t in (i_, f'{i_} != 0', f'{i_} > 0') else (None, None))
            if first is not None:
                F['firstChildLeft'] = [ast.unparse(x) for x in first] == [f'{fnode}.left = {child}']
                F['restRightFlagFalse'] = sorted(ast.unparse(x) for x in other) == sorted([f'{fnode}.right = {child}', f'{child}.flag = False']) \
                    and ast.unparse(other[0]) == f'{fnode}.right = {child}'
            F['setsParent'] = ast.unparse(body[1]) == f'{child}.parent = {fnode}'
        else:
            F['extraStmts'] += 1
    else:
        F['extraStmts'] += 1
    return '{ ' + ', '.join(f'{k} := {b(v) if isinstance(v, bool) else v}' for k, v in F.items()) + ' }'


_old_gen_loops10 = gen_loops


def gen_loops():
    texts, data = _old_gen_loops10()
    gp = read_grow(find_method(f'{REPO}/opytimizer/spaces/tree.py', 'TreeSpace', 'grow'))
    texts['GrowDefs'] = '\n'.join(['-- GENERATED by harness/translate_loops.py from TreeSpace.grow. Do not edit.',
                                   'import OpyVerif.Model.GrowProg', 'namespace Opy.Gen', 'open Opy', '',
                                   f'def growProg : GrowProg := {gp}', '', 'end Opy.Gen', ''])
    texts['Grow'] = '\n'.join(['-- GENERATED by harness/translate_loops.py: obligations re-decided on every build. Do not edit.',
                               'import OpyVerif.Generated.GrowDefs', 'namespace Opy.Gen', 'open Opy',
                               '/-- `TreeSpace.grow` reads as the record `Proofs/GrowProg.growProg_is_grow` proves to be `PNode.grow` -/',
                               'theorem growProg_eq : growProg = Expected.growProg := by decide +kernel',
                               'end Opy.Gen', ''])
    data['grow'] = gp
    return texts, data



# ------------------------------------------------------------------ History.get / Opytimizer.start
def read_get(fn):
    b = lambda v: 'true' if v else 'false'
    F = dict(typeGuardFirst=False, arrayWithObjectFallback=False, sizeGuard=False, sliceAllThenIndex=False, stacksAndReturns=False, extraStmts=0)
    show = lambda: '{ ' + ', '.join(f'{k} := {b(v) if isinstance(v, bool) else v}' for k, v in F.items()) + ' }'
    if fn is None or len(fn.args.args) != 3:
        F['extraStmts'] = 1
        return show()
    _, key, idx = [a.arg for a in fn.args.args]
    stmts = body_of(fn)
    arr = None
    stage = 0
    for k_, st in enumerate(stmts):
        u = ' '.join(ast.unparse(st).split())
        if stage == 0 and isinstance(st, ast.If) and not st.orelse and ast.unparse(st.test) == f'not isinstance({idx}, tuple)' \
                and len(st.body) == 1 and isinstance(st.body[0], ast.Raise) and ast.unparse(st.body[0].exc).startswith('e.TypeError('):
            F['typeGuardFirst'] = k_ == 0
            stage = 1
            continue
        if stage == 1 and isinstance(st, ast.Try) and len(st.body) == 1 and len(st.handlers) == 1 and not st.orelse and not st.finalbody:
            a0, h0 = st.body[0], st.handlers[0]
            if isinstance(a0, ast.Assign) and len(a0.targets) == 1 and isinstance(a0.targets[0], ast.Name) \
                    and ast.unparse(a0.value) == f'np.asarray(getattr(self, {key}))' and h0.type is not None and ast.unparse(h0.type) == 'ValueError' \
                    and len(h0.body) == 1 and ast.unparse(h0.body[0]) == f'{a0.targets[0].id} = np.asarray(getattr(self, {key}), dtype=object)':
                arr = a0.targets[0].id
                F['arrayWithObjectFallback'] = True
                stage = 2
                continue
        if stage == 2 and arr and isinstance(st, ast.If) and not st.orelse and ast.unparse(st.test) in (f'{arr}.ndim - 1 != len({idx})', f'len({idx}) != {arr}.ndim - 1') \
                and len(st.body) == 1 and isinstance(st.body[0], ast.Raise) and ast.unparse(st.body[0].exc).startswith('e.SizeError('):
            F['sizeGuard'] = True
            stage = 3
            continue
        if stage == 3 and u == f'{arr} = {arr}[(slice(None),) + {idx}]':
            F['sliceAllThenIndex'] = True
            stage = 4
            continue
        if stage == 4 and u == f'{arr} = np.hstack({arr})' and k_ + 1 < len(stmts) and ast.unparse(stmts[k_ + 1]) == f'return {arr}':
            F['stacksAndReturns'] = True
            stage = 5
            continue
        if stage == 4 and u == f'return np.hstack({arr})':
            F['stacksAndReturns'] = True
            stage = 6
            continue
        if stage == 5 and u == f'return {arr}':
            stage = 6
            continue
        F['extraStmts'] += 1
    return show()


def read_start(fn):
    b = lambda v: 'true' if v else 'false'
    F = dict(clockBefore=False, runsWithOwnComponents=False, passesFlagAndHook=False, clockAfter=False, dumpsElapsed=False,
             returnsThatHistory=False, extraStmts=0)
    show = lambda: '{ ' + ', '.join(f'{k} := {b(v) if isinstance(v, bool) else v}' for k, v in F.items()) + ' }'
    if fn is None or len(fn.args.args) != 3:
        F['extraStmts'] = 1
        return show()
    _, flag, hook = [a.arg for a in fn.args.args]
    stmts = [s for s in body_of(fn) if not (isinstance(s, ast.Expr) and isinstance(s.value, ast.Call) and ast.unparse(s.value.func).startswith('logger.'))]
    t0 = t1 = hist = dt = None
    alias_ = {}
    for st in stmts:
        u = ' '.join(ast.unparse(st).split())
        tgt = st.targets[0].id if isinstance(st, ast.Assign) and len(st.targets) == 1 and isinstance(st.targets[0], ast.Name) else None
        v = getattr(st, 'value', None)
        if tgt and ast.unparse(v) == 'time.time()' and t0 is None and hist is None:
            t0 = tgt
            F['clockBefore'] = True
        elif tgt and isinstance(v, ast.Call) and ast.unparse(v.func) in (['self.optimizer.run'] + ([alias_['opt'] + '.run'] if 'opt' in alias_ else [])) \
                and hist is None and t0:
            hist = tgt
            a = [ast.unparse(x) for x in v.args]
            if len(v.args) == 1 and isinstance(v.args[0], ast.Starred) and 'args' in alias_ and ast.unparse(v.args[0].value) == alias_['args'][0]:
                a = list(alias_['args'][1])          # `run(*args)` with `args` the tuple bound just before
            kw = {k.arg: ast.unparse(k.value) for k in v.keywords}
            F['runsWithOwnComponents'] = a[:2] == ['self.space', 'self.function']
            rest = a[2:] + [kw.get('store_best_only'), kw.get('pre_evaluation_hook')][len(a[2:]):]
            F['passesFlagAndHook'] = rest == [flag, hook] and set(kw) <= {'store_best_only', 'pre_evaluation_hook'}
        elif tgt and ast.unparse(v) == 'time.time()' and hist and t1 is None:
            t1 = tgt
            F['clockAfter'] = True
        elif tgt and t0 and t1 and ast.unparse(v) == f'{t1} - {t0}' and dt is None:
            dt = tgt
        elif tgt and t0 and hist and t1 is None and dt is None and ast.unparse(v) == f'time.time() - {t0}':
            # the second clock reading taken inside the subtraction: the same reading at the same point
            t1 = '<inline>'
            dt = tgt
            F['clockAfter'] = True
        elif tgt and hist is None and ast.unparse(v) == 'self.optimizer' and 'opt' not in alias_:
            alias_['opt'] = tgt
        elif tgt and hist is None and isinstance(v, ast.Tuple) and 'args' not in alias_:
            alias_['args'] = (tgt, [ast.unparse(x) for x in v.elts])
        elif hist and isinstance(st, ast.Expr) and u in ([f'{hist}.dump(time={dt})'] if dt else []) + ([f'{hist}.dump(time={t1} - {t0})'] if t1 else []):
            F['dumpsElapsed'] = True
        elif hist and t0 and isinstance(st, ast.Expr) and u == f'{hist}.dump(time=time.time() - {t0})' and t1 is None:
            # `end` read in place: the same clock reading at the same point
            F['clockAfter'] = True
            F['dumpsElapsed'] = True
        elif hist and u == f'return {hist}':
            F['returnsThatHistory'] = True
        else:
            F['extraStmts'] += 1
    return show()


_old_gen_loops12 = gen_loops


def gen_loops():
    texts, data = _old_gen_loops12()
    gp = read_get(find_method(f'{REPO}/opytimizer/utils/history.py', 'History', 'get'))
    sp = read_start(find_method(f'{REPO}/opytimizer/opytimizer.py', 'Opytimizer', 'start'))
    texts['HistProgDefs'] = '\n'.join(['-- GENERATED by harness/translate_loops.py from History.get and Opytimizer.start. Do not edit.',
                                       'import OpyVerif.Model.HistProg', 'namespace Opy.Gen', 'open Opy', '',
                                       f'def getProg : GetProg := {gp}', f'def startProg : StartProg := {sp}', '', 'end Opy.Gen', ''])
    texts['HistProg'] = '\n'.join(['-- GENERATED by harness/translate_loops.py: obligations re-decided on every build. Do not edit.',
                                   'import OpyVerif.Generated.HistProgDefs', 'namespace Opy.Gen', 'open Opy',
                                   'theorem getProg_eq : getProg = Expected.getProg := by decide +kernel',
                                   'theorem startProg_eq : startProg = Expected.startProg := by decide +kernel',
                                   'end Opy.Gen', ''])
    data['hist_progs'] = dict(get=gp, start=sp)
    return texts, data

if __name__ == '__main__':
    t, d = gen_loops()
    print(t['HeapOpsDefs'])


# ------------------------------------------------------------------ _initialize_agents of the three space kinds
def _uniform_defaults():
    """keys of the default `low` / `high` of math/random.generate_uniform_random_number"""
    f = find_function(f'{REPO}/opytimizer/math/random.py', 'generate_uniform_random_number')
    try:
        names = [a.arg for a in f.args.args]
        defs = dict(zip(names[len(names) - len(f.args.defaults):], f.args.defaults))
        return fkey(ast.literal_eval(defs['low'])), fkey(ast.literal_eval(defs['high']))
    except Exception:
        return None, None


def read_init(fn, over='self.agents'):
    b = lambda v: 'true' if v else 'false'
    F = dict(perAgent=False, rows='.other', targetIsRowJ=False, low='.unknown', high='.unknown', sizeIsDims=False,
             writesLb='none', writesUb='none', extraStmts=0)
    show = lambda: '{ ' + ', '.join(f'{k} := {b(v) if isinstance(v, bool) else v}' for k, v in F.items()) + ' }'
    if fn is None:
        F['extraStmts'] = 1
        return show()
    stmts = [s for s in body_of(fn) if not (isinstance(s, ast.Expr) and isinstance(s.value, ast.Call) and ast.unparse(s.value.func).startswith('logger.'))]
    if len(stmts) != 1 or not isinstance(stmts[0], ast.For) or ast.unparse(stmts[0].iter) != over or not isinstance(stmts[0].target, ast.Name) \
            or stmts[0].orelse:
        F['extraStmts'] = max(1, len(stmts))
        return show()
    F['perAgent'] = True
    ag = stmts[0].target.id
    inner = body_of(stmts[0])
    if len(inner) != 1 or not isinstance(inner[0], ast.For) or inner[0].orelse:
        F['extraStmts'] = max(1, len(inner))
        return show()
    lp = inner[0]
    it, tg = ast.unparse(lp.iter), lp.target
    j = fst = snd = None
    if it == 'enumerate(zip(self.lb, self.ub))' and isinstance(tg, ast.Tuple) and len(tg.elts) == 2 and isinstance(tg.elts[0], ast.Name) \
            and isinstance(tg.elts[1], ast.Tuple) and len(tg.elts[1].elts) == 2 and all(isinstance(e, ast.Name) for e in tg.elts[1].elts):
        F['rows'] = '.zipBounds'
        j, fst, snd = tg.elts[0].id, tg.elts[1].elts[0].id, tg.elts[1].elts[1].id
    elif it == f'enumerate({ag}.position)' and isinstance(tg, ast.Tuple) and len(tg.elts) == 2 and isinstance(tg.elts[0], ast.Name):
        F['rows'] = '.agentRows'
        j = tg.elts[0].id
    elif it in (f'range({ag}.n_variables)', f'range(len({ag}.position))') and isinstance(tg, ast.Name):
        F['rows'] = '.agentRows'
        j = tg.id
    else:
        F['extraStmts'] += 1
        return show()
    dlo, dhi = _uniform_defaults()

    def dref(e):
        if e is None:
            return None
        u = ast.unparse(e)
        if fst and u == fst:
            return '.zipFst'
        if snd and u == snd:
            return '.zipSnd'
        return '.unknown'
    for st in body_of(lp):
        if isinstance(st, ast.Assign) and len(st.targets) == 1:
            t = ast.unparse(st.targets[0])
            v = st.value
            if t == f'{ag}.position[{j}]' and isinstance(v, ast.Call) and ast.unparse(v.func) == 'r.generate_uniform_random_number' and not F['targetIsRowJ']:
                F['targetIsRowJ'] = True
                kw = {k.arg: k.value for k in v.keywords}
                pos = list(v.args)
                lo = pos[0] if len(pos) > 0 else kw.get('low')
                hi = pos[1] if len(pos) > 1 else kw.get('high')
                sz = pos[2] if len(pos) > 2 else kw.get('size')
                key = lambda k: f'(.dflt {k})' if k is not None and k >= 0 else (f'(.dflt ({k}))' if k is not None else '.unknown')
                F['low'] = dref(lo) if lo is not None else key(dlo)
                F['high'] = dref(hi) if hi is not None else key(dhi)
                F['sizeIsDims'] = sz is not None and ast.unparse(sz) == f'{ag}.n_dimensions'
                continue
            if t == f'{ag}.lb[{j}]' and F['writesLb'] == 'none':
                F['writesLb'] = f'(some {dref(v)})'
                continue
            if t == f'{ag}.ub[{j}]' and F['writesUb'] == 'none':
                F['writesUb'] = f'(some {dref(v)})'
                continue
        F['extraStmts'] += 1
    return show()


_old_gen_loops11 = gen_loops


def gen_loops():
    texts, data = _old_gen_loops11()
    rows = [(n, read_init(find_method(f'{REPO}/opytimizer/spaces/{f}.py', c, '_initialize_agents')))
            for n, f, c in (('searchInit', 'search', 'SearchSpace'), ('treeInit', 'tree', 'TreeSpace'), ('hyperInit', 'hyper', 'HyperSpace'))]
    rows.append(('terminalsInit', read_init(find_method(f'{REPO}/opytimizer/spaces/tree.py', 'TreeSpace', '_initialize_terminals'), over='self.terminals')))
    texts['InitDefs'] = '\n'.join(['-- GENERATED by harness/translate_loops.py from the _initialize_agents methods. Do not edit.',
                                   'import OpyVerif.Model.InitProg', 'namespace Opy.Gen', 'open Opy', ''] +
                                  [f'def {n} : InitLoop := {t}' for n, t in rows] + ['', 'end Opy.Gen', ''])
    texts['Init'] = '\n'.join(['-- GENERATED by harness/translate_loops.py: obligations re-decided on every build. Do not edit.',
                               'import OpyVerif.Generated.InitDefs', 'namespace Opy.Gen', 'open Opy',
                               'theorem searchInit_eq : searchInit = Expected.searchInit := by decide +kernel',
                               'theorem treeInit_eq : treeInit = Expected.searchInit := by decide +kernel',
                               'theorem hyperInit_eq : hyperInit = Expected.hyperInit := by decide +kernel',
                               '/-- `TreeSpace._initialize_terminals` is the same loop over `self.terminals` -/',
                               'theorem terminalsInit_eq : terminalsInit = Expected.searchInit := by decide +kernel',
                               'end Opy.Gen', ''])
    data['init'] = dict(rows)
    return texts, data


# ------------------------------------------------------------------ GP._mutation / GP._crossover (population loops)
class _Subst(ast.NodeTransformer):
    def __init__(self, alias):
        self.alias = alias

    def visit_Name(self, n):
        if isinstance(n.ctx, ast.Load) and n.id in self.alias:
            return copy.deepcopy(self.alias[n.id])
        return n


def _canon(e, alias):
    """the expression with every local temporary replaced by what it was assigned (pure reads only)"""
    return ' '.join(ast.unparse(_Subst(alias).visit(copy.deepcopy(e))).split())


def _gt_one(test, alias):
    """-> (size expression compared, positive?) for `n > 1`, `1 < n`, `n >= 2`, and the negations `n <= 1`, `n < 2`, `not (...)`"""
    if isinstance(test, ast.UnaryOp) and isinstance(test.op, ast.Not):
        r = _gt_one(test.operand, alias)
        return (r[0], not r[1]) if r else None
    if isinstance(test, ast.Compare) and len(test.ops) == 1:
        l, op, r = test.left, test.ops[0], test.comparators[0]
        cl, cr = _canon(l, alias), _canon(r, alias)
        if isinstance(op, ast.Gt) and cr == '1':
            return cl, True
        if isinstance(op, ast.Lt) and cl == '1':
            return cr, True
        if isinstance(op, ast.GtE) and cr == '2':
            return cl, True
        if isinstance(op, ast.LtE) and cl == '2':
            return cr, True
        if isinstance(op, ast.LtE) and cr == '1':
            return cl, False
        if isinstance(op, ast.GtE) and cl == '1':
            return cr, False
        if isinstance(op, ast.Lt) and cr == '2':
            return cl, False
        if isinstance(op, ast.Gt) and cl == '2':
            return cr, False
    return None


def _pop_prelude(stmts, pname, F, even=False):
    """fitness list, count (optionally rounded up to even), tournament call, the loop -> loop or None"""
    fitness = count = selected = None
    loop = None
    pre_alias = {}
    for st in stmts:
        tgt = st.targets[0].id if isinstance(st, ast.Assign) and len(st.targets) == 1 and isinstance(st.targets[0], ast.Name) else None
        v = getattr(st, 'value', None)
        if tgt and isinstance(v, ast.ListComp) and len(v.generators) == 1 and not v.generators[0].ifs \
                and isinstance(v.generators[0].target, ast.Name) and _canon(v.generators[0].iter, pre_alias) == 'space.agents' \
                and ast.unparse(v.elt) == v.generators[0].target.id + '.fit' and fitness is None:
            fitness = tgt
            F['fitnessFromAgents'] = True
        elif tgt and _canon(v, pre_alias) == f'int(space.n_trees * self.{pname})' and count is None:
            count = tgt
            F['countIsTreesTimesP'] = True
        elif even and count and selected is None and not F['roundedUpToEven'] and _rounds_up(st, count):
            F['roundedUpToEven'] = True
        elif tgt and fitness and count and ast.unparse(v) == f'g.tournament_selection({fitness}, {count})' and selected is None:
            selected = tgt
            F['selectionIsTournament'] = True
        elif isinstance(st, ast.For) and selected and loop is None and not st.orelse:
            loop = st
            loop._selected = selected
            loop._alias = dict(pre_alias)
        elif tgt and loop is None and isinstance(v, ast.Attribute) and isinstance(v.value, ast.Name) and v.value.id == 'space' \
                and v.attr in ('trees', 'agents', 'n_trees', 'min_depth', 'max_depth'):
            # a local naming an attribute of the space for the duration of this call (nothing rebinds it meanwhile)
            pre_alias[tgt] = v
        else:
            F['extraStmts'] += 1
    return loop


def _rounds_up(st, count):
    u = ' '.join(ast.unparse(st).split())
    forms = [f'if {count} % 2 != 0: {count} += 1', f'if {count} % 2 == 1: {count} += 1', f'if {count} % 2: {count} += 1',
             f'{count} += {count} % 2', f'{count} = {count} + {count} % 2', f'if {count} % 2 != 0: {count} = {count} + 1']
    return u.replace('\n', ' ') in forms or ' '.join(u.split()) in forms


def _note_temp(st, alias):
    """`name = <expr>` / `a, b = <e1>, <e2>`: remembers what the locals stand for; -> True when the statement was one"""
    if isinstance(st, ast.Assign) and len(st.targets) == 1:
        t, v = st.targets[0], st.value
        if isinstance(t, ast.Name):
            alias[t.id] = _Subst(alias).visit(copy.deepcopy(v))
            return True
        if isinstance(t, ast.Tuple) and isinstance(v, ast.Tuple) and len(t.elts) == len(v.elts) and all(isinstance(e, ast.Name) for e in t.elts):
            new = [_Subst(alias).visit(copy.deepcopy(e)) for e in v.elts]
            for e, n_ in zip(t.elts, new):
                alias[e.id] = n_
            return True
    return False


def _show(F):
    b = lambda v: 'true' if v else 'false'
    return '{ ' + ', '.join(f'{k} := {b(v) if isinstance(v, bool) else v}' for k, v in F.items()) + ' }'


def read_mutation(fn):
    F = dict(fitnessFromAgents=False, countIsTreesTimesP=False, selectionIsTournament=False, sizeOfSelected=False,
             guardMoreThanOne=False, pruned=False, mutateIntoSlot=False, growIntoSlot=False, extraStmts=0)
    if fn is None:
        F['extraStmts'] = 1
        return _show(F)
    stmts = [s for s in body_of(fn) if not (isinstance(s, ast.Expr) and isinstance(s.value, ast.Call) and ast.unparse(s.value.func).startswith('logger.'))]
    loop = _pop_prelude(stmts, 'p_mutation', F)
    if loop is None or not isinstance(loop.target, ast.Name) or ast.unparse(loop.iter) != loop._selected:
        F['extraStmts'] += 1
        return _show(F)
    s_ = loop.target.id
    slot = f'space.trees[{s_}]'
    size = f'{slot}.n_nodes'
    alias = dict(loop._alias)

    def block(stmts_, which):
        """a branch of the guard: temporaries, then the slot assignment"""
        done = False
        for st in stmts_:
            if not done and _note_temp(st, alias):
                continue
            if isinstance(st, ast.Assign) and len(st.targets) == 1 and _canon(st.targets[0], alias) == slot and not done:
                c = _canon(st.value, alias)
                if which == 'mutate' and c == f'self._mutate(space, {slot}, self._prune_nodes({size}))':
                    F['mutateIntoSlot'] = True
                    F['pruned'] = True
                    done = True
                    continue
                if which == 'mutate' and c.startswith(f'self._mutate(space, {slot}, ') and c.endswith(')'):
                    F['mutateIntoSlot'] = True      # … but the bound handed over is not the pruned size
                    done = True
                    continue
                if which == 'grow' and c == 'space.grow(space.min_depth, space.max_depth)':
                    F['growIntoSlot'] = True
                    done = True
                    continue
            F['extraStmts'] += 1
    guard = None
    for st in body_of(loop):
        if guard is None and _note_temp(st, alias):
            continue
        if isinstance(st, ast.If) and guard is None:
            guard = st
            g_ = _gt_one(st.test, alias)
            if g_ and g_[0] == size:
                F['sizeOfSelected'] = True
                F['guardMoreThanOne'] = True
                pos, neg = (st.body, st.orelse) if g_[1] else (st.orelse, st.body)
                block(pos, 'mutate')
                block(neg, 'grow')
            else:
                F['extraStmts'] += 1
            continue
        F['extraStmts'] += 1
    return _show(F)


def read_crossover(fn):
    F = dict(fitnessFromAgents=False, countIsTreesTimesP=False, roundedUpToEven=False, selectionIsTournament=False,
             loopOverPairs=False, sizesOfPair=False, guardBothMoreThanOne=False, prunedBoth=False, crossIntoSlots=False, extraStmts=0)
    if fn is None:
        F['extraStmts'] = 1
        return _show(F)
    stmts = [s for s in body_of(fn) if not (isinstance(s, ast.Expr) and isinstance(s.value, ast.Call) and ast.unparse(s.value.func).startswith('logger.'))]
    loop = _pop_prelude(stmts, 'p_crossover', F, even=True)
    if loop is None or _canon(loop.iter, loop._alias) != f'g.pairwise({loop._selected})':
        F['extraStmts'] += 1
        return _show(F)
    alias = dict(loop._alias)
    if isinstance(loop.target, ast.Name):
        a_, b_ = f'{loop.target.id}[0]', f'{loop.target.id}[1]'
    elif isinstance(loop.target, ast.Tuple) and len(loop.target.elts) == 2 and all(isinstance(e, ast.Name) for e in loop.target.elts):
        a_, b_ = loop.target.elts[0].id, loop.target.elts[1].id
    else:
        F['extraStmts'] += 1
        return _show(F)
    F['loopOverPairs'] = True
    sa, sb = f'space.trees[{a_}]', f'space.trees[{b_}]'
    na, nb = f'{sa}.n_nodes', f'{sb}.n_nodes'
    want = f'self._cross({sa}, {sb}, self._prune_nodes({na}), self._prune_nodes({nb}))'
    guard = None
    for st in body_of(loop):
        if guard is None and _note_temp(st, alias):
            continue
        if isinstance(st, ast.If) and guard is None and not st.orelse:
            guard = st
            t = st.test
            ok = False
            if isinstance(t, ast.BoolOp) and isinstance(t.op, ast.And) and len(t.values) == 2:
                g1, g2 = _gt_one(t.values[0], alias), _gt_one(t.values[1], alias)
                ok = bool(g1 and g2 and g1[1] and g2[1] and {g1[0], g2[0]} == {na, nb})
            if not ok:
                F['extraStmts'] += 1
                continue
            F['sizesOfPair'] = True
            F['guardBothMoreThanOne'] = True
            done = False
            pending = None      # (name of first offspring, name of second offspring, canonical call, stores done so far)
            for s2 in st.body:
                if isinstance(s2, ast.Assign) and len(s2.targets) == 1 and isinstance(s2.targets[0], ast.Tuple) and not done and pending is None \
                        and len(s2.targets[0].elts) == 2 and all(isinstance(e, ast.Name) for e in s2.targets[0].elts) \
                        and isinstance(s2.value, ast.Call) and _canon(s2.value, alias).startswith('self._cross('):
                    # `o1, o2 = self._cross(…)` followed by the two stores, first slot first
                    pending = [s2.targets[0].elts[0].id, s2.targets[0].elts[1].id, _canon(s2.value, alias), 0]
                    continue
                if not done and pending is None and _note_temp(s2, alias):
                    continue
                if pending is not None and not done and isinstance(s2, ast.Assign) and len(s2.targets) == 1 and isinstance(s2.value, ast.Name):
                    tg = _canon(s2.targets[0], alias)
                    if pending[3] == 0 and tg == sa and s2.value.id == pending[0]:
                        pending[3] = 1
                        continue
                    if pending[3] == 1 and tg == sb and s2.value.id == pending[1]:
                        c = pending[2]
                        if c == want:
                            F['crossIntoSlots'] = True
                            F['prunedBoth'] = True
                        elif c.startswith(f'self._cross({sa}, {sb}, '):
                            F['crossIntoSlots'] = True
                        done = True
                        continue
                if isinstance(s2, ast.Assign) and len(s2.targets) == 1 and isinstance(s2.targets[0], ast.Tuple) and not done and pending is None \
                        and _canon(s2.targets[0], alias) == f'({sa}, {sb})':
                    c = _canon(s2.value, alias)
                    if c == want:
                        F['crossIntoSlots'] = True
                        F['prunedBoth'] = True
                        done = True
                        continue
                    if c.startswith(f'self._cross({sa}, {sb}, ') and c.endswith(')'):
                        F['crossIntoSlots'] = True
                        done = True
                        continue
                F['extraStmts'] += 1
            continue
        F['extraStmts'] += 1
    return _show(F)


_old_gen_loops13 = gen_loops


def gen_loops():
    texts, data = _old_gen_loops13()
    gp = f'{REPO}/opytimizer/optimizers/gp.py'
    mu = read_mutation(find_method(gp, 'GP', '_mutation'))
    cr = read_crossover(find_method(gp, 'GP', '_crossover'))
    texts['PopLoopsDefs'] = '\n'.join(['-- GENERATED by harness/translate_loops.py from GP._mutation and GP._crossover. Do not edit.',
                                       'import OpyVerif.Model.PopLoops', 'namespace Opy.Gen', 'open Opy', '',
                                       f'def mutLoop : MutLoop := {mu}', f'def crossLoop : CrossLoop := {cr}', '', 'end Opy.Gen', ''])
    texts['PopLoops'] = '\n'.join(['-- GENERATED by harness/translate_loops.py: obligations re-decided on every build. Do not edit.',
                                   'import OpyVerif.Generated.PopLoopsDefs', 'namespace Opy.Gen', 'open Opy',
                                   '/-- `GP._mutation` reads as the loop `Proofs/PopLoops.mutLoop_popOK` is about -/',
                                   'theorem mutLoop_eq : mutLoop = Expected.mutLoop := by decide +kernel',
                                   '/-- `GP._crossover` reads as the loop `Proofs/PopLoops.crossLoop_popOK` is about -/',
                                   'theorem crossLoop_eq : crossLoop = Expected.crossLoop := by decide +kernel',
                                   'end Opy.Gen', ''])
    data['popLoops'] = dict(mutation=mu, crossover=cr)
    return texts, data


# ------------------------------------------------------------------ Space._create_agents / Space._build
def read_create(fn):
    F = dict(listKind='.other', elemIsAgentCtor=False, countIsNAgents=False, bestIsDeepCopyOfFirst=False, returnsPair=False, extraStmts=0)
    if fn is None:
        F['extraStmts'] = 1
        return _show(F)
    stmts = [s for s in body_of(fn) if not (isinstance(s, ast.Expr) and isinstance(s.value, ast.Call) and ast.unparse(s.value.func).startswith('logger.'))]
    agents = best = None
    ctor_forms = ('Agent(n_variables=self.n_variables, n_dimensions=self.n_dimensions)', 'Agent(self.n_variables, self.n_dimensions)',
                  'Agent(n_dimensions=self.n_dimensions, n_variables=self.n_variables)')
    alias = {}
    for st in stmts:
        tgt = st.targets[0].id if isinstance(st, ast.Assign) and len(st.targets) == 1 and isinstance(st.targets[0], ast.Name) else None
        v = getattr(st, 'value', None)
        if tgt and agents is None and isinstance(v, ast.Attribute) and isinstance(v.value, ast.Name) and v.value.id == 'self':
            # a local holding an attribute of the space read before the list is made (a pure read)
            alias[tgt] = v
            continue
        if agents is None and isinstance(st, ast.Assign) and len(st.targets) == 1 and isinstance(st.targets[0], ast.Tuple) and isinstance(v, ast.Tuple) \
                and len(v.elts) == len(st.targets[0].elts) and all(isinstance(e, ast.Name) for e in st.targets[0].elts) \
                and all(isinstance(e, ast.Attribute) and isinstance(e.value, ast.Name) and e.value.id == 'self' for e in v.elts):
            for e, x in zip(st.targets[0].elts, v.elts):
                alias[e.id] = x
            continue
        if tgt and agents is None and isinstance(v, ast.ListComp) and len(v.generators) == 1 and not v.generators[0].ifs \
                and isinstance(v.generators[0].iter, ast.Call) and ast.unparse(v.generators[0].iter.func) == 'range' \
                and len(v.generators[0].iter.args) == 1:
            agents = tgt
            F['listKind'] = '.comprehension'
            F['elemIsAgentCtor'] = _canon(v.elt, alias) in ctor_forms
            F['countIsNAgents'] = _canon(v.generators[0].iter.args[0], alias) == 'self.n_agents'
        elif tgt and agents is None and isinstance(v, ast.BinOp) and isinstance(v.op, ast.Mult) and isinstance(v.left, ast.List) and len(v.left.elts) == 1:
            agents = tgt
            F['listKind'] = '.repeated'
            F['elemIsAgentCtor'] = _canon(v.left.elts[0], alias) in ctor_forms
            F['countIsNAgents'] = _canon(v.right, alias) == 'self.n_agents'
        elif tgt and agents and best is None and ast.unparse(v) == f'copy.deepcopy({agents}[0])':
            best = tgt
            F['bestIsDeepCopyOfFirst'] = True
        elif isinstance(st, ast.Return) and agents and best and st.value is not None and ast.unparse(st.value) in (f'({agents}, {best})', f'{agents}, {best}'):
            F['returnsPair'] = True
        else:
            F['extraStmts'] += 1
    return _show(F)


def read_build(fn):
    F = dict(lbFromArg=False, ubFromArg=False, agentsFromCreate=False, builtLast=False, extraStmts=0)
    if fn is None:
        F['extraStmts'] = 1
        return _show(F)
    stmts = [s for s in body_of(fn) if not (isinstance(s, ast.Expr) and isinstance(s.value, ast.Call) and ast.unparse(s.value.func).startswith('logger.'))]
    args = [a.arg for a in fn.args.args]
    lo, hi = (args[1], args[2]) if len(args) == 3 else ('lower_bound', 'upper_bound')
    pend = None     # `a, b = self._create_agents()` followed by `self.agents = a` and `self.best_agent = b`
    for k, st in enumerate(stmts):
        u = ' '.join(ast.unparse(st).split())
        if pend is None and isinstance(st, ast.Assign) and len(st.targets) == 1 and isinstance(st.targets[0], ast.Tuple) and len(st.targets[0].elts) == 2 \
                and all(isinstance(e, ast.Name) for e in st.targets[0].elts) and ast.unparse(st.value) == 'self._create_agents()' and not F['agentsFromCreate']:
            pend = [st.targets[0].elts[0].id, st.targets[0].elts[1].id, 0]
            continue
        if pend is not None and pend[2] == 0 and u == f'self.agents = {pend[0]}':
            pend[2] = 1
            continue
        if pend is not None and pend[2] == 1 and u == f'self.best_agent = {pend[1]}':
            pend[2] = 2
            F['agentsFromCreate'] = True
            continue
        if u == f'self.lb = np.asarray({lo})' and not F['lbFromArg']:
            F['lbFromArg'] = True
        elif u == f'self.ub = np.asarray({hi})' and not F['ubFromArg']:
            F['ubFromArg'] = True
        elif u in ('self.agents, self.best_agent = self._create_agents()', '(self.agents, self.best_agent) = self._create_agents()') and not F['agentsFromCreate']:
            F['agentsFromCreate'] = True
        elif u == 'self.built = True' and k == len(stmts) - 1:
            F['builtLast'] = True
        else:
            F['extraStmts'] += 1
    return _show(F)


_old_gen_loops14 = gen_loops


def gen_loops():
    texts, data = _old_gen_loops14()
    sp = f'{REPO}/opytimizer/core/space.py'
    cr = read_create(find_method(sp, 'Space', '_create_agents'))
    bd = read_build(find_method(sp, 'Space', '_build'))
    texts['CreateDefs'] = '\n'.join(['-- GENERATED by harness/translate_loops.py from Space._create_agents and Space._build. Do not edit.',
                                     'import OpyVerif.Model.CreateProg', 'namespace Opy.Gen', 'open Opy', '',
                                     f'def createProg : CreateProg := {cr}', f'def buildProg : BuildProg := {bd}', '', 'end Opy.Gen', ''])
    texts['Create'] = '\n'.join(['-- GENERATED by harness/translate_loops.py: obligations re-decided on every build. Do not edit.',
                                 'import OpyVerif.Generated.CreateDefs', 'namespace Opy.Gen', 'open Opy',
                                 '/-- `Space._create_agents` reads as the program `Proofs/CreateProg.createProg_spec` is about -/',
                                 'theorem createProg_eq : createProg = Expected.createProg := by decide +kernel',
                                 '/-- `Space._build` stores the bounds, installs what `_create_agents` returns and only then declares the space built -/',
                                 'theorem buildProg_eq : buildProg = Expected.buildProg := by decide +kernel',
                                 'end Opy.Gen', ''])
    data['create'] = dict(create=cr, build=bd)
    return texts, data


# ------------------------------------------------------------------ History.save / History.load
def _read_with_open(fn):
    """-> (path expr, mode, handle name, body statements, number of other statements)"""
    if fn is None:
        return None, '', None, [], 1
    stmts = [s for s in body_of(fn) if not (isinstance(s, ast.Expr) and isinstance(s.value, ast.Call) and ast.unparse(s.value.func).startswith('logger.'))]
    extra = 0
    found = None
    alias = {}
    for st in stmts:
        if found is None and isinstance(st, ast.With) and len(st.items) == 1 and isinstance(st.items[0].context_expr, ast.Call) \
                and ast.unparse(st.items[0].context_expr.func) == 'open' and isinstance(st.items[0].optional_vars, ast.Name):
            c = st.items[0].context_expr
            args = list(c.args) + [k.value for k in c.keywords if k.arg == 'mode']
            path = args[0] if args else None
            mode = args[1].value if len(args) > 1 and isinstance(args[1], ast.Constant) and isinstance(args[1].value, str) else ''
            if any(k.arg not in ('mode', 'file') for k in c.keywords):
                extra += 1
            if path is None:
                path = next((k.value for k in c.keywords if k.arg == 'file'), None)
            found = (_Subst(alias).visit(copy.deepcopy(path)) if path is not None else None, mode, st.items[0].optional_vars.id, list(st.body))
        elif found is None and _note_temp(st, alias):
            continue
        else:
            extra += 1
    if found is None:
        return None, '', None, [], extra + 1
    return found + (extra,)


def _path_term(path, param):
    if path is not None and ast.unparse(path) == param:
        return '.param'
    return f'(.other {lean_str(ast.unparse(path)[:60] if path is not None else "?")})'


def read_save(fn):
    param = fn.args.args[1].arg if fn is not None and len(fn.args.args) == 2 else 'file_name'
    path, mode, h, body, extra = _read_with_open(fn)
    dumped = '(.other "?")'
    for st in body:
        u = ' '.join(ast.unparse(st).split())
        if u == f'pickle.dump(self, {h})' and dumped == '(.other "?")':
            dumped = '.self'
        elif u == f'pickle.dump(self.__dict__, {h})' and dumped == '(.other "?")':
            dumped = '.dict'
        else:
            extra += 1
    return f'{{ path := {_path_term(path, param)}, mode := {lean_str(mode)}, dumped := {dumped}, extraStmts := {extra} }}'


def read_load(fn):
    param = fn.args.args[1].arg if fn is not None and len(fn.args.args) == 2 else 'file_name'
    path, mode, h, body, extra = _read_with_open(fn)
    loaded = None
    unp = upd = False
    # the update may sit inside the `with` block or right after it (the file is only needed for the read)
    tail = []
    if fn is not None:
        stmts = [s for s in body_of(fn)]
        wi = next((i for i, s in enumerate(stmts) if isinstance(s, ast.With)), None)
        if wi is not None:
            tail = stmts[wi + 1:]
            extra -= len([s for s in tail if not (isinstance(s, ast.Expr) and isinstance(s.value, ast.Call) and ast.unparse(s.value.func).startswith('logger.'))])
    for st in list(body) + tail:
        u = ' '.join(ast.unparse(st).split())
        if isinstance(st, ast.Assign) and len(st.targets) == 1 and isinstance(st.targets[0], ast.Name) and ast.unparse(st.value) == f'pickle.load({h})' and not unp:
            loaded = st.targets[0].id
            unp = True
        elif loaded and u == f'self.__dict__.update({loaded}.__dict__)' and not upd:
            upd = True
        elif isinstance(st, ast.Expr) and isinstance(st.value, ast.Call) and ast.unparse(st.value.func).startswith('logger.'):
            continue
        else:
            extra += 1
    b = lambda v: 'true' if v else 'false'
    return f'{{ path := {_path_term(path, param)}, mode := {lean_str(mode)}, unpickles := {b(unp)}, updatesDictFromLoaded := {b(upd)}, extraStmts := {max(extra, 0)} }}'


_old_gen_loops15 = gen_loops


def gen_loops():
    texts, data = _old_gen_loops15()
    hp = f'{REPO}/opytimizer/utils/history.py'
    sv = read_save(find_method(hp, 'History', 'save'))
    ld = read_load(find_method(hp, 'History', 'load'))
    texts['PersistDefs'] = '\n'.join(['-- GENERATED by harness/translate_loops.py from History.save and History.load. Do not edit.',
                                      'import OpyVerif.Model.PersistProg', 'namespace Opy.Gen', 'open Opy', '',
                                      f'def saveProg : SaveProg := {sv}', f'def loadProg : LoadProg := {ld}', '', 'end Opy.Gen', ''])
    texts['Persist'] = '\n'.join(['-- GENERATED by harness/translate_loops.py: obligations re-decided on every build. Do not edit.',
                                  'import OpyVerif.Generated.PersistDefs', 'namespace Opy.Gen', 'open Opy',
                                  '/-- `History.save` writes the whole object to the file named by its argument -/',
                                  'theorem saveProg_eq : saveProg = Expected.saveProg := by decide +kernel',
                                  '/-- `History.load` reads the file named by its argument and merges the loaded attribute dictionary -/',
                                  'theorem loadProg_eq : loadProg = Expected.loadProg := by decide +kernel',
                                  'end Opy.Gen', ''])
    data['persist'] = dict(save=sv, load=ld)
    return texts, data


# ------------------------------------------------------------------ state that outlives a call (C05, C18)
MUTATORS = {'append', 'extend', 'insert', 'pop', 'remove', 'clear', 'update', 'setdefault', 'add', 'discard', 'popitem', 'sort', 'reverse',
            '__setitem__', '__delitem__', 'appendleft', 'popleft'}
CACHE_DECOS = ('lru_cache', 'cache', 'cached_property', 'functools.lru_cache', 'functools.cache', 'functools.cached_property')


def _is_container(v):
    if isinstance(v, (ast.Dict, ast.List, ast.Set, ast.ListComp, ast.DictComp, ast.SetComp)):
        return True
    if isinstance(v, ast.Call):
        f = ast.unparse(v.func)
        return f in ('dict', 'list', 'set', 'defaultdict', 'collections.defaultdict', 'OrderedDict', 'collections.OrderedDict',
                     'collections.deque', 'deque', 'bytearray', 'np.zeros', 'np.empty', 'np.ones', 'np.array', 'WeakValueDictionary',
                     'weakref.WeakValueDictionary', 'weakref.WeakKeyDictionary')
    return False


def extract_hidden_state(repo=None):
    repo = repo or REPO
    """state that outlives a call and can carry information from one call / task / object to the next without being an
    argument: module-level containers that some function writes to, `global` / `nonlocal` rebinding of module names, caching
    decorators, attributes set on functions or classes at run time, class-level containers written through instances, mutable
    default arguments that are written to -> sorted [(module, where, what)]"""
    out = []
    root = os.path.join(repo, 'opytimizer')
    for dp, _, files in sorted(os.walk(root)):
        for fl in sorted(files):
            if not fl.endswith('.py'):
                continue
            path = os.path.join(dp, fl)
            mod = os.path.relpath(path, repo)[:-3].replace('/', '.')
            try:
                t = ast.parse(open(path).read())
            except SyntaxError:
                out.append((mod, '?', 'unparsable'))
                continue
            mod_containers, mod_names, mod_funcs, classes = set(), set(), set(), {}
            for st in t.body:
                if isinstance(st, (ast.Assign, ast.AnnAssign)):
                    tgts = st.targets if isinstance(st, ast.Assign) else [st.target]
                    for tg in tgts:
                        if isinstance(tg, ast.Name):
                            mod_names.add(tg.id)
                            if st.value is not None and _is_container(st.value):
                                mod_containers.add(tg.id)
                elif isinstance(st, (ast.FunctionDef, ast.AsyncFunctionDef)):
                    mod_funcs.add(st.name)
                elif isinstance(st, ast.ClassDef):
                    cc = set()
                    for b in st.body:
                        if isinstance(b, (ast.Assign, ast.AnnAssign)):
                            tgts = b.targets if isinstance(b, ast.Assign) else [b.target]
                            for tg in tgts:
                                if isinstance(tg, ast.Name) and b.value is not None and _is_container(b.value):
                                    cc.add(tg.id)
                    classes[st.name] = cc
            imported = {}
            for st in ast.walk(t):
                if isinstance(st, ast.Import):
                    for a in st.names:
                        imported[a.asname or a.name.split('.')[0]] = a.name
                elif isinstance(st, ast.ImportFrom):
                    for a in st.names:
                        imported[a.asname or a.name] = (st.module or '') + '.' + a.name

            # parameters of a class's __init__ with a mutable default: the object the default denotes is shared by every instance
            # built without that argument, and an attribute of the same name holds it
            shared_defaults = {}
            for st in t.body:
                if isinstance(st, ast.ClassDef):
                    for b in st.body:
                        if isinstance(b, ast.FunctionDef) and b.name == '__init__':
                            pos = b.args.args
                            for a, dflt in zip(pos[len(pos) - len(b.args.defaults):], b.args.defaults):
                                if _is_container(dflt):
                                    shared_defaults.setdefault(st.name, set()).add(a.arg)

            def scan(fn, where, cls):
                if cls and shared_defaults.get(cls):
                    for n in ast.walk(fn):
                        e = None
                        if isinstance(n, (ast.Assign, ast.AugAssign, ast.Delete)):
                            tg_ = n.targets if isinstance(n, (ast.Assign, ast.Delete)) else [n.target]
                            for x in tg_:
                                if isinstance(x, ast.Subscript):
                                    e = x.value
                        elif isinstance(n, ast.Call) and isinstance(n.func, ast.Attribute) and n.func.attr in MUTATORS:
                            e = n.func.value
                        if isinstance(e, ast.Attribute) and isinstance(e.value, ast.Name) and e.value.id == 'self' and e.attr in shared_defaults[cls]:
                            out.append((mod, where, f'writes self.{e.attr}, which holds the shared default of __init__ when none was given'))
                local = {a.arg for a in fn.args.args + fn.args.kwonlyargs} | ({fn.args.vararg.arg} if fn.args.vararg else set()) \
                    | ({fn.args.kwarg.arg} if fn.args.kwarg else set())
                for n in ast.walk(fn):
                    if isinstance(n, ast.Name) and isinstance(n.ctx, ast.Store):
                        local.add(n.id)
                globs = set()
                for n in ast.walk(fn):
                    if isinstance(n, (ast.Global, ast.Nonlocal)):
                        globs |= set(n.names)
                        out.append((mod, where, ('global ' if isinstance(n, ast.Global) else 'nonlocal ') + ', '.join(n.names)))
                local -= globs
                # mutable defaults that the body writes to
                defaults = {}
                pos = fn.args.args
                for a, dflt in zip(pos[len(pos) - len(fn.args.defaults):], fn.args.defaults):
                    if _is_container(dflt):
                        defaults[a.arg] = True
                for a, dflt in zip(fn.args.kwonlyargs, fn.args.kw_defaults):
                    if dflt is not None and _is_container(dflt):
                        defaults[a.arg] = True

                def base_of(e):
                    while isinstance(e, (ast.Subscript, ast.Attribute)):
                        prev = e
                        e = e.value
                    return e

                def shared(e):
                    """-> description if the expression `e` (a container being written) is state shared across calls"""
                    if isinstance(e, ast.Name):
                        if e.id in defaults:
                            return f'mutable default argument {e.id}'
                        if e.id in mod_containers and e.id not in local:
                            return f'module-level container {e.id}'
                        return None
                    if isinstance(e, ast.Attribute) and isinstance(e.value, ast.Name):
                        b = e.value.id
                        if b in imported and b not in local and not b in ('self', 'cls'):
                            return f'container {ast.unparse(e)} of module {imported[b]}'
                        if b in classes and e.attr in classes[b]:
                            return f'class-level container {b}.{e.attr}'
                        if b in ('self', 'cls') and cls and e.attr in classes.get(cls, ()):
                            return f'class-level container {cls}.{e.attr}'
                        if b == 'cls' or (b in classes):
                            return None
                    return None
                for n in ast.walk(fn):
                    tgts = []
                    if isinstance(n, ast.Assign):
                        tgts = n.targets
                    elif isinstance(n, (ast.AugAssign, ast.AnnAssign)):
                        tgts = [n.target]
                    elif isinstance(n, ast.Delete):
                        tgts = n.targets
                    for tg in tgts:
                        for e in (tg.elts if isinstance(tg, ast.Tuple) else [tg]):
                            if isinstance(e, ast.Subscript):
                                d = shared(e.value)
                                if d:
                                    out.append((mod, where, 'writes ' + d))
                            if isinstance(e, ast.Attribute) and isinstance(e.value, ast.Name):
                                b = e.value.id
                                if b in mod_funcs or (b in classes) or b == 'cls' or (b in imported and b not in local):
                                    out.append((mod, where, f'sets attribute {ast.unparse(e)} on a function / class / module'))
                    if isinstance(n, ast.Call) and isinstance(n.func, ast.Attribute) and n.func.attr in MUTATORS:
                        d = shared(n.func.value)
                        if d:
                            out.append((mod, where, f'{n.func.attr}() on ' + d))
                    if isinstance(n, ast.Call) and ast.unparse(n.func) in ('setattr',) and n.args and isinstance(n.args[0], ast.Name) \
                            and (n.args[0].id in mod_funcs or n.args[0].id in classes or n.args[0].id == 'cls'):
                        out.append((mod, where, f'setattr on {n.args[0].id}'))

            def visit(node, fname, cls):
                for ch in ast.iter_child_nodes(node):
                    if isinstance(ch, (ast.FunctionDef, ast.AsyncFunctionDef)):
                        w = (fname + '.' if fname else '') + ch.name
                        for dco in ch.decorator_list:
                            u = ast.unparse(dco.func if isinstance(dco, ast.Call) else dco)
                            if u in CACHE_DECOS or u.split('.')[-1] in ('lru_cache', 'cache', 'cached_property', 'memoize', 'memoized'):
                                out.append((mod, w, f'caching decorator {u}'))
                        scan(ch, w, cls)
                    elif isinstance(ch, ast.ClassDef):
                        visit(ch, (fname + '.' if fname else '') + ch.name, ch.name)
            visit(t, '', None)
            # module-level code that is not a definition, an import, a constant or a logger: objects created at import time
            for st in t.body:
                if isinstance(st, ast.Assign) and isinstance(st.value, ast.Call):
                    f = ast.unparse(st.value.func)
                    if not (f.endswith('get_logger') or f.endswith('getLogger') or f.startswith('logging.') or _is_container(st.value)
                            or f in ('float', 'int', 'str', 'tuple', 'frozenset', 'np.finfo', 'namedtuple', 'collections.namedtuple', 'TypeVar')):
                        out.append((mod, '<module>', f'object created at import time: {ast.unparse(st.targets[0])} = {f}(…)'))
    return sorted(set(out))




_old_gen_loops16 = gen_loops


def gen_loops():
    texts, data = _old_gen_loops16()
    hs = extract_hidden_state()
    # appended to the effects files: a definition and its own obligation (its own module, see translate.split_parts)
    texts['EffectsDefs'] = texts['EffectsDefs'].replace('end Opy.Gen', '\n'.join([
        '/-- state that outlives a call without being an argument or an attribute of the object the call is made on: module-level',
        '    containers written by functions, `global` rebinding, caching decorators, attributes set on functions / classes /',
        '    modules, class-level containers, written mutable defaults, objects created at import time: (module, where, what) -/',
        'def hiddenState : List (String × String × String) := [',
        ',\n'.join(f'  ({lean_str(a)}, {lean_str(b)}, {lean_str(c)})' for a, b, c in hs), ']', '', 'end Opy.Gen']), 1)
    texts['Effects'] = texts['Effects'].replace('end Opy.Gen', '\n'.join([
        '/-- no function of the library keeps state between calls outside its arguments and the objects it is called on: what a',
        '    call returns cannot depend on which calls, tasks or objects came before it in the process -/',
        'theorem hiddenState_none : hiddenState = [] := by decide +kernel',
        'end Opy.Gen']), 1)
    data['hidden_state'] = hs
    return texts, data


# ------------------------------------------------------------------ TreeSpace._create_trees / _create_terminals
def read_trees(fn):
    F = dict(guardIsGrowDefault=False, listKind='.other', elemIsGrowCall=False, countIsNTrees=False, bestIsDeepCopyOfFirst=False,
             returnsPair=False, extraStmts=0)
    if fn is None:
        F['extraStmts'] = 1
        return _show(F)
    stmts = [s for s in body_of(fn) if not (isinstance(s, ast.Expr) and isinstance(s.value, ast.Call) and ast.unparse(s.value.func).startswith('logger.'))]
    # the `algorithm` parameter and its default
    params = [a.arg for a in fn.args.args]
    dflt = None
    if len(params) == 2 and len(fn.args.defaults) == 1 and isinstance(fn.args.defaults[0], ast.Constant):
        dflt = (params[1], fn.args.defaults[0].value)
    trees = best = None

    def list_stmt(st):
        nonlocal trees
        tgt = st.targets[0].id if isinstance(st, ast.Assign) and len(st.targets) == 1 and isinstance(st.targets[0], ast.Name) else None
        v = getattr(st, 'value', None)
        if tgt and trees is None and isinstance(v, ast.ListComp) and len(v.generators) == 1 and not v.generators[0].ifs \
                and isinstance(v.generators[0].iter, ast.Call) and ast.unparse(v.generators[0].iter.func) == 'range' and len(v.generators[0].iter.args) == 1:
            trees = tgt
            F['listKind'] = '.comprehension'
            F['elemIsGrowCall'] = ' '.join(ast.unparse(v.elt).split()) == 'self.grow(self.min_depth, self.max_depth)'
            F['countIsNTrees'] = ast.unparse(v.generators[0].iter.args[0]) == 'self.n_trees'
            return True
        if tgt and trees is None and isinstance(v, ast.BinOp) and isinstance(v.op, ast.Mult) and isinstance(v.left, ast.List) and len(v.left.elts) == 1:
            trees = tgt
            F['listKind'] = '.repeated'
            F['elemIsGrowCall'] = ' '.join(ast.unparse(v.left.elts[0]).split()) == 'self.grow(self.min_depth, self.max_depth)'
            F['countIsNTrees'] = ast.unparse(v.right) == 'self.n_trees'
            return True
        return False
    for st in stmts:
        v = getattr(st, 'value', None)
        tgt = st.targets[0].id if isinstance(st, ast.Assign) and len(st.targets) == 1 and isinstance(st.targets[0], ast.Name) else None
        if isinstance(st, ast.If) and trees is None and not st.orelse and dflt is not None \
                and ' '.join(ast.unparse(st.test).split()) in (f"{dflt[0]} == {dflt[1]!r}", f"{dflt[1]!r} == {dflt[0]}") and len(st.body) == 1 and list_stmt(st.body[0]):
            F['guardIsGrowDefault'] = True
        elif trees is None and list_stmt(st):
            # built unconditionally: the same as under a guard that the default satisfies
            F['guardIsGrowDefault'] = True
        elif tgt and trees and best is None and ast.unparse(v) == f'copy.deepcopy({trees}[0])':
            best = tgt
            F['bestIsDeepCopyOfFirst'] = True
        elif isinstance(st, ast.Return) and trees and best and st.value is not None and ast.unparse(st.value) in (f'({trees}, {best})', f'{trees}, {best}'):
            F['returnsPair'] = True
        else:
            F['extraStmts'] += 1
    return _show(F)


def read_terminals(fn):
    F = dict(listKind='.other', elemIsAgentCtor=False, countIsNAgents=False, bestIsDeepCopyOfFirst=False, returnsPair=False, extraStmts=0)
    if fn is None:
        F['extraStmts'] = 1
        return _show(F)
    stmts = [s for s in body_of(fn) if not (isinstance(s, ast.Expr) and isinstance(s.value, ast.Call) and ast.unparse(s.value.func).startswith('logger.'))]
    ctor_forms = ('Agent(n_variables=self.n_variables, n_dimensions=self.n_dimensions)', 'Agent(self.n_variables, self.n_dimensions)',
                  'Agent(n_dimensions=self.n_dimensions, n_variables=self.n_variables)')
    lst = None
    returned = False
    for st in stmts:
        tgt = st.targets[0].id if isinstance(st, ast.Assign) and len(st.targets) == 1 and isinstance(st.targets[0], ast.Name) else None
        v = getattr(st, 'value', None)
        if isinstance(st, ast.Return) and lst is None and isinstance(v, (ast.ListComp, ast.BinOp)):
            # `return [ … ]` directly
            st = ast.Assign(targets=[ast.Name(id='__list__', ctx=ast.Store())], value=v)
            tgt = '__list__'
            returned = True
        if tgt and lst is None and isinstance(v, ast.ListComp) and len(v.generators) == 1 and not v.generators[0].ifs \
                and isinstance(v.generators[0].iter, ast.Call) and ast.unparse(v.generators[0].iter.func) == 'range' and len(v.generators[0].iter.args) == 1:
            lst = tgt
            F['listKind'] = '.comprehension'
            F['elemIsAgentCtor'] = ' '.join(ast.unparse(v.elt).split()) in ctor_forms
            F['countIsNAgents'] = ast.unparse(v.generators[0].iter.args[0]) == 'self.n_terminals'
        elif tgt and lst is None and isinstance(v, ast.BinOp) and isinstance(v.op, ast.Mult) and isinstance(v.left, ast.List) and len(v.left.elts) == 1:
            lst = tgt
            F['listKind'] = '.repeated'
            F['elemIsAgentCtor'] = ' '.join(ast.unparse(v.left.elts[0]).split()) in ctor_forms
            F['countIsNAgents'] = ast.unparse(v.right) == 'self.n_terminals'
        elif isinstance(st, ast.Return) and lst and not returned and v is not None and ast.unparse(v) == lst:
            returned = True
        else:
            F['extraStmts'] += 1
    if not returned:
        F['extraStmts'] += 1
    return _show(F)


_old_gen_loops17 = gen_loops


def gen_loops():
    texts, data = _old_gen_loops17()
    tp = f'{REPO}/opytimizer/spaces/tree.py'
    tr = read_trees(find_method(tp, 'TreeSpace', '_create_trees'))
    tm = read_terminals(find_method(tp, 'TreeSpace', '_create_terminals'))
    texts['TreesDefs'] = '\n'.join(['-- GENERATED by harness/translate_loops.py from TreeSpace._create_trees and TreeSpace._create_terminals. Do not edit.',
                                    'import OpyVerif.Model.TreesProg', 'namespace Opy.Gen', 'open Opy', '',
                                    f'def treesProg : TreesProg := {tr}', f'def terminalsProg : CreateProg := {tm}', '', 'end Opy.Gen', ''])
    texts['Trees'] = '\n'.join(['-- GENERATED by harness/translate_loops.py: obligations re-decided on every build. Do not edit.',
                                'import OpyVerif.Generated.TreesDefs', 'namespace Opy.Gen', 'open Opy',
                                '/-- `TreeSpace._create_trees` grows `n_trees` trees one after the other and copies the first as best tree -/',
                                'theorem treesProg_eq : treesProg = Expected.treesProg := by decide +kernel',
                                '/-- `TreeSpace._create_terminals` builds `n_terminals` separate agents -/',
                                'theorem terminalsProg_eq : terminalsProg = Expected.terminalsProg := by decide +kernel',
                                'end Opy.Gen', ''])
    data['trees'] = dict(trees=tr, terminals=tm)
    return texts, data


# ------------------------------------------------------------------ GP._update (order of the operator loops)
def read_update(fn):
    if fn is None:
        return '{ calls := ["?"] }'
    calls = []
    for st in body_of(fn):
        if isinstance(st, ast.Expr) and isinstance(st.value, ast.Call) and ast.unparse(st.value.func).startswith('logger.'):
            continue
        if isinstance(st, ast.Expr) and isinstance(st.value, ast.Call) and isinstance(st.value.func, ast.Attribute) \
                and isinstance(st.value.func.value, ast.Name) and st.value.func.value.id == 'self' \
                and [ast.unparse(a) for a in st.value.args] == ['space'] and not st.value.keywords:
            calls.append(st.value.func.attr)
        else:
            calls.append('?')
    return '{ calls := [' + ', '.join(lean_str(c) for c in calls) + '] }'


_old_gen_loops18 = gen_loops


def gen_loops():
    texts, data = _old_gen_loops18()
    up = read_update(find_method(f'{REPO}/opytimizer/optimizers/gp.py', 'GP', '_update'))
    texts['GPRunDefs'] = '\n'.join(['-- GENERATED by harness/translate_loops.py from GP._update. Do not edit.',
                                    'import OpyVerif.Model.GPRun', 'namespace Opy.Gen', 'open Opy', '',
                                    f'def updateProg : UpdateProg := {up}', '', 'end Opy.Gen', ''])
    texts['GPRun'] = '\n'.join(['-- GENERATED by harness/translate_loops.py: obligations re-decided on every build. Do not edit.',
                                'import OpyVerif.Generated.GPRunDefs', 'namespace Opy.Gen', 'open Opy',
                                '/-- `GP._update` calls the three operator loops in the order the task-level theorem assumes -/',
                                'theorem updateProg_eq : updateProg = Expected.updateProg := by decide +kernel',
                                'end Opy.Gen', ''])
    data['gp_update'] = up
    return texts, data
