"""Child process of the C05 differential: runs one configuration (after an optional unrelated
workload), prints a digest of everything observable except elapsed time, and the entropy
sources touched."""
import hashlib, json, os, sys
sys.path.insert(0, os.path.dirname(os.path.abspath(__file__)))


def digest_run(cfg, workload=()):
    import runlevel, lib
    L = lib.load()
    np = L['np']
    import random as _random, time as _time
    touched = {}

    def tap(mod, name):
        orig = getattr(mod, name)

        def w(*a, **k):
            touched[f'{mod.__name__}.{name}'] = touched.get(f'{mod.__name__}.{name}', 0) + 1
            return orig(*a, **k)
        setattr(mod, name, w)
        return orig
    for wcfg in workload:
        runlevel.record_run(wcfg)
    restore = []
    for mod, names in ((_random, ['random', 'uniform', 'randint', 'gauss', 'choice', 'seed', 'getrandbits']),
                       (os, ['urandom']), (np.random, ['default_rng', 'RandomState', 'rand', 'randn', 'randint', 'random',
                                                       'random_sample', 'standard_normal', 'permutation', 'shuffle'])):
        for n in names:
            if hasattr(mod, n):
                restore.append((mod, n, tap(mod, n)))
    try:
        rec = runlevel.record_run(cfg)
    finally:
        for mod, n, o in restore:
            setattr(mod, n, o)
    h = hashlib.sha256()

    def feed(x):
        if isinstance(x, (list, tuple)):
            h.update(b'[')
            for y in x:
                feed(y)
            h.update(b']')
        elif isinstance(x, float):
            h.update(x.hex().encode())
        elif hasattr(x, 'tolist'):
            feed(x.tolist())
        elif isinstance(x, (int, str, bool)) or x is None:
            h.update(repr(x).encode())
        else:
            import treeutil as T
            try:
                h.update(T.canon(x).encode())
                for n in T.walk(x)[0]:
                    if n.value is not None:
                        feed(n.value)
            except Exception:
                h.update(type(x).__name__.encode())
    out = dict(error=rec['error'] and rec['error']['type'])
    if rec['error'] is None:
        hist = rec['history']
        for k in sorted(vars(hist)):
            if k == 'time':
                continue
            h.update(k.encode())
            feed(getattr(hist, k))
        for a in rec['final']['pop']:
            feed(a['real']); feed(float(a['fit']))
        feed(rec['final']['best']['pos']); feed(float(rec['final']['best']['fit']))
        if rec.get('final_gp'):
            feed(rec['final_gp']['vals']); feed(rec['final_gp']['best_val'])
        hooks = [e for e in rec['events'] if e['t'] == 'hook']
        if hooks:
            for k in sorted(hooks[0]['hp']):
                h.update(k.encode()); feed(hooks[0]['hp'][k])
            out['hp_first_hook'] = hooks[0]['hp']
        out['n_evals'] = sum(1 for e in rec['events'] if e['t'] == 'eval')
        out['first_positions'] = [a['real'].tolist() for a in rec['init']['pop'][:1]] if rec.get('init') else None
    out['digest'] = h.hexdigest()
    # NumPy's global generator must have been consumed: its state differs from a freshly seeded one
    st = np.random.get_state()
    np.random.seed(cfg['seed'] % (2 ** 32))
    st0 = np.random.get_state()
    out['stream_consumed'] = not (st[2] == st0[2] and (st[1] == st0[1]).all())
    out['touched'] = touched
    return out


if __name__ == '__main__':
    req = json.loads(sys.stdin.read())
    import common
    try:
        print('RESULT ' + json.dumps(digest_run(req['cfg'], req.get('workload', []))))
    finally:
        common.rm_scratch()
