"""Run-level (refinement) correspondence: run the real optimisers under external taps, turn what
the taps saw into an event history for the abstract optimiser machine (Lean driver), and apply
the direct property oracles of C01 C02 C03 C04 C07 C12 C15 C20 to the same recording."""
import copy as _copy
import hashlib, json, math, os, pickle, random, sys, time, traceback, copy as _copy
from common import (fkey, fbits, enc_pos, enc_ints, enc_keys, Driver, WORK, REPO, HERE, SEED)
import lib

RUN_TIMEOUT_S = float(os.environ.get('VERIF_RUN_TIMEOUT', '20'))
SWARM = {'PSO', 'AIWPSO', 'RPSO'}
KINDS = ['ABC', 'AIWPSO', 'BA', 'BHA', 'CS', 'FA', 'FPA', 'GP', 'GSA', 'HC', 'HS', 'IHS', 'PSO', 'RPSO', 'SA',
         'SCA', 'WCA']
GREEDY_AGENTS = {'ABC', 'CS', 'FPA'}
GREEDY_RANK = {'HS', 'IHS'}
ADAPTIVE = {'AIWPSO': {'w'}, 'IHS': {'PAR', 'bw'}, 'SA': {'T'}, 'FA': {'alpha'}, 'WCA': {'d_max'}}


def fnum(v):
    """the numeric value of a fitness *now* (Python/NumPy scalar, 0-d or size-1 array, possibly a live view)"""
    try:
        return float(v)
    except TypeError:
        import numpy as _np
        return float(_np.asarray(v).reshape(-1)[0])


def xnum(v):
    """the exact value of a fitness: a Fraction for every finite number (Python int / float / Fraction / Decimal, NumPy integer or
    floating scalar of any width, size-1 array), the float itself for NaN and the infinities"""
    import fractions, decimal
    import numpy as _np
    if isinstance(v, _np.ndarray):
        v = v.reshape(-1)[0]
    if isinstance(v, (bool, _np.bool_)):
        return fractions.Fraction(int(v))
    if isinstance(v, (int, _np.integer)):
        return fractions.Fraction(int(v))
    if isinstance(v, fractions.Fraction):
        return v
    if isinstance(v, decimal.Decimal):
        return fractions.Fraction(v) if v.is_finite() else float(v)
    if isinstance(v, _np.floating):
        return fractions.Fraction(*v.as_integer_ratio()) if _np.isfinite(v) else float(v)
    f = float(v)
    return fractions.Fraction(f) if math.isfinite(f) else f


def xeq(a, b):
    """exactly the same number (NaN equals NaN); falls back to the float values for objects without an exact reading"""
    try:
        xa, xb = xnum(a), xnum(b)
    except Exception:
        xa, xb = fnum(a), fnum(b)
    return xa == xb or (xa != xa and xb != xb)


def budget(kind, n):
    """(min, max) objective calls between two consecutive hooks (update trials + the sweep)"""
    if kind in ('BA', 'BHA', 'FPA', 'SA'):
        return (n, 2 * n)
    if kind == 'CS':
        return (n, 3 * n)
    if kind == 'ABC':
        return (n, n + (2 * n - 1) + 1 + n)
    if kind in ('HS', 'IHS'):
        return (n, n + 1)
    return (n, n)


# ------------------------------------------------------------------------------ objectives
def make_objective(name, np, ub, rettype):
    ubc = np.asarray(ub, dtype=float)[:, None]

    def conv(v):
        v = float(v)
        if rettype == 'np':
            return np.float64(v)
        return v
    if name == 'sphere':
        return lambda x: conv(np.sum(x ** 2))
    if name == 'boundary':
        return lambda x: conv(np.sum((x - ubc) ** 2))
    if name == 'view0':
        # the first variable, returned as a *view* of the argument (a size-1 array sharing its memory): a legal
        # objective whose value must be taken when it is returned, not when it is looked at later
        return lambda x: x[0]
    if name == 'view00':
        # the same value as a 0-d array that is still a view of the argument (what np.squeeze gives on one variable)
        return lambda x: x[0][:1].reshape(())
    if name == 'outside':
        # the unconstrained optimum lies beyond the upper bounds: every out-of-box step towards it is an improvement
        tgt = ubc + 1.0 + 0.5 * np.abs(ubc)
        return lambda x: conv(np.sum((x - tgt) ** 2))
    if name == 'infpen':
        # a hard constraint: +inf on one side of a hyperplane through the box, the sphere elsewhere
        mid = 0.5 * float(ubc[0, 0]) if ubc.size else 0.0
        return lambda x: conv(np.inf) if float(np.asarray(x).reshape(-1)[0]) > mid else conv(np.sum(x ** 2))
    if name == 'bufout':
        # the value is written into one pre-allocated 0-d array that is returned every time (`np.sum(..., out=buf)`)
        buf = np.zeros(())

        def f_buf(x):
            np.sum(np.asarray(x, dtype=float) ** 2, out=buf)
            return buf
        return f_buf
    if name == 'hugepen':
        # a finite 'death penalty' far beyond the ordinary values (negative ones) on part of the box
        mid = 0.5 * float(ubc[0, 0]) if ubc.size else 0.0
        return lambda x: conv(1e20) if float(np.asarray(x).reshape(-1)[0]) > mid else conv(-1.0 - float(np.sum(np.abs(x))))
    if name == 'allinf':
        # infeasible everywhere (a constraint penalty that no point of the box escapes)
        return lambda x: conv(np.inf)
    if name == 'nanpart':
        # undefined (NaN) on one side of a hyperplane through the box — like a square root or logarithm of a coordinate that
        # may be negative —, the sphere elsewhere
        mid = 0.5 * float(ubc[0, 0]) if ubc.size else 0.0
        return lambda x: conv(np.nan) if float(np.asarray(x).reshape(-1)[0]) < mid else conv(np.sum(x ** 2))
    if name == 'tiny':
        # every value (and so every improvement) is far below 1e-10: a strict improvement is one however small
        return lambda x: conv(1e-13 * np.sum((x - 0.25 * ubc) ** 2))
    if name == 'tinier':
        # … and on a scale far below the spacing of floats around 1: 1 + f == 1 for every value, yet values still differ
        return lambda x: conv(1e-20 * np.sum((x - 0.25 * ubc) ** 2))
    if name == 'rastrigin':
        return lambda x: conv(10 * x.size + np.sum(x ** 2 - 10 * np.cos(2 * np.pi * x)))
    if name == 'uintcost':
        # a cost counted in whole units and returned as an unsigned NumPy integer (what `np.sum` gives over an unsigned array)
        return lambda x: np.sum(np.minimum(np.abs(np.nan_to_num(np.asarray(x, dtype=float))) * 16.0, 1e15).astype(np.uint64))
    if name == 'bigint':
        # whole-number costs on a large offset, as a 64-bit NumPy integer: neighbouring values differ by less than a double resolves
        return lambda x: np.int64(2 ** 60) + np.int64(np.sum(np.minimum(np.abs(np.nan_to_num(np.asarray(x, dtype=float))) * 64.0, 1e15).astype(np.int64)))
    if name == 'bigpyint':
        # the same as a Python integer (exact arithmetic)
        return lambda x: 2 ** 60 + int(np.sum(np.minimum(np.abs(np.nan_to_num(np.asarray(x, dtype=float))) * 64.0, 1e15).astype(np.int64)))
    if name == 'thirds':
        # exact rational costs (fractions.Fraction), not dyadic
        import fractions
        return lambda x: fractions.Fraction(int(np.sum(np.minimum(np.abs(np.nan_to_num(np.asarray(x, dtype=float))) * 64.0, 1e15).astype(np.int64))), 3)
    if name == 'nearorigin':
        # optimum a little inside the box next to a zero lower bound (4 % of the upper bound): overshooting particles are clipped
        # onto exact zeros, which is a good but not the best point
        return lambda x: conv(np.sum((x - 0.04 * ubc) ** 2))
    if name == 'longdbl':
        # evaluated in extended precision and returned as such (np.longdouble): most values are not doubles
        return lambda x: np.sum(np.asarray(x, dtype=np.longdouble) ** 2) + np.longdouble(1) / np.longdouble(3)
    if name == 'arr1':
        # the value as a one-element array the caller owns (what `np.sum(x ** 2, axis=0)` gives on one dimension): a mutable object
        return lambda x: np.sum(np.asarray(x, dtype=float) ** 2, axis=0).reshape(-1)[:1].copy()
    if name == 'plateau':
        return lambda x: conv(np.floor(np.sum(np.abs(x))))
    if name == 'constant':
        return lambda x: conv(3.0)
    if name == 'zero':
        return lambda x: conv(0.0)
    if name == 'intval':
        return lambda x: int(np.sum(np.floor(np.abs(x)))) + 1
    if name == 'negative':
        return lambda x: conv(-np.sum(x ** 2) - 1.0)
    if name == 'signchange':
        return lambda x: conv(np.sum(x) - 0.25)
    if name == 'positive':
        return lambda x: conv(np.sum(np.abs(x)) + 0.5)
    if name == 'fmax':
        return lambda x: sys.float_info.max
    if name == 'barrier':
        # +inf on part of the box (a barrier objective); only used by the reproducibility differential
        mid = float(np.mean(ubc))
        return lambda x: float('inf') if float(np.sum(x)) > mid * x.size * 0.6 else conv(np.sum(x ** 2))
    raise KeyError(name)


OBJECTIVES = ['sphere', 'boundary', 'rastrigin', 'plateau', 'constant', 'zero', 'intval', 'negative',
              'signchange', 'positive', 'weighted', 'outside']


# ------------------------------------------------------------------------------ configurations
BOXES = ['unit', 'wide', 'narrow', 'offset', 'degenerate', 'huge', 'mixed', 'intlist']


def make_box(rng, kind, nv):
    if kind == 'unit':
        return [0.0] * nv, [1.0] * nv
    if kind == 'wide':
        return [-10.0] * nv, [10.0] * nv
    if kind == 'narrow':
        lb = [round(rng.uniform(-3, 3), 3) for _ in range(nv)]
        return lb, [l + 1e-3 for l in lb]
    if kind == 'offset':
        lb = [round(rng.uniform(-5, 5), 2) for _ in range(nv)]
        return lb, [l + rng.choice([0.25, 1.0, 7.0]) for l in lb]
    if kind == 'degenerate':
        lb = [round(rng.uniform(-2, 2), 2) for _ in range(nv)]
        ub = [l + 1.0 for l in lb]
        j = rng.randrange(nv)
        ub[j] = lb[j]
        return lb, ub
    if kind == 'huge':
        m = rng.choice([1e6, 1e9, 1e12])
        return [-m] * nv, [m] * nv
    if kind == 'mixed':
        lb = [(-1e-6 if j % 2 == 0 else -1e4) for j in range(nv)]
        ub = [(1e-6 if j % 2 == 0 else 1e4) for j in range(nv)]
        return lb, ub
    if kind == 'intlb':
        # integer lower bounds (an int list), fractional upper bounds on either side of zero
        lb = [rng.choice([-4, -3, -2, 0, 1]) for _ in range(nv)]
        return lb, [l + rng.choice([0.5, 1.5, 2.5]) for l in lb]
    if kind == 'tinyscale':
        # per-variable boxes that differ, on a scale far below any fixed tolerance
        return [(1 + 4 * j) * 1e-9 for j in range(nv)], [(2 + 4 * j) * 1e-9 for j in range(nv)]
    if kind == 'farscale':
        # per-variable boxes that differ, far from the origin (differences tiny relative to the bounds)
        return [1e8 + 2 * j for j in range(nv)], [1e8 + 2 * j + 1 for j in range(nv)]
    if kind == 'nearequal':
        return [1e5 + 0.5 * j for j in range(nv)], [1e5 + 0.5 * j + 0.5 for j in range(nv)]
    if kind == 'tinybox':
        return [1e-9] * nv, [2e-9] * nv
    if kind == 'intlist':
        return [-(j + 1) for j in range(nv)], [j + 2 for j in range(nv)]
    raise KeyError(kind)


def hyper_sample(rng, kind, n_agents, mode):
    """mode: 'default' | 'random' | 'ends' — values inside the working range of DESIGN.md 4.6"""
    if mode == 'default':
        return {}
    u = rng.uniform
    e = mode == 'ends'
    if mode == 'underflow' and kind != 'SA':
        mode = 'random'
    if mode in ('degenerate', 'outside') and kind not in ('AIWPSO', 'IHS'):
        mode = 'random'

    def pick(lo, hi):
        return rng.choice([lo, hi]) if e else round(u(lo, hi), 3)
    if kind in ('PSO', 'RPSO'):
        return {'w': pick(0.0, 1.0), 'c1': pick(0.0, 2.5), 'c2': pick(0.0, 2.5)}
    if kind == 'AIWPSO':
        a, b = sorted([pick(0.0, 1.0), pick(0.0, 1.0)])
        if mode == 'degenerate':
            b = a
        w = a if e else round(u(a, b), 3)
        if mode == 'outside':   # the user's initial w need not lie inside [w_min, w_max]; the adapted one must
            w = rng.choice([round(b + u(0.1, 1.0), 3), max(0.0, round(a - u(0.1, 1.0), 3)), 0.0, 1.25])
        return {'w': w, 'c1': pick(0.0, 2.5), 'c2': pick(0.0, 2.5), 'w_min': a, 'w_max': b}
    if kind == 'ABC':
        return {'n_trials': rng.choice([1, 3, 10])}
    if kind == 'BA':
        a, b = sorted([pick(0.0, 2.0), pick(0.0, 2.0)])
        return {'f_min': a, 'f_max': b, 'A': pick(0.0, 1.0), 'r': pick(0.0, 1.0)}
    if kind == 'CS':
        return {'alpha': pick(0.01, 2.0), 'beta': pick(0.3, 2.0), 'p': pick(0.0, 1.0)}
    if kind == 'FA':
        return {'alpha': rng.choice([0.0, 1e-12, 1.0]) if e else pick(0.0, 1.0), 'beta': pick(0.0, 1.0), 'gamma': pick(0.0, 2.0)}
    if kind == 'FPA':
        return {'beta': pick(0.3, 2.0), 'eta': pick(0.0, 1.0), 'p': pick(0.0, 1.0)}
    if kind == 'GSA':
        return {'G': pick(0.0, 5.0)}
    if kind == 'HC':
        return {'r_mean': pick(0.0, 1.0), 'r_var': pick(0.0, 1.0)}
    if kind == 'HS':
        return {'HMCR': pick(0.0, 1.0), 'PAR': pick(0.0, 1.0), 'bw': pick(0.0, 10.0)}
    if kind == 'IHS':
        a, b = sorted([pick(0.0, 1.0), pick(0.0, 1.0)])
        c, d = sorted([pick(0.05, 5.0), pick(0.05, 5.0)])
        if mode == 'degenerate':
            if rng.random() < 0.7:
                d = c
            if rng.random() < 0.5:
                b = a
        return {'HMCR': pick(0.0, 1.0), 'PAR_min': a, 'PAR_max': b, 'bw_min': c, 'bw_max': d}
    if kind == 'SA':
        if mode == 'underflow':
            # the temperature reaches exactly 0 during the run (denormal start, halving) or starts there: it must stay there
            return {'T': rng.choice([5e-324, 1e-323, 0.0]), 'beta': rng.choice([0.5, 0.25, 0.9])}
        return {'T': rng.choice([1e-12, 1e-300, 100.0]) if e else rng.choice([round(u(0.01, 100.0), 3), 1e-12, 5e-11]), 'beta': pick(0.01, 1.0)}
    if kind == 'SCA':
        a, b = sorted([pick(0.0, 2.0), pick(0.0, 2.0)])
        return {'r_min': a, 'r_max': b, 'a': pick(0.0, 3.0)}
    if kind == 'WCA':
        return {'nsr': rng.randint(1, max(1, n_agents)), 'd_max': rng.choice([0.0, 1e-12, 1.0]) if e else pick(0.0, 1.0)}
    if kind == 'GP':
        def p():
            return rng.choice([0.0, 1.0]) if e else rng.choice([0.0, 0.1, 0.25, 0.5, 1.0])
        return {'p_reproduction': p(), 'p_mutation': p(), 'p_crossover': p(),
                'prunning_ratio': rng.choice([0.0, 1.0]) if e else rng.choice([0.0, 0.3, 1.0])}
    return {}


FUNCSETS = [['SUM', 'SUB', 'MUL', 'DIV'], ['SUM', 'MUL', 'SIN', 'COS'], ['SUB', 'ABS', 'SQRT'],
            ['SUM'], ['SIN', 'COS', 'ABS'], ['SUM', 'SUB', 'MUL', 'DIV', 'EXP', 'SQRT', 'LOG', 'ABS', 'SIN', 'COS'],
            ['MUL', 'LOG', 'EXP']]


def hyper_post_sample(rng, kind, n_agents, hyper):
    """one non-adaptive hyperparameter re-set through its setter after construction (a legal value
    that keeps every ordered pair ordered)"""
    if kind in ('IHS', 'AIWPSO') and rng.random() < 0.7:
        # the range of an adaptive hyperparameter narrowed through the setters after construction (order kept)
        d = type('D', (), {})()
        lo_hi = [('PAR_min', 'PAR_max', 0.0, 1.0), ('bw_min', 'bw_max', 1.0, 10.0)] if kind == 'IHS' else [('w_min', 'w_max', 0.1, 0.9)]
        out = {}
        for lo_k, hi_k, dlo, dhi in lo_hi:
            lo, hi = hyper.get(lo_k, dlo), hyper.get(hi_k, dhi)
            mid = round((lo + hi) / 2, 6)
            if rng.random() < 0.5:
                out[hi_k] = mid
            else:
                out[lo_k] = mid
        return out
    fresh = hyper_sample(rng, kind, n_agents, 'random')
    skip = ADAPTIVE.get(kind, set()) | {'w_min', 'w_max', 'PAR_min', 'PAR_max', 'bw_min', 'bw_max', 'f_min', 'f_max',
                                       'r_min', 'r_max', 'nsr'}
    ks = [k for k in fresh if k not in skip and fresh[k] != hyper.get(k)]
    if not ks:
        return {}
    k = rng.choice(ks)
    return {k: fresh[k]}


def gen_configs(tier, seed):
    rng = random.Random(seed * 7919 + (1 if tier == 'quick' else 2))
    reps = 9 if tier == 'quick' else 120
    cfgs = []
    for kind in KINDS:
        spaces = ['tree'] if kind == 'GP' else ['search', 'hyper']
        for r in range(reps):
            sp = spaces[r % len(spaces)]
            nmin = 2 if kind == 'WCA' else 1   # WCA needs n_agents >= nsr (default nsr = 2)
            n_agents = max(nmin, rng.choice([nmin, 2, 3, 5, 8]))
            if kind == 'GP':
                n_agents = rng.choice([2, 5, 10, 12, 20])
            nv = rng.choice([1, 2, 3])
            nd = rng.choice([1, 2, 3, 4]) if sp == 'hyper' else 1
            box = rng.choice(BOXES)
            if kind == 'RPSO' and box == 'huge':
                box = 'wide'   # velocity >= LIGHT_SPEED: known finding K5, replayed from its witness
            lb, ub = make_box(rng, box, nv)
            obj = rng.choice(OBJECTIVES)
            if kind == 'WCA' and obj not in ('positive', 'intval', 'constant', 'rastrigin', 'weighted', 'outside'):
                obj = rng.choice(['positive', 'intval', 'constant'])   # K2: non-positive sums excluded
            if kind == 'BHA' and obj == 'zero':
                obj = 'positive'                                     # K3
            hook = 'observer' if r % 4 else rng.choice(['corner', 'swap'])
            cfg = dict(kind=kind, space=sp, n_agents=n_agents, n_vars=nv, n_dims=nd,
                       n_iter=rng.choice([2, 4, 8]) if kind == 'GP' else rng.choice([1, 2, 3, 6]), box=box, lb=lb, ub=ub, objective=obj,
                       rettype=rng.choice(['py', 'np']),
                       hyper=hyper_sample(rng, kind, n_agents, rng.choice(['default', 'random', 'random', 'ends'])),
                       adv=rng.choice([0.0, 0.0, 0.15, 0.4]), hook=hook,
                       store_best_only=rng.random() < 0.25, seed=rng.randrange(1 << 30))
            if kind == 'GP':
                cfg.update(functions=rng.choice(FUNCSETS), min_depth=rng.choice([1, 1, 2]),
                           n_terminals=rng.choice([1, 2, 4]))
                cfg['max_depth'] = cfg['min_depth'] + rng.choice([0, 1, 2, 3])
                if any(f in cfg['functions'] for f in ('EXP', 'MUL', 'DIV', 'LOG')) and box in ('huge', 'mixed'):
                    cfg['box'] = 'wide'
                    cfg['lb'], cfg['ub'] = make_box(rng, 'wide', nv)
            cfgs.append(cfg)
    return cfgs


# ------------------------------------------------------------------------------ taps
class Recorder:
    def __init__(self):
        self.active = False
        self.reset()

    def reset(self):
        self.events = []
        self.space = None
        self.kind = None
        self.local = None
        self.adv_q = 0.0
        self.adv_rng = None
        self.draws = 0
        self.adv_hits = 0
        self.hook_kind = 'observer'
        self.in_hook = False


REC = Recorder()
_installed = {}


def _base_id(arr):
    b = arr
    while getattr(b, 'base', None) is not None:
        b = b.base
    return id(b)


def snapshot(L):
    """population as the machine sees it"""
    np = L['np']
    sp = REC.space
    pop = []
    gp = REC.kind == 'GP'
    for i, a in enumerate(sp.agents):
        pos = np.array(a.position, dtype=float, copy=True)
        if gp:
            tv = np.array(sp.trees[i].position, dtype=float, copy=True)
            for j, (lb, ub) in enumerate(zip(a.lb, a.ub)):
                tv[j] = np.clip(tv[j], lb, ub)
            apos = tv
        else:
            apos = pos
        if REC.kind in SWARM and REC.local is not None:
            tpos = np.array(REC.local[i], dtype=float, copy=True)
        else:
            tpos = apos
        pop.append(dict(pos=apos, real=pos, tpos=tpos, fit=fnum(a.fit), ref=_base_id(a.position),
                        lb=np.array(a.lb, copy=True), ub=np.array(a.ub, copy=True)))
    b = sp.best_agent
    best = dict(pos=np.array(b.position, dtype=float, copy=True), fit=fnum(b.fit), ref=_base_id(b.position))
    return dict(pop=pop, best=best)


def install(L):
    if _installed:
        return
    np = L['np']
    Agent, SearchSpace, HyperSpace, History = L['Agent'], L['SearchSpace'], L['HyperSpace'], L['History']
    o_cl = Agent.check_limits

    def tap_agent_cl(self):
        if not REC.active:
            return o_cl(self)
        before = np.array(self.position, copy=True)
        snap = snapshot(L)
        o_cl(self)
        REC.events.append(dict(t='clipAgent', snap=snap, before=before, after=np.array(self.position, copy=True),
                               lb=np.array(self.lb, copy=True), ub=np.array(self.ub, copy=True),
                               ref=_base_id(self.position)))
    Agent.check_limits = tap_agent_cl
    for cls_ in (SearchSpace, HyperSpace):
        o = cls_.check_limits

        def mk(o):
            def tap(self):
                if not REC.active:
                    return o(self)
                snap = snapshot(L)
                o(self)
                REC.events.append(dict(t='clipAll', snap=snap, after=snapshot(L)))
            return tap
        cls_.check_limits = mk(o)
    o_dump = History.dump

    def tap_dump(self, **kw):
        if not REC.active or 'time' in kw:
            return o_dump(self, **kw)
        snap = snapshot(L)
        live = {}
        for k, v in kw.items():
            if k == 'agents':
                live[k] = [(np.array(a.position, copy=True).tolist(), _copy.deepcopy(a.fit)) for a in v]
            elif k == 'best_agent':
                live[k] = (np.array(v.position, copy=True).tolist(), _copy.deepcopy(v.fit))
            elif k == 'local':
                live[k] = [np.array(p, copy=True).tolist() for p in v]
            elif k == 'best_tree':
                import treeutil as _T
                live[k] = ('tree', _T.canon(v), [np.array(n.value, copy=True).tolist() for n in _T.walk(v)[0] if n.value is not None])
            else:
                live[k] = ('other',)
        o_dump(self, **kw)
        REC.events.append(dict(t='dump', snap=snap, keys=list(kw), live=live, hist=self, gp=gp_info(L),
                               histcopy={k: _copy.deepcopy(getattr(self, k)) for k in vars(self)
                                         if isinstance(getattr(self, k), list) and k != 'best_tree'},
                               lens={k: len(getattr(self, k)) for k in vars(self) if isinstance(getattr(self, k), list)}))
    History.dump = tap_dump
    TS = L['TreeSpace']
    o_grow = TS.grow
    REC.grow_depth = 0
    REC.grown = []

    def tap_grow(self, min_depth=1, max_depth=3, *a, **k):
        REC.grow_depth += 1
        try:
            t = o_grow(self, min_depth, max_depth, *a, **k)
        finally:
            REC.grow_depth -= 1
        if REC.grow_depth == 0 and REC.active:
            try:
                REC.grown.append((int(min_depth), int(max_depth), int(t.max_depth), int(t.n_nodes)))
            except Exception:
                pass
        return t
    if not getattr(TS.grow, '_verif_tap', False):
        tap_grow._verif_tap = True
        TS.grow = tap_grow
    PSO = L['kinds']['PSO']
    o_pso_eval = PSO._evaluate

    def tap_pso_eval(self, space, function, local_position):
        if REC.active:
            REC.local = local_position
        return o_pso_eval(self, space, function, local_position)
    PSO._evaluate = tap_pso_eval
    o_uni, o_nor = np.random.uniform, np.random.normal

    def adv_uniform(low=0.0, high=1.0, size=None):
        r = o_uni(low, high, size)
        if REC.active and REC.adv_q > 0 and not REC.in_hook:
            REC.draws += 1
            arr = np.asarray(r, dtype=float)
            lo = np.broadcast_to(np.asarray(low, dtype=float), arr.shape)
            hi = np.broadcast_to(np.asarray(high, dtype=float), arr.shape)
            out = np.array(arr, copy=True)
            flat = out.reshape(-1)
            lof, hif = lo.reshape(-1), hi.reshape(-1)
            for i in range(flat.size):
                if REC.adv_rng.random() < REC.adv_q:
                    REC.adv_hits += 1
                    flat[i] = lof[i] if REC.adv_rng.random() < 0.5 else np.nextafter(hif[i], lof[i])
            return out if isinstance(r, np.ndarray) else type(r)(out)
        return r

    def adv_normal(loc=0.0, scale=1.0, size=None):
        r = o_nor(loc, scale, size)
        if REC.active and REC.adv_q > 0 and not REC.in_hook:
            REC.draws += 1
            arr = np.asarray(r, dtype=float)
            out = np.array(arr, copy=True)
            flat = out.reshape(-1)
            mu = np.broadcast_to(np.asarray(loc, dtype=float), arr.shape).reshape(-1)
            sd = np.broadcast_to(np.asarray(scale, dtype=float), arr.shape).reshape(-1)
            for i in range(flat.size):
                if REC.adv_rng.random() < REC.adv_q:
                    REC.adv_hits += 1
                    k = REC.adv_rng.choice([6.0, 12.0, 40.0]) * REC.adv_rng.choice([-1.0, 1.0])
                    flat[i] = mu[i] + k * sd[i]
            return out if isinstance(r, np.ndarray) else type(r)(out)
        return r
    np.random.uniform = adv_uniform
    np.random.normal = adv_normal
    _installed['ok'] = True


def live_checks(L, s, cfg):
    """storage sharing and shapes on the live objects"""
    np = L['np']
    arrs = [a.position for a in s.agents] + [s.best_agent.position]
    alias = []
    for i in range(len(arrs)):
        for j in range(i + 1, len(arrs)):
            if isinstance(arrs[i], np.ndarray) and isinstance(arrs[j], np.ndarray) and np.shares_memory(arrs[i], arrs[j]):
                alias.append((i, j))
    # a fitness that is an array may share storage with its own agent's position (the objective returned a view) but
    # with nothing of any other agent, nor may the best agent's fitness share storage with any population member
    owners = list(s.agents) + [s.best_agent]
    fit_alias = []
    for i, a in enumerate(owners):
        if not isinstance(a.fit, np.ndarray):
            continue
        for j, b in enumerate(owners):
            if i == j:
                continue
            if (isinstance(b.position, np.ndarray) and np.shares_memory(a.fit, b.position)) or \
                    (isinstance(b.fit, np.ndarray) and j > i and np.shares_memory(a.fit, b.fit)):
                fit_alias.append((i, j))
    shapes = [tuple(getattr(a.position, 'shape', ())) for a in s.agents]
    return dict(n=len(s.agents), alias=alias, fit_alias=fit_alias, shapes=shapes,
                best_shape=tuple(getattr(s.best_agent.position, 'shape', ())))


def tree_nodes(root):
    out, stack, seen = [], [root], set()
    while stack:
        n = stack.pop()
        if n is None or id(n) in seen:
            continue
        seen.add(id(n))
        out.append(n)
        stack.append(getattr(n, 'right', None))
        stack.append(getattr(n, 'left', None))
    return out


def gp_info(L):
    if REC.kind != 'GP':
        return None
    np = L['np']
    sp = REC.space
    vals = [np.array(t.position, dtype=float, copy=True) for t in sp.trees]
    bt = sp.best_tree
    pop_nodes = set()
    pop_arrays = set()
    for t in sp.trees:
        for n in tree_nodes(t):
            pop_nodes.add(id(n))
            if n.value is not None:
                pop_arrays.add(_base_id(n.value))
    term_arrays = set(_base_id(t.position) for t in sp.terminals)
    bnodes = tree_nodes(bt)
    shared_nodes = sum(1 for n in bnodes if id(n) in pop_nodes)
    shared_arr = sum(1 for n in bnodes if n.value is not None and (_base_id(n.value) in pop_arrays or _base_id(n.value) in term_arrays))
    import treeutil as _T
    defects = []
    seen_nodes = {}
    overlap = 0
    for k, t in enumerate(list(sp.trees) + [bt]):
        for dmsg in _T.wf_oracle(t, sp.n_variables, sp.n_dimensions):
            defects.append((k, dmsg))
        for n in tree_nodes(t):
            if id(n) in seen_nodes and seen_nodes[id(n)] != k:
                overlap += 1
            seen_nodes[id(n)] = k
    return dict(vals=vals, best_val=np.array(bt.position, dtype=float, copy=True), n_trees=len(sp.trees),
                defects=defects[:10], overlap=overlap, depths=[t.max_depth for t in sp.trees],
                n_agents=len(sp.agents), shared_nodes=shared_nodes, shared_arrays=shared_arr,
                best_tree_id=id(bt), lb=np.array(sp.lb, dtype=float), ub=np.array(sp.ub, dtype=float))


# ------------------------------------------------------------------------------ one run
def build_task(L, cfg, events):
    np = L['np']
    np.random.seed(cfg['seed'] % (2 ** 32))
    kind = cfg['kind']
    if cfg['space'] == 'search' and cfg.get('bounds_dtype'):
        # the bounds handed over as NumPy arrays of a narrow type (whole numbers)
        sp = L['SearchSpace'](n_agents=cfg['n_agents'], n_variables=cfg['n_vars'], n_iterations=cfg['n_iter'],
                              lower_bound=np.array(cfg['lb'], dtype=cfg['bounds_dtype']), upper_bound=np.array(cfg['ub'], dtype=cfg['bounds_dtype']))
    elif cfg['space'] == 'search':
        ub0 = [l_ + 3.0 * (u_ - l_) for l_, u_ in zip(cfg['lb'], cfg['ub'])] if cfg.get('shrink_ub') else list(cfg['ub'])
        sp = L['SearchSpace'](n_agents=cfg['n_agents'], n_variables=cfg['n_vars'], n_iterations=cfg['n_iter'],
                              lower_bound=list(cfg['lb']), upper_bound=ub0)
    elif cfg['space'] == 'hyper':
        sp = L['HyperSpace'](n_agents=cfg['n_agents'], n_variables=cfg['n_vars'], n_dimensions=cfg['n_dims'],
                             n_iterations=cfg['n_iter'], lower_bound=list(cfg['lb']), upper_bound=list(cfg['ub']))
    else:
        sp = L['TreeSpace'](n_trees=cfg['n_agents'], n_terminals=cfg['n_terminals'], n_variables=cfg['n_vars'],
                            n_iterations=cfg['n_iter'], min_depth=cfg['min_depth'], max_depth=cfg['max_depth'],
                            functions=list(cfg['functions']), lower_bound=list(cfg['lb']),
                            upper_bound=list(cfg['ub']))
    if cfg.get('fresh_agents') and cfg['space'] == 'search':
        # the population replaced, through the public setter, by freshly constructed agents (which carry the default unit bounds)
        # placed where the space's own agents were
        fresh = [L['Agent'](n_variables=cfg['n_vars'], n_dimensions=1) for _ in sp.agents]
        for f_, a_ in zip(fresh, sp.agents):
            f_.position = np.array(a_.position, copy=True)
        sp.agents = fresh
    if cfg.get('shrink_ub') and cfg['space'] == 'search':
        # the space was built on a larger box; every agent has been through its own check_limits once (a warm start); then only
        # the upper bounds are re-declared, on the space and on every agent, through the public setters, and the user brings the
        # population back into the new box with the space-wide clip
        for a in sp.agents:
            a.check_limits()
        new_ub = np.asarray(list(cfg['ub']), dtype=float)
        sp.ub = new_ub
        for a in sp.agents:
            a.ub = np.array(new_ub, copy=True)
        sp.check_limits()
    if cfg.get('reassign_bounds') == 'column':
        # … as column arrays of shape (n_variables, 1), the shape positions have (`space.lb = space.best_agent.position - 0.5`)
        sp.lb = np.asarray(list(cfg['lb']), dtype=float).reshape(-1, 1)
        sp.ub = np.asarray(list(cfg['ub']), dtype=float).reshape(-1, 1)
    elif cfg.get('reassign_bounds'):
        # the bounds re-declared (with the same values) through the space's public setters after construction
        sp.lb = np.asarray(list(cfg['lb']))
        sp.ub = np.asarray(list(cfg['ub']))
    if cfg.get('reset_best'):
        # the incumbent reset by the user to a default agent (one variable, one dimension, fitness FLOAT_MAX) before the task
        sp.best_agent = L['Agent']()
    if cfg.get('int_start') and cfg['space'] != 'tree':
        # a deterministic lattice start: every agent's position assigned (through the public setter) as an integer-typed
        # array of whole numbers inside the box
        k_ = 0
        for a in sp.agents:
            p_ = np.zeros(a.position.shape, dtype=np.int64)
            for j in range(p_.shape[0]):
                lo_, hi_ = (0.0, 1.0) if cfg['space'] == 'hyper' else (float(cfg['lb'][j]), float(cfg['ub'][j]))
                lo_i, hi_i = int(np.ceil(lo_)), int(np.floor(hi_))
                for d_ in range(p_.shape[1]):
                    p_[j, d_] = lo_i + (k_ * 7 + 3 * j + d_) % max(1, hi_i - lo_i + 1)
                    k_ += 1
            a.position = p_
    # no dictionary at all when the configuration has none: that is how users build a default optimiser
    opt = L['kinds'][kind](hyperparams=dict(cfg['hyper'])) if cfg['hyper'] else L['kinds'][kind]()
    # values set later through the public setters (after construction, before the task starts)
    for k, v in (cfg.get('hyper_post') or {}).items():
        setattr(opt, k, v)
    box_ub = [1.0] * cfg['n_vars'] if cfg['space'] == 'hyper' else cfg['ub']
    if cfg['objective'] in ('weighted', 'weightedplain'):
        f1 = make_objective('sphere', np, box_ub, cfg['rettype'])
        f2 = make_objective('positive', np, box_ub, cfg['rettype'])
        raw = [f1, f2]
        if cfg['objective'] == 'weightedplain':
            # the same values through a plain Function (the control for what is specific to WeightedFunction)
            raw = [lambda x, _f1=f1, _f2=f2: 0.75 * _f1(x) + 0.5 * _f2(x)]
    else:
        raw = [make_objective(cfg['objective'], np, box_ub, cfg['rettype'])]
    comp_calls = []

    def wrap(of, tag):
        def f(x):
            if tag is not None:
                comp_calls.append(tag)
                return of(x)
            snap = snapshot(L) if REC.active else None
            arg = np.array(x, copy=True)
            fr = sys._getframe(1)
            v = of(x)
            events.append(dict(t='eval', snap=snap, arg=arg, val=fnum(v), raw=_copy.deepcopy(v), ref=_base_id(x) if isinstance(x, np.ndarray) else None,
                               site=fr.f_code.co_name, isarr=isinstance(x, np.ndarray)))
            return v
        return f
    if cfg['objective'] == 'weighted':
        wf = L['WeightedFunction'](functions=[wrap(raw[0], 'c0'), wrap(raw[1], 'c1')], weights=[0.75, 0.5])
        inner = wf.pointer

        def outer(x):
            snap = snapshot(L) if REC.active else None
            arg = np.array(x, copy=True)
            fr = sys._getframe(1)
            v = inner(x)
            events.append(dict(t='eval', snap=snap, arg=arg, val=v, ref=_base_id(x) if isinstance(x, np.ndarray) else None,
                               site=fr.f_code.co_name, isarr=isinstance(x, np.ndarray)))
            return v
        wf.pointer = outer
        fn = wf
        of = lambda x: 0.75 * raw[0](x) + 0.5 * raw[1](x)
    else:
        fn = L['Function'](pointer=wrap(raw[0], None))
        of = raw[0]
    return sp, opt, fn, of


def make_task(L, cfg, sp, opt, fn):
    """the Opytimizer object a configuration asks for"""
    if cfg.get('reassign_parts'):
        # the task object is first built around other components (an equal space with another length, an equal optimizer, a
        # constant objective); its three parts are then replaced through the public setters before start(): the task that runs
        # is the one made of the current parts
        order = cfg['reassign_parts'] if isinstance(cfg['reassign_parts'], (list, tuple)) else ['space', 'optimizer', 'function']
        real = dict(space=sp, optimizer=opt, function=fn)
        first = dict(real)
        if 'space' in order:
            first['space'] = _copy.deepcopy(sp)
            first['space'].n_iterations = cfg['n_iter'] + 2
        if 'optimizer' in order:
            first['optimizer'] = _copy.deepcopy(opt)
        if 'function' in order:
            first['function'] = L['Function'](pointer=lambda x: 0.0)
        task = L['Opytimizer'](**first)
        for name in order:
            setattr(task, name, real[name])
        return task
    return L['Opytimizer'](space=sp, optimizer=opt, function=fn)


def _shifted(of):
    def other(x):
        return -1000.0 - abs(float(fnum(of(x))))
    return other


def hp_snapshot(opt):
    out = {}
    for k, v in vars(opt).items():
        if k in ('_algorithm', '_hyperparams', '_built'):
            continue
        try:
            out[k.lstrip('_')] = float(v)
        except Exception:
            out[k.lstrip('_')] = repr(v)
    return out


def record_run(cfg):
    L = lib.load()
    install(L)
    np = L['np']
    REC.reset()
    REC.grown = []
    events = REC.events
    rec = dict(cfg=cfg, events=events, error=None, history=None)
    try:
        if cfg.get('adv_init'):
            # the draws of the *construction* are adversarial too (exactly the low end, the last double below the high end): the
            # initial population is what the first sweep evaluates, unclipped
            REC.adv_q, REC.adv_rng, REC.in_hook, REC.active = float(cfg['adv_init']), random.Random(cfg['seed'] ^ 0x1A17), False, True
        try:
            sp, opt, fn, of = build_task(L, cfg, events)
        finally:
            REC.active = False
    except Exception as ex:
        rec['error'] = dict(phase='build', type=type(ex).__name__, msg=str(ex)[:300], tb=traceback.format_exc()[-1500:])
        return rec
    REC.space, REC.kind = sp, cfg['kind']
    REC.adv_q = cfg['adv']
    REC.adv_rng = random.Random(cfg['seed'] ^ 0x5EED)
    REC.hook_kind = cfg['hook']
    rec['of'] = of
    rec['init'] = None
    hook_rng = random.Random(cfg['seed'] ^ 0xABCD)

    def hook(o, s, f):
        REC.in_hook = True
        try:
            fr = sys._getframe(1)
            for _ in range(4):
                # (the hook may have been handed over inside a wrapper: the frame that called it is the first `run` above)
                if fr.f_code.co_name == 'run' or fr.f_back is None:
                    break
                fr = fr.f_back
            lp = fr.f_locals.get('local_position')
            if lp is not None:
                REC.local = lp
            before = snapshot(L)
            if cfg['hook'] == 'corner' and len(s.agents) > 0:
                i = hook_rng.randrange(len(s.agents))
                a = s.agents[i]
                for j in range(a.position.shape[0]):
                    lo, hi = (0.0, 1.0) if cfg['space'] == 'hyper' else (a.lb[j], a.ub[j])
                    a.position[j] = lo if hook_rng.random() < 0.5 else hi
            elif cfg['hook'] == 'outside' and len(s.agents) > 0:
                # relocates one agent to a point beyond its box: the sweep that follows must evaluate exactly that point
                i = hook_rng.randrange(len(s.agents))
                a = s.agents[i]
                for j in range(a.position.shape[0]):
                    lo, hi = (0.0, 1.0) if cfg['space'] == 'hyper' else (float(a.lb[j]), float(a.ub[j]))
                    w = (hi - lo) or 1.0
                    a.position[j] = hi + 1.5 * w if hook_rng.random() < 0.5 else lo - 1.5 * w
            elif cfg['hook'] == 'relist' and len(s.agents) > 0:
                # a *new* list object through the public setter (here: the population kept ranked by fitness, stable), as a
                # restart / ranking hook would do; trees follow their agents
                order = sorted(range(len(s.agents)), key=lambda q: (fnum(s.agents[q].fit) != fnum(s.agents[q].fit), fnum(s.agents[q].fit)))
                if hook_rng.random() < 0.3:
                    order = list(reversed(order))
                s.agents = [s.agents[q] for q in order]
                if REC.kind == 'GP':
                    s.trees = [s.trees[q] for q in order]
                if REC.local is not None and REC.kind in SWARM:
                    REC.local[:] = REC.local[order]
            elif cfg['hook'] == 'narrow' and sum(1 for e_ in events if e_['t'] == 'hook') == 2:
                # the ranges of the self-adapting hyperparameters narrowed through the public setters while the task runs
                # (third hook call): from the next iteration on the schedules follow the ranges as they are now
                changed = []
                if hasattr(o, 'PAR_max') and hasattr(o, 'bw_max'):
                    o.PAR_max = max(float(o.PAR_min), 0.3)
                    o.bw_max = max(float(o.bw_min), 0.4 * float(o.bw_max))
                    changed = ['PAR_max', 'bw_max']
                elif hasattr(o, 'w_max') and hasattr(o, 'w_min'):
                    o.w_max = 0.5 * (float(o.w_min) + float(o.w_max))
                    changed = ['w_max']
                rec['narrowed'] = dict(at=2, names=changed)
            elif cfg['hook'] == 'reiter' and sum(1 for e_ in events if e_['t'] == 'hook') == cfg.get('reiter_at', 2):
                # the iteration budget declared on the space changed through its public (validated) setter while the task runs
                # (by default at the third hook call, i.e. after at least one adaptation step): the schedules that read
                # `space.n_iterations` follow the value it has now; the optimizer's own hyperparameters are not touched
                s.n_iterations = int(cfg.get('reiter_n', 10 * cfg['n_iter']))
                rec['reiter'] = dict(at=cfg.get('reiter_at', 2), n=int(s.n_iterations))
            elif cfg['hook'] == 'nudgebest' and sum(1 for e_ in events if e_['t'] == 'hook') >= 1:
                # the incumbent's position snapped / shifted in place (inside the box) while its fitness stays what it was, as a
                # hook that rounds the best solution to a grid would do: the records describe the best agent as it then is
                b_ = s.best_agent
                for j in range(b_.position.shape[0]):
                    lo, hi = (0.0, 1.0) if cfg['space'] == 'hyper' else (float(b_.lb[j]), float(b_.ub[j]))
                    k_ = sum(1 for e_ in events if e_['t'] == 'hook')
                    b_.position[j] = lo + ((0.13 * k_ + 0.07 * j) % 1.0) * (hi - lo)
            elif cfg['hook'] == 'rebest':
                # the best agent replaced, through the public setter, by an equal new object (as a hook injecting / restoring a
                # known solution would do): from now on that object is the space's best agent
                s.best_agent = _copy.deepcopy(s.best_agent)
            elif cfg['hook'] == 'append' and len(s.agents) == cfg['n_agents'] and len(events) > 0 and sum(1 for e_ in events if e_['t'] == 'hook') == 1:
                # the population grows by one individual (a perturbed copy of the first, inside the box) at the second hook call:
                # the sweeps that follow evaluate the population as it is now
                new = _copy.deepcopy(s.agents[0])
                for j in range(new.position.shape[0]):
                    lo, hi = (0.0, 1.0) if cfg['space'] == 'hyper' else (float(new.lb[j]), float(new.ub[j]))
                    new.position[j] = lo + 0.37 * (hi - lo)
                s.agents.append(new)
            elif cfg['hook'] == 'swap' and len(s.agents) > 1:
                i, j = hook_rng.sample(range(len(s.agents)), 2)
                s.agents[i], s.agents[j] = s.agents[j], s.agents[i]
                if REC.local is not None and REC.kind in SWARM:
                    REC.local[[i, j]] = REC.local[[j, i]]
            events.append(dict(t='hook', snap=before, after=snapshot(L), args_ok=(o is opt and s is sp and f is fn),
                               hp=hp_snapshot(o), caller=fr.f_code.co_name, live=live_checks(L, s, cfg)))
        finally:
            REC.in_hook = False
    if cfg.get('prior'):
        # the same optimizer object has already run another task (other box / shape / length) before this one
        pr = dict(cfg, **cfg['prior'])
        try:
            if cfg['prior'].get('same_space'):
                # the recorded task is the *second* one on this very space (same objective, untapped), started
                # through Opytimizer.start like the recorded one
                pof = of
                if cfg['prior'].get('other_objective'):
                    # … or another objective (much smaller values everywhere): nothing computed for it may survive
                    pof = _shifted(of)
                if cfg['prior'].get('same_task'):
                    # one Opytimizer object: a first task with another Function, then the objective is replaced through the public
                    # setter and the recorded task is started on the same object
                    rec['_task0'] = L['Opytimizer'](space=sp, optimizer=opt, function=L['Function'](pointer=pof))
                    rec['_task0'].start()
                elif cfg['prior'].get('abort_at'):
                    # the earlier task was interrupted by its hook (early stopping / budget exhausted) in the middle of an
                    # iteration; the recorded task resumes on the space as it was left
                    class _Stop(Exception):
                        pass
                    cnt = [0]

                    def stopper(o, s, f):
                        cnt[0] += 1
                        if cnt[0] > cfg['prior']['abort_at']:
                            raise _Stop()
                    try:
                        L['Opytimizer'](space=sp, optimizer=opt, function=L['Function'](pointer=pof)).start(pre_evaluation_hook=stopper)
                    except _Stop:
                        pass
                else:
                    L['Opytimizer'](space=sp, optimizer=opt, function=L['Function'](pointer=pof)).start()
                psp = None
            elif pr['space'] == 'tree':
                psp = L['TreeSpace'](n_trees=pr['n_agents'], n_terminals=pr['n_terminals'], n_variables=pr['n_vars'],
                                     n_iterations=pr['n_iter'], min_depth=pr['min_depth'], max_depth=pr['max_depth'],
                                     functions=list(pr['functions']), lower_bound=list(pr['lb']), upper_bound=list(pr['ub']))
            elif pr['space'] == 'search':
                psp = L['SearchSpace'](n_agents=pr['n_agents'], n_variables=pr['n_vars'], n_iterations=pr['n_iter'],
                                       lower_bound=list(pr['lb']), upper_bound=list(pr['ub']))
            else:
                psp = L['HyperSpace'](n_agents=pr['n_agents'], n_variables=pr['n_vars'], n_dimensions=pr['n_dims'],
                                      n_iterations=pr['n_iter'], lower_bound=list(pr['lb']), upper_bound=list(pr['ub']))
            if psp is not None:
                pfn = L['Function'](pointer=make_objective('sphere', np, pr['ub'] if pr['space'] != 'hyper' else [1.0] * pr['n_vars'], 'py'))
                opt.run(psp, pfn)
        except Exception as ex:
            rec['error'] = dict(phase='prior', type=type(ex).__name__, msg=str(ex)[:300], frames=[])
            return rec
    if rec.get('_task0') is not None:
        task = rec.pop('_task0')
        task.function = fn
    else:
        task = make_task(L, cfg, sp, opt, fn)
    rec['hp0'] = hp_snapshot(opt)
    REC.active = True
    import signal

    def on_alarm(signum, frame):
        raise TimeoutError(f'run exceeded {RUN_TIMEOUT_S} s')
    old_handler = signal.signal(signal.SIGALRM, on_alarm)
    signal.setitimer(signal.ITIMER_REAL, RUN_TIMEOUT_S)
    try:
        rec['init'] = snapshot(L)
        t0 = time.time()
        sbo = cfg['store_best_only']
        if cfg.get('sbo_type') == 'np':
            sbo = np.bool_(sbo)            # a flag computed with NumPy (`np.prod(sizes) > 500`)
        elif cfg.get('sbo_type') == 'int':
            sbo = int(sbo)
        the_hook = hook
        if cfg.get('hook_sig') == 'varargs':
            the_hook = (lambda *a: hook(*a))          # a hook written with *args
        elif cfg.get('hook_sig') == 'callable':
            class _H:
                def __call__(self, *args, **kwargs):
                    return hook(*args, **kwargs)
            the_hook = _H()
        elif cfg.get('hook_sig') == 'method':
            class _M:
                def on_iteration(self, *args):
                    return hook(*args)
            the_hook = _M().on_iteration
        h = task.start(store_best_only=sbo, pre_evaluation_hook=the_hook)
        rec['history'] = h
        rec['final'] = snapshot(L)
        rec['final_live'] = live_checks(L, sp, cfg)
        rec['final_gp'] = gp_info(L)
        rec['hp1'] = hp_snapshot(opt)
        rec['space'] = sp
        rec['opt'] = opt
        rec['fn'] = fn
    except BaseException as ex:
        if isinstance(ex, (KeyboardInterrupt, SystemExit)):
            raise
        tb = traceback.extract_tb(ex.__traceback__)
        frames = [(os.path.basename(fr.filename), fr.name, fr.lineno) for fr in tb]
        rec['error'] = dict(phase='run', type=type(ex).__name__, msg=str(ex)[:300], frames=frames[-4:])
        try:
            rec['final'] = snapshot(L)
        except Exception:
            rec['final'] = None
    finally:
        signal.setitimer(signal.ITIMER_REAL, 0)
        signal.signal(signal.SIGALRM, old_handler)
        REC.active = False
    rec['adv_hits'] = REC.adv_hits
    rec['grown'] = list(getattr(REC, 'grown', []))
    return rec
