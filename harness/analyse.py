"""Analysis of one recorded run: machine replay (Lean driver) and direct property oracles."""
import math, sys
import lib
from common import fkey, enc_pos, enc_ints, enc_keys, dec_pos
from runlevel import SWARM, GREEDY_AGENTS, GREEDY_RANK, ADAPTIVE, budget, fnum, xnum, xeq

FMAX_KEY = fkey(sys.float_info.max)


def has_nan(arr, np):
    a = np.asarray(arr, dtype=float)
    return bool(np.isnan(a).any())


def box_of(cfg, np):
    nv = cfg['n_vars']
    if cfg['space'] == 'hyper':
        return np.zeros(nv), np.ones(nv)
    return np.asarray(cfg['lb'], dtype=float), np.asarray(cfg['ub'], dtype=float)


class RefMap:
    def __init__(self):
        self.m = {}

    def __call__(self, r):
        if r not in self.m:
            self.m[r] = len(self.m) + 1
        return self.m[r]


def enc_ag(pos, tpos, fit, ref):
    return f'{enc_pos(pos)}~{enc_pos(tpos)}~{fkey(fnum(fit))}~{ref}'


def enc_snap_pop(snap, refmap, gp):
    return '|'.join(enc_ag(a['pos'], a['tpos'], a['fit'], (1000 + i) if gp else refmap(a['ref']))
                    for i, a in enumerate(snap['pop'])) or '-'


def enc_best(snap, refmap):
    b = snap['best']
    return enc_ag(b['pos'], b['pos'], b['fit'], refmap(b['ref']))


def snap_nan(snap, np):
    for a in snap['pop']:
        if has_nan(a['pos'], np) or has_nan(a['tpos'], np) or fnum(a['fit']) != fnum(a['fit']):
            return True
    b = snap['best']
    return has_nan(b['pos'], np) or fnum(b['fit']) != fnum(b['fit'])


def machine_lines(rec):
    """-> (lines, expects, labels) ; expects[i] = (pop_enc, best_enc) the model state must equal, or None"""
    L = lib.load()
    np = L['np']
    cfg = rec['cfg']
    gp = cfg['kind'] == 'GP'
    refmap = RefMap()
    lbs, ubs = box_of(cfg, np)
    lines, expects, labels = [], [], []
    init = rec['init']
    if init is None or snap_nan(init, np):
        return None
    n = len(init['pop'])
    lines.append(f"m.init {FMAX_KEY} {1 if cfg['kind'] in SWARM else 0} {enc_keys(lbs)} {enc_keys(ubs)} "
                 f"{enc_snap_pop(init, refmap, gp)} {enc_best(init, refmap)}")
    expects.append(None)
    labels.append(('init', -1))
    last_pop = enc_snap_pop(init, refmap, gp)
    pending = None
    in_sweep, cursor = False, 0

    def same_best(a, b):
        return (a['ref'] == b['ref'] and fkey(fnum(a['fit'])) == fkey(fnum(b['fit']))
                and enc_pos(a['pos']) == enc_pos(b['pos']))

    def flush(snap, idx):
        nonlocal pending, last_pop
        if snap_nan(snap, np):
            raise FloatingPointError('nan in snapshot')
        pe = enc_snap_pop(snap, refmap, gp)
        be = enc_best(snap, refmap)
        if pending is not None:
            ev = pending
            pending = None
            old_best = ev['snap']['best']
            changed = not same_best(old_best, snap['best'])
            v = fkey(fnum(ev['val']))
            relaxed = False
            if ev['_kind'] == 'sweep':
                tie = changed and fkey(fnum(snap['best']['fit'])) == fkey(fnum(old_best['fit']))
                lines.append(f"m.sweep {v} {1 if tie else 0} {refmap(snap['best']['ref'])} {enc_pos(ev['arg'])}")
                relaxed = ev['_last']
            elif changed:
                # the best moved outside a sweep: black-hole exchange with the evaluated agent
                i = next((k for k, a in enumerate(snap['pop']) if a['ref'] == old_best['ref']), 0)
                lines.append(f"m.swap {enc_pos(ev['arg'])} {v} {i}")
                relaxed = True
            else:
                lines.append(f"m.trial {enc_pos(ev['arg'])} {v} {pe}")
            # after the last agent of a sweep (and after an exchange) unobserved update steps may
            # already have run before the next tap: only the best is compared, the population is
            # then handed to the machine as an `update` whose guards decide
            expects.append((None if relaxed else pe, be))
            labels.append((ev['_kind'], ev['_idx']))
            if relaxed:
                lines.append(f'm.update {pe}')
                expects.append((pe, be))
                labels.append(('update', idx))
            last_pop = pe
        elif pe != last_pop:
            lines.append(f'm.update {pe}')
            expects.append((pe, be))
            labels.append(('update', idx))
            last_pop = pe
    try:
        for idx, ev in enumerate(rec['events']):
            t = ev['t']
            if t == 'hook':
                flush(ev['snap'], idx)
                if snap_nan(ev['after'], np):
                    raise FloatingPointError('nan')
                pe = enc_snap_pop(ev['after'], refmap, gp)
                lines.append(f'm.hook {pe}')
                expects.append((pe, enc_best(ev['after'], refmap)))
                labels.append(('hook', idx))
                last_pop = pe
                in_sweep, cursor = True, 0
            elif t == 'eval':
                if ev['snap'] is None or has_nan(ev['arg'], np) or fnum(ev['val']) != fnum(ev['val']):
                    raise FloatingPointError('nan')
                flush(ev['snap'], idx)
                ev['_idx'] = idx
                if in_sweep and cursor < n:
                    ev['_kind'] = 'sweep'
                    cursor += 1
                    ev['_last'] = cursor == n
                    if cursor == n:
                        in_sweep = False
                else:
                    ev['_kind'] = 'trial'
                pending = ev
            elif t == 'clipAgent':
                flush(ev['snap'], idx)
            elif t == 'clipAll':
                flush(ev['snap'], idx)
                if snap_nan(ev['after'], np):
                    raise FloatingPointError('nan')
                lines.append('m.clipall')
                pe = enc_snap_pop(ev['after'], refmap, gp)
                expects.append((pe, enc_best(ev['after'], refmap)))
                labels.append(('clipAll', idx))
                last_pop = pe
            elif t == 'dump':
                flush(ev['snap'], idx)
                lines.append('m.dump')
                expects.append(None)
                labels.append(('dump', idx))
        if rec.get('final') is not None:
            flush(rec['final'], len(rec['events']))
    except FloatingPointError:
        return dict(lines=lines, expects=expects, labels=labels, nan=True)
    lines.append('m.logs')
    expects.append(None)
    labels.append(('logs', -1))
    return dict(lines=lines, expects=expects, labels=labels, nan=False)


def values_are_doubles(rec):
    """every value the objective returned is a number a double holds exactly (the key embedding of the machine and task replays
    represents nothing else: integers beyond 2**53 or rationals that share a double would be ties there and are not in the code)"""
    for e in rec['events']:
        if e['t'] == 'eval' and 'raw' in e:
            try:
                if xnum(e['raw']) != xnum(fnum(e['raw'])):
                    return False
            except Exception:
                return False
    return True


def task_check(rec, driver):
    """Replays the run on `Model/TaskRun.runTask` of the *translated* programs (the optimizer's run() skeleton, the space's
    check_limits loop, the sweep) under a scripted oracle: what every update / post step left behind (observed), observer
    hooks as the identity, the objective as the table of calls observed.  The model then computes by itself the order of the
    steps, the clipped populations, every sweep (arguments, stored fitness, best agent) and every record; they must be the
    ones the real run produced.  -> (issues, stats)"""
    L = lib.load()
    np = L['np']
    cfg = rec['cfg']
    issues, stats = [], dict(replayed=0, steps=0, sweeps=0, records=0, skipped=None)
    kind = cfg['kind']
    if kind == 'GP' or cfg['hook'] != 'observer' or rec['error'] is not None or rec.get('init') is None or rec.get('history') is None:
        stats['skipped'] = 'not-eligible'
        return issues, stats
    if kind in SWARM and cfg.get('prior'):
        stats['skipped'] = 'swarm-with-inherited-memory'      # (the personal-best memory of an earlier task is not observable at start)
        return issues, stats
    evs = rec['events']
    N, gp = cfg['n_iter'], False
    clips = [e for e in evs if e['t'] == 'clipAll']
    dumps = [e for e in evs if e['t'] == 'dump']
    hooks = [(i, e) for i, e in enumerate(evs) if e['t'] == 'hook']
    if len(clips) != N or len(dumps) != N or len(hooks) != N + 1:
        stats['skipped'] = 'event-counts'                      # (the C03 oracle judges such runs)
        return issues, stats
    snaps = [rec['init']] + [e['snap'] for e in clips] + [e['snap'] for e in dumps] + [e['after'] for _, e in hooks]
    if any(snap_nan(sn, np) for sn in snaps) or any(e['t'] == 'eval' and (has_nan(e['arg'], np) or fnum(e['val']) != fnum(e['val'])) for e in evs):
        stats['skipped'] = 'nan'
        return issues, stats
    # the objective as a function: one value per argument; values the key embedding cannot hold exactly (integers beyond 2**53,
    # rationals) are outside what this replay can represent (the direct oracles judge those runs exactly)
    table = {}
    for e in evs:
        if e['t'] == 'eval' and 'raw' in e:
            try:
                inexact = xnum(e['raw']) != xnum(fnum(e['raw']))
            except Exception:
                inexact = True
            if inexact:
                stats['skipped'] = 'values-not-doubles'
                return issues, stats
    for e in evs:
        if e['t'] == 'eval':
            k_ = enc_pos(e['arg'])
            v_ = fkey(fnum(e['val']))
            if table.setdefault(k_, v_) != v_:
                stats['skipped'] = 'objective-not-a-function'
                return issues, stats
    pat = driver.ask(f"skel {kind} {N}")
    if not pat or pat == 'unknown-kind':
        stats['skipped'] = 'no-skeleton'
        return issues, stats
    refmap = RefMap()
    lbs, ubs = (np.asarray(cfg['lb'], dtype=float), np.asarray(cfg['ub'], dtype=float))
    lines = [f"tk.init {kind} {'h' if cfg['space'] == 'hyper' else 's'} {1 if kind in SWARM else 0} {enc_keys(lbs)} {enc_keys(ubs)} "
             f"{enc_snap_pop(rec['init'], refmap, gp)} {enc_best(rec['init'], refmap)}"]
    # oracle steps in call order: the last update of iteration t leaves what the space-wide clip found, the last post step
    # what the record was written from; everything else (observer hooks, earlier steps of a group) is the identity
    it = -1
    for j, ch in enumerate(pat):
        if ch == 'U':
            if j == 0 or pat[j - 1] != 'U':
                it += 1
            last = j + 1 >= len(pat) or pat[j + 1] != 'U'
            sn = clips[it]['snap'] if (last and 0 <= it < N) else None
        elif ch == 'P':
            last = j + 1 >= len(pat) or pat[j + 1] != 'P'
            sn = dumps[it]['snap'] if (last and 0 <= it < N) else None
        elif ch == 'H':
            sn = None
        else:
            continue
        lines.append('tk.step =' if sn is None else f"tk.step {enc_snap_pop(sn, refmap, gp)} {enc_best(sn, refmap)}")
        stats['steps'] += 1
    lines += [f'tk.f {k_} {v_}' for k_, v_ in table.items()]
    lines.append(f'tk.run {N}')
    if driver.ask(lines[0]) == 'unreadable':
        stats['skipped'] = 'program-not-readable'      # (reported by the regenerated obligation of the part that is not)
        return issues, stats
    outs = driver.ask_many(lines)
    bad = [(l[:60], o) for l, o in zip(lines[:-1], outs[:-1]) if o != 'ok']
    if bad:
        issues.append(dict(what='task-model-mismatch', op='protocol', detail=repr(bad[:2])[:300]))
        return issues, stats
    parts = outs[-1].split(' ')
    if len(parts) != 4:
        issues.append(dict(what='task-model-mismatch', op='protocol', detail=outs[-1][:200]))
        return issues, stats
    stats['replayed'] = 1
    k_steps, args_s, dumps_s, best_s = parts
    # (1) every sweep evaluated, in order, what the model says it evaluates
    n_real = [len(e['after']['pop']) for _, e in hooks]
    model_sweeps = [] if args_s == '-' else args_s.split('/')
    for hk, (i, e) in enumerate(hooks):
        real_args = []
        k2 = i + 1
        while len(real_args) < n_real[hk] and k2 < len(evs) and evs[k2]['t'] not in ('hook', 'dump', 'clipAll'):
            if evs[k2]['t'] == 'eval':
                real_args.append(enc_pos(evs[k2]['arg']))
            k2 += 1
        stats['sweeps'] += 1
        m_ = model_sweeps[hk] if hk < len(model_sweeps) else None
        if m_ != ('|'.join(real_args) if real_args else '-'):
            issues.append(dict(what='task-model-mismatch', op='sweep-arguments', sweep=hk, model=str(m_)[:200], real='|'.join(real_args)[:200]))
            return issues, stats
    # (2) every record is the one the model writes
    model_dumps = [] if dumps_s == '-' else dumps_s.split('/')
    if len(model_dumps) != N:
        issues.append(dict(what='task-model-mismatch', op='record-count', model=len(model_dumps), real=N))
        return issues, stats
    for t, (md, e) in enumerate(zip(model_dumps, dumps)):
        ags_s, best_rec = md.split('~')
        live = e['live']
        if 'agents' in live:
            real = '|'.join(f"{enc_pos(np.asarray(p_, dtype=float))}:{fkey(fnum(f_))}" for p_, f_ in live['agents']) or '-'
            stats['records'] += 1
            if real != ags_s:
                issues.append(dict(what='task-model-mismatch', op='agents-record', t=t, model=ags_s[:200], real=real[:200]))
                return issues, stats
        if 'best_agent' in live:
            p_, f_ = live['best_agent']
            real = f"{enc_pos(np.asarray(p_, dtype=float))}:{fkey(fnum(f_))}"
            if real != best_rec:
                issues.append(dict(what='task-model-mismatch', op='best-record', t=t, model=best_rec[:200], real=real[:200]))
                return issues, stats
    return issues, stats


def machine_check(rec, driver):
    """replays the history on the Lean machine; -> (issues, stats)"""
    ml = machine_lines(rec)
    issues, stats = [], dict(events=0, trials=0, sweeps=0, updates=0, swaps=0, ties=0, nan=False)
    if ml is None:
        stats['nan'] = True
        return issues, stats, None
    stats['nan'] = ml['nan']
    outs = driver.ask_many(ml['lines'])
    logs = None
    for line, out, exp, lab in zip(ml['lines'], outs, ml['expects'], ml['labels']):
        stats['events'] += 1
        op = line.split(' ', 1)[0]
        if op == 'm.logs':
            logs = out
            continue
        if op == 'm.trial':
            stats['trials'] += 1
        elif op == 'm.sweep':
            stats['sweeps'] += 1
            if line.split(' ')[2] == '1':
                stats['ties'] += 1
        elif op == 'm.update':
            stats['updates'] += 1
        elif op == 'm.swap':
            stats['swaps'] += 1
        if not out.startswith('ok'):
            issues.append(dict(what='machine-' + out.split(' ')[0], op=op, label=lab, line=line[:400]))
            break
        if exp is not None:
            toks = out.split(' ')
            if exp[0] is not None and toks[1] != exp[0]:
                issues.append(dict(what='state-mismatch-pop', op=op, label=lab, model=toks[1][:300], observed=exp[0][:300]))
                break
            if toks[2] != exp[1]:
                issues.append(dict(what='state-mismatch-best', op=op, label=lab, model=toks[2][:300], observed=exp[1][:300]))
                break
    return issues, stats, logs


# ------------------------------------------------------------------------------ direct oracles
def evals_of(rec):
    return [(i, e) for i, e in enumerate(rec['events']) if e['t'] == 'eval']


def oracle_c01(rec, driver=None):
    L = lib.load()
    np = L['np']
    cfg = rec['cfg']
    lb, ub = box_of(cfg, np)
    issues = []
    stats = dict(evals=0, clip_mattered=0, clips=0, unpaired=0)
    shape = (cfg['n_vars'], cfg['n_dims'])
    last_clip = {}   # ref -> (before, after)
    clip_lines, clip_expect, clip_where = [], [], []
    for i, e in enumerate(rec['events']):
        if e['t'] == 'clipAgent':
            last_clip[e['ref']] = (e['before'], e['after'])
            stats['clips'] += 1
            if not (has_nan(e['before'], np) or has_nan(e['lb'], np) or has_nan(e['ub'], np)):
                if cfg['space'] == 'hyper' and cfg['kind'] != 'GP':
                    pass
                clip_lines.append(f"clip {enc_keys(e['lb'])} {enc_keys(e['ub'])} {enc_pos(e['before'])}")
                clip_expect.append(enc_pos(e['after']))
                clip_where.append(i)
        elif e['t'] == 'clipAll':
            stats['clips'] += 1
            for a0, a1 in zip(e['snap']['pop'], e['after']['pop']):
                last_clip[a1['ref']] = (a0['real'], a1['real'])
                if not has_nan(a0['real'], np):
                    if cfg['space'] == 'hyper':
                        clip_lines.append(f"cliphyper {len(cfg['lb'])} {enc_pos(a0['real'])}")
                    else:
                        clip_lines.append(f"clip {enc_keys(cfg['lb'])} {enc_keys(cfg['ub'])} {enc_pos(a0['real'])}")
                    clip_expect.append(enc_pos(a1['real']))
                    clip_where.append(i)
        elif e['t'] == 'eval':
            stats['evals'] += 1
            a = e['arg']
            bad = None
            if not e['isarr'] or tuple(a.shape) != shape:
                bad = f'shape {getattr(a, "shape", None)} != {shape}'
            elif not np.all(np.isfinite(a)):
                bad = 'nonfinite'
            elif np.any(a < lb[:, None]) or np.any(a > ub[:, None]):
                bad = 'outofbox'
            if bad:
                issues.append(dict(what='eval-' + bad.split(' ')[0], detail=bad, ev=i, site=e['site'], arg=np.asarray(a).tolist()))
            pc = last_clip.get(e['ref'])
            if pc is None:
                stats['unpaired'] += 1
            else:
                b0 = pc[0]
                if b0.shape == a.shape and not has_nan(b0, np) and (np.any(b0 < lb[:, None]) or np.any(b0 > ub[:, None])):
                    stats['clip_mattered'] += 1
        elif e['t'] == 'dump':
            bp = e['snap']['best']['pos']
            if tuple(bp.shape) != shape or not np.all(np.isfinite(bp)) or np.any(bp < lb[:, None]) or np.any(bp > ub[:, None]):
                issues.append(dict(what='best-infeasible', ev=i, best=bp.tolist()))
    if rec.get('final') is not None and rec['error'] is None:
        bp = rec['final']['best']['pos']
        if tuple(bp.shape) != shape or not np.all(np.isfinite(bp)) or np.any(bp < lb[:, None]) or np.any(bp > ub[:, None]):
            issues.append(dict(what='best-infeasible', ev='final', best=bp.tolist()))
    if driver is not None and clip_lines:
        outs = driver.ask_many(clip_lines)
        for o, x, w, l in zip(outs, clip_expect, clip_where, clip_lines):
            if o != x:
                issues.append(dict(what='clip-mismatch', ev=w, model=o[:200], observed=x[:200], line=l[:300]))
                break
    return issues, stats


def oracle_c02(rec):
    L = lib.load()
    np = L['np']
    issues = []
    stats = dict(dumps=0, min_in_trial=0, ties=0)
    if rec['cfg']['hook'] not in ('observer', 'relist', 'swap', 'rebest'):
        # hooks that only re-order the population (or install a re-ordered list) change no position and no fitness
        return issues, stats
    vals = []   # (arg, val, kind)
    running = []
    prev_best_fit = None
    stale = None
    if (rec['cfg'].get('prior') or {}).get('same_space') and rec.get('init') is not None:
        # second task on the same space, same objective: the best agent carried over counts as evaluated in the earlier
        # task — provided it is truthful (the objective, called again at that position, returns that value)
        b0 = rec['init']['best']
        try:
            v0 = fnum(rec['of'](np.array(b0['pos'], copy=True)))
        except Exception:
            v0 = None
        if v0 is not None and v0 == fnum(b0['fit']):
            vals.append((np.array(b0['pos'], copy=True), v0, 'inherited'))
            stats['inherited_best'] = 1
        else:
            issues.append(dict(what='inherited-best-untruthful', ev='init', best_fit=fnum(b0['fit']), objective=v0))
            stale = fnum(b0['fit'])
    for i, e in enumerate(rec['events']):
        if e['t'] == 'eval':
            vals.append((e['arg'], fnum(e['val']), e.get('_kind')))
        elif e['t'] == 'dump':
            stats['dumps'] += 1
            b = e['snap']['best']
            real_ = [v for _, v, _ in vals if v == v]
            if not real_:
                continue        # nothing but NaN has been returned so far: there is no best value yet
            mn = min(real_)
            bf = fnum(b['fit'])
            if bf != mn:
                issues.append(dict(what='best-not-min', ev=i, best_fit=bf, min=mn, stale_inherited=(stale is not None and bf == stale)))
            elif not any(v == bf and a.shape == b['pos'].shape and np.array_equal(a, b['pos']) for a, v, _ in vals):
                issues.append(dict(what='best-pos-not-evaluated', ev=i, best=b['pos'].tolist(), best_fit=bf))
            if sum(1 for _, v, _ in vals if v == mn) > 1:
                stats['ties'] += 1
            first = next(k for _, v, k in vals if v == mn)
            if first == 'trial':
                stats['min_in_trial'] += 1
            if prev_best_fit is not None and bf > prev_best_fit:
                issues.append(dict(what='best-increased', ev=i, prev=prev_best_fit, now=bf))
            prev_best_fit = bf
        elif e['t'] == 'hook':
            n = len(e['live']['shapes'])
            if any(j == n for _, j in e['live']['alias']):
                issues.append(dict(what='best-shares-storage', ev=i, pairs=e['live']['alias']))
    if rec['error'] is None and rec.get('final') is not None and vals:
        b = rec['final']['best']
        real_ = [v for _, v, _ in vals if v == v]
        mn = min(real_) if real_ else fnum(b['fit'])
        if fnum(b['fit']) != mn:
            issues.append(dict(what='best-not-min', ev='final', best_fit=fnum(b['fit']), min=mn,
                               stale_inherited=(stale is not None and fnum(b['fit']) == stale)))
        h = rec['history']
        bf = [fnum(r[1]) for r in getattr(h, 'best_agent', [])]
        if any(bf[k + 1] > bf[k] for k in range(len(bf) - 1)):
            issues.append(dict(what='history-best-increased', series=bf))
        # the reported best fitness - in the records and on the space - is *exactly* a value the objective returned (an integer
        # beyond 2**53, a rational, an extended-precision number is not the double nearest to it)
        raws = [e['raw'] for e in rec['events'] if e['t'] == 'eval' and 'raw' in e]
        if raws and stale is None and not (rec['cfg'].get('prior') or {}).get('same_space') and rec['cfg'].get('objective') not in ('view0', 'view00', 'bufout'):
            try:
                exact = set()
                for r_ in raws:
                    x_ = xnum(r_)
                    if x_ == x_:
                        exact.add(x_)
                reported = [('record', t_, r[1]) for t_, r in enumerate(getattr(h, 'best_agent', []))]
                if rec.get('space') is not None:
                    reported.append(('space', None, rec['space'].best_agent.fit))
                for where, t_, v_ in reported:
                    x_ = xnum(v_)
                    if x_ == x_ and exact and x_ not in exact:
                        issues.append(dict(what='best-fitness-never-returned', where=where, t=t_, reported=repr(v_)[:60],
                                           nearest=repr(min(exact, key=lambda q: abs(q - x_) if abs(q) != float('inf') and abs(x_) != float('inf') else 0))[:60]))
                        break
            except Exception:
                pass
        n = rec['final_live']['n']
        if any(j == n for _, j in rec['final_live']['alias']):
            issues.append(dict(what='best-shares-storage', ev='final', pairs=rec['final_live']['alias']))
    return issues, stats


def observed_pattern(rec):
    """H (hook) S (a sweep starts) C (space-wide clip) D (dump)"""
    out = []
    n = rec['cfg']['n_agents']
    after_hook = False
    for e in rec['events']:
        if e['t'] == 'hook':
            out.append('H')
            after_hook = True
        elif e['t'] == 'eval':
            if after_hook:
                out.append('S')
                after_hook = False
        elif e['t'] == 'clipAll':
            out.append('C')
        elif e['t'] == 'dump':
            out.append('D')
    return ''.join(out)


def oracle_c03(rec, driver=None):
    L = lib.load()
    np = L['np']
    cfg = rec['cfg']
    issues = []
    stats = dict(hooks=0, evals=0)
    N, n = cfg['n_iter'], cfg['n_agents']
    if rec['error'] is not None:
        issues.append(dict(what='exception', error=rec['error']))
        return issues, stats
    hooks = [(i, e) for i, e in enumerate(rec['events']) if e['t'] == 'hook']
    stats['hooks'] = len(hooks)
    if len(hooks) != N + 1:
        issues.append(dict(what='hook-count', hooks=len(hooks), expected=N + 1))
    for i, e in hooks:
        if not e['args_ok']:
            issues.append(dict(what='hook-args', ev=i))
    h = rec['history']
    if len(getattr(h, 'best_agent', [])) != N:
        issues.append(dict(what='iteration-count', records=len(getattr(h, 'best_agent', [])), expected=N))
    # the sweep after each hook evaluates, in population order, the state the hook left behind
    evs = rec['events']
    lo, hi = budget(cfg['kind'], n)
    if driver is not None:
        # the same number computed in Lean from the call sites translated from the current source
        mb = driver.ask(f"budget {cfg['kind']} {n}")
        if mb != str(hi):
            issues.append(dict(what='budget-table-mismatch', model=mb, table=hi, n=n))
    for hk, (i, e) in enumerate(hooks):
        post = e['after']['pop']
        n = len(post) if cfg['hook'] == 'append' else cfg['n_agents']     # (a hook may have enlarged the population)
        if cfg['hook'] == 'append':
            lo, hi = budget(cfg['kind'], n)
        k = i + 1
        j = 0
        while j < n:
            while k < len(evs) and evs[k]['t'] not in ('eval', 'hook', 'dump', 'clipAll'):
                k += 1
            if k >= len(evs) or evs[k]['t'] != 'eval':
                issues.append(dict(what='sweep-short', hook=hk, evaluated=j, expected=n))
                break
            a = evs[k]['arg']
            exp = post[j]['pos']
            if a.shape != exp.shape or not np.array_equal(a, exp):
                if not (has_nan(a, np) and has_nan(exp, np)):
                    issues.append(dict(what='sweep-order', hook=hk, agent=j, arg=a.tolist(), expected=exp.tolist()))
                    break
            j += 1
            k += 1
        nxt = hooks[hk + 1][0] if hk + 1 < len(hooks) else len(evs)
        cnt = sum(1 for x in evs[i:nxt] if x['t'] == 'eval')
        stats['evals'] += cnt
        # evaluations between this hook and the next: this sweep (n) + the next iteration's trials
        if hk + 1 < len(hooks):
            if cnt < n or cnt > n + (hi - n):
                issues.append(dict(what='budget', hook=hk, calls=cnt, min=n, max=n + (hi - n)))
        elif cnt != n:
            issues.append(dict(what='budget-last-sweep', calls=cnt, expected=n))
    if driver is not None:
        pat = driver.ask(f"skel {cfg['kind']} {N}")
        obs = observed_pattern(rec)
        model = ''.join(ch for ch in pat if ch in 'HSCD')
        if obs != model:
            issues.append(dict(what='pattern', observed=obs, model=model))
    return issues, stats


def oracle_c04(rec, driver=None):
    L = lib.load()
    np = L['np']
    cfg = rec['cfg']
    issues, stats = [], dict(records=0, keys=0)
    if rec['error'] is not None:
        return issues, stats
    h = rec['history']
    dumps = [(i, e) for i, e in enumerate(rec['events']) if e['t'] == 'dump']
    N = cfg['n_iter']
    attrs = {k: v for k, v in vars(h).items()}
    sbo = cfg['store_best_only']
    keys = set(k for k in attrs if k != 'store_best_only')
    dumped = set()
    for _, e in dumps:
        dumped |= set(e['keys'])
    hist_keys = set(L['c'].HISTORY_KEYS)
    expected = set(k for k in dumped if not (k in hist_keys and k != 'best_agent' and sbo)) | {'time'}
    if keys != expected:
        issues.append(dict(what='keys', have=sorted(keys), expected=sorted(expected)))
    stats['keys'] = len(keys)
    if 'agents' not in dumped or 'best_agent' not in dumped:
        issues.append(dict(what='not-dumped', dumped=sorted(dumped)))
    tm = attrs.get('time')
    if not (isinstance(tm, list) and len(tm) == 1 and fnum(tm[0]) >= 0):
        issues.append(dict(what='time', value=repr(tm)[:80]))
    for k in keys - {'time'}:
        if len(attrs[k]) != N:
            issues.append(dict(what='length', key=k, records=len(attrs[k]), expected=N))
    for t, (i, e) in enumerate(dumps):
        for k in e['keys']:
            if k not in keys or k == 'best_tree' or t >= len(attrs[k]):
                continue
            stats['records'] += 1
            live = e['live'][k]
            got = attrs[k][t]
            if not same_record(live, got):
                issues.append(dict(what='record-differs', key=k, t=t, live=repr(live)[:300], stored=repr(got)[:300]))
            # … and the record describes the *space* as it is when the record is written (not some other list the optimizer
            # happens to hold): positions and fitness of space.agents / space.best_agent at that moment
            sn = e.get('snap')
            if sn is not None and k == 'agents':
                state = [(a['real'].tolist(), a['fit']) for a in sn['pop']]
                if not same_record(state, got, exact=False):
                    issues.append(dict(what='record-is-not-the-space', key=k, t=t, space=repr(state)[:300], stored=repr(got)[:300]))
            if sn is not None and k == 'best_agent':
                state = (sn['best']['pos'].tolist(), sn['best']['fit'])
                if not same_record(state, got, exact=False):
                    issues.append(dict(what='record-is-not-the-space', key=k, t=t, space=repr(state)[:300], stored=repr(got)[:300]))
        # earlier records must not have moved since they were written
        for k, old in e['histcopy'].items():
            now = attrs.get(k)
            if now is None or not same_record(old, now[:len(old)]):
                issues.append(dict(what='record-altered-later', key=k, upto=len(old)))
    # recorded trees are values too: record t of `best_tree` still is the tree that was dumped at t
    if 'best_tree' in keys:
        import treeutil as _T
        for t, (i, e) in enumerate(dumps):
            lv = e['live'].get('best_tree')
            if lv is None or t >= len(attrs['best_tree']):
                continue
            node = attrs['best_tree'][t]
            now = (_T.canon(node), [np.array(n.value, copy=True).tolist() for n in _T.walk(node)[0] if n.value is not None])
            if now[0] != lv[1] or not same_record(now[1], lv[2]):
                issues.append(dict(what='record-altered-later', key='best_tree', t=t))
                break
    # the last record is the population as the last iteration left it
    fin = rec.get('final')
    if fin is not None and dumps and 'agents' in keys and len(attrs['agents']) == N:
        last = attrs['agents'][-1]
        now = [(a['real'].tolist(), a['fit']) for a in fin['pop']]
        if not same_record(last, now, exact=False):
            issues.append(dict(what='last-record-is-not-final-state', key='agents', record=repr(last)[:200], final=repr(now)[:200]))
    if fin is not None and dumps and len(attrs.get('best_agent', [])) == N:
        if not same_record(attrs['best_agent'][-1], (fin['best']['pos'].tolist(), fin['best']['fit']), exact=False):
            issues.append(dict(what='last-record-is-not-final-state', key='best_agent'))
    # write-through test: change every agent in place, records must not move
    before = {k: repr(v) for k, v in attrs.items() if k != 'best_tree'}
    sp = rec['space']
    for a in sp.agents + [sp.best_agent]:
        a.position += 1.2345
    after = {k: repr(v) for k, v in vars(h).items() if k != 'best_tree'}
    for a in sp.agents + [sp.best_agent]:
        a.position -= 1.2345
    if before != after:
        issues.append(dict(what='records-alias-live-state', keys=[k for k in before if before[k] != after.get(k)]))
    # reading a history does not change it: printing it, querying it, copying it, pickling it
    import contextlib, io, copy as _cp, pickle as _pk
    before = {k: repr(v) for k, v in vars(h).items() if k != 'best_tree'}
    reads = []
    with contextlib.redirect_stdout(io.StringIO()):
        for name, fn_ in (('str', lambda: str(h)), ('repr', lambda: repr(h)), ('format', lambda: '{}'.format(h)),
                          ('get-best', lambda: h.get('best_agent', (0,))), ('get-best-fit', lambda: h.get('best_agent', (1,))),
                          ('get-agents', lambda: h.get('agents', (0, 0)) if 'agents' in keys else None),
                          ('deepcopy', lambda: _cp.deepcopy(h)), ('copy', lambda: _cp.copy(h)),
                          ('pickle', lambda: _pk.dumps(h) if 'best_tree' not in keys else None)):
            try:
                fn_()
            except Exception as ex:
                # (what `get` raises on ragged or scalar records is C19's subject)
                continue
            now = {k: repr(v) for k, v in vars(h).items() if k != 'best_tree'}
            if now != before:
                reads.append(dict(read=name, keys=sorted(k for k in set(before) | set(now) if before.get(k) != now.get(k))))
                before = now
    if reads:
        issues.append(dict(what='reading-changes-the-history', reads=reads))
    return issues, stats


def same_record(a, b, exact=True):
    """`exact=False` when one side is a recorder snapshot (which holds fitness values as doubles)"""
    if isinstance(a, (list, tuple)) and isinstance(b, (list, tuple)):
        return len(a) == len(b) and all(same_record(x, y, exact) for x, y in zip(a, b))
    if isinstance(a, (list, tuple)) or isinstance(b, (list, tuple)):
        return False
    try:
        if exact:
            # (exactly the same number: an integer beyond 2**53 or a rational is not the float nearest to it)
            return xeq(a, b)
        fa, fb = fnum(a), fnum(b)
        return fa == fb or (fa != fa and fb != fb)
    except Exception:
        return a == b


def oracle_c07(rec):
    cfg = rec['cfg']
    issues, stats = [], dict(checks=0, replaced=0)
    n = cfg['n_agents']
    shape = (cfg['n_vars'], cfg['n_dims'])
    lives = [(i, e['live']) for i, e in enumerate(rec['events']) if e['t'] == 'hook']
    if rec['error'] is None and rec.get('final_live'):
        lives.append(('final', rec['final_live']))
    for i, lv in lives:
        stats['checks'] += 1
        if lv['n'] != n:
            issues.append(dict(what='population-size', ev=i, n=lv['n'], expected=n))
        # (the user reset the incumbent to a default agent before the task: it takes the population's shape with the first sweep)
        first_of_reset = bool(cfg.get('reset_best')) and lives and i == lives[0][0]
        if any(s != shape for s in lv['shapes']) or (lv['best_shape'] != shape and not first_of_reset):
            issues.append(dict(what='shape', ev=i, shapes=[list(s) for s in lv['shapes']], expected=list(shape)))
        if lv['alias']:
            issues.append(dict(what='shared-storage', ev=i, pairs=lv['alias']))
        if lv.get('fit_alias'):
            issues.append(dict(what='fitness-shares-storage', ev=i, pairs=lv['fit_alias']))
    refs = None
    for e in rec['events']:
        if e['t'] == 'hook':
            r = [a['ref'] for a in e['snap']['pop']]
            if refs is not None and sorted(r) != sorted(refs):
                stats['replaced'] += 1
            refs = r
    if rec['error'] is None and rec.get('space') is not None and cfg['hook'] in ('observer', 'rebest'):
        # write-through: bump each agent, nobody else may move
        L = lib.load()
        np = L['np']
        sp = rec['space']
        arrs = [a.position for a in sp.agents] + [sp.best_agent.position]
        for i, x in enumerate(arrs):
            snap = [np.array(y, copy=True) for y in arrs]
            x += 0.5
            moved = [j for j, y in enumerate(arrs) if j != i and not np.array_equal(y, snap[j], equal_nan=True)]
            x -= 0.5
            if moved:
                issues.append(dict(what='write-through', source=i, moved=moved))
                break
        # a checkpoint of the space (deep copy, pickle round trip) is a population too: same size, same values, and its
        # agents and best agent are objects of their own, sharing storage neither with each other nor with the original
        import copy as _cp, pickle as _pk
        import runlevel as _rl
        for how, mk in (('deepcopy', lambda: _cp.deepcopy(sp)), ('pickle', lambda: _pk.loads(_pk.dumps(sp)))):
            if cfg['kind'] == 'GP' and how == 'pickle':
                continue
            try:
                cp = mk()
            except Exception as ex:
                issues.append(dict(what='space-copy-failed', how=how, error=type(ex).__name__ + ': ' + str(ex)[:120]))
                continue
            stats['checks'] += 1
            lv = _rl.live_checks(L, cp, cfg)
            objs = list(cp.agents) + [cp.best_agent]
            same_obj = [(i, j) for i in range(len(objs)) for j in range(i + 1, len(objs)) if objs[i] is objs[j]]
            orig = [a.position for a in sp.agents] + [sp.best_agent.position]
            cross = [(i, j) for i, x in enumerate(objs) for j, y in enumerate(orig)
                     if isinstance(x.position, np.ndarray) and isinstance(y, np.ndarray) and np.shares_memory(x.position, y)]
            differs = [i for i, (x, y) in enumerate(zip(objs, list(sp.agents) + [sp.best_agent]))
                       if not np.array_equal(np.asarray(x.position), np.asarray(y.position), equal_nan=True)]
            if lv['n'] != len(sp.agents) or lv['alias'] or lv['fit_alias'] or same_obj or cross or differs:
                issues.append(dict(what='space-copy-shares-or-differs', how=how, n=lv['n'], alias=lv['alias'], fit_alias=lv['fit_alias'],
                                   same_object=same_obj, shares_with_original=cross, differs=differs))
    return issues, stats


def ulp(x):
    x = abs(fnum(x))
    return math.ulp(x) if x > 0 else 5e-324


def oracle_c15(rec, driver=None):
    cfg = rec['cfg']
    kind = cfg['kind']
    issues, stats = [], dict(hooks=0, adaptive_values=0)
    hp0 = rec.get('hp0') or {}
    hooks = [(i, e) for i, e in enumerate(rec['events']) if e['t'] == 'hook']
    adaptive = ADAPTIVE.get(kind, set())
    seq = [h['hp'] for _, h in hooks]
    if rec['error'] is None and rec.get('hp1'):
        seq.append(rec['hp1'])
    prev = None
    adapted_w = False
    narrowed = rec.get('narrowed') or {}
    for t, hp in enumerate(seq):
        stats['hooks'] += 1
        for k, v in hp.items():
            if k in adaptive or k in (narrowed.get('names') or []):
                continue
            if k in hp0 and hp0[k] != v and not (isinstance(v, float) and v != v and hp0[k] != hp0[k]):
                issues.append(dict(what='hyperparameter-changed', name=k, before=hp0[k], after=v, at=t))
        def rng_ok(name, lo, hi, x):
            a = 2 * max(ulp(lo), ulp(hi), ulp(hi - lo))
            if not (lo - a <= x <= hi + a):
                issues.append(dict(what='out-of-range', name=name, value=x, lo=lo, hi=hi, at=t))
            elif not (lo <= x <= hi):
                issues.append(dict(what='rounding-excursion', name=name, value=x, lo=lo, hi=hi, at=t))
        if narrowed and t == narrowed.get('at'):
            # (the snapshot of the hook that narrowed the ranges: the adaptive values were computed before, from the old ranges)
            prev = hp
            continue
        if kind == 'AIWPSO':
            stats['adaptive_values'] += 1
            # the user's initial w is only replaced by the first adaptation step (it is seen unchanged
            # by the first hooks); from the first adapted value on, w must lie inside [w_min, w_max]
            w0 = hp0.get('w')
            init_inside = w0 is not None and hp['w_min'] <= w0 <= hp['w_max']
            adapted = adapted_w or (w0 is not None and hp['w'] != w0)
            adapted_w = adapted
            # (the first adaptation step runs at the end of iteration 0: from the third hook on w is an adapted value,
            #  whether or not any particle succeeded)
            if init_inside or adapted or t >= 2:
                rng_ok('w', hp['w_min'], hp['w_max'], hp['w'])
        if kind == 'IHS' and t >= 1:
            stats['adaptive_values'] += 2
            rng_ok('PAR', hp['PAR_min'], hp['PAR_max'], hp['PAR'])
            rng_ok('bw', hp['bw_min'], hp['bw_max'], hp['bw'])
        for name, k in (('SA', 'T'), ('FA', 'alpha'), ('WCA', 'd_max')):
            if kind == name:
                stats['adaptive_values'] += 1
                x = hp[k]
                if x < 0 or x != x:
                    issues.append(dict(what='negative', name=k, value=x, at=t))
                if prev is not None and x > prev[k]:
                    issues.append(dict(what='increased', name=k, before=prev[k], after=x, at=t))
        prev = hp
    # schedule functions against the model (Float twin)
    if driver is not None and len(seq) >= 2:
        from common import fbits, bits2f
        N = cfg['n_iter']
        reiter = rec.get('reiter') or {}

        def n_after(k):
            # `space.n_iterations` as the step between observation k and observation k + 1 reads it: the declared value, or
            # the one hook call number `at` assigned (the loop itself still makes the N iterations it started with)
            return reiter['n'] if reiter and k >= reiter['at'] else N
        lines, exps, names, prevs = [], [], [], []
        for k_, (a, b) in enumerate(zip(seq, seq[1:])):
            if kind == 'SA':
                lines.append(f"n.sat {fbits(a['T'])} {fbits(a['beta'])}"); exps.append(b['T']); names.append('T'); prevs.append(a['T'])
            if kind == 'FA':
                lines.append(f"n.fa {fbits(a['alpha'])} {n_after(k_)}"); exps.append(b['alpha']); names.append('alpha'); prevs.append(a['alpha'])
            if kind == 'WCA':
                lines.append(f"n.wca {fbits(a['d_max'])} {n_after(k_)}"); exps.append(b['d_max']); names.append('d_max'); prevs.append(a['d_max'])
        if kind == 'IHS':
            for t, hp in enumerate(seq[1:N + 1]):
                if narrowed and t + 1 == narrowed.get('at'):
                    continue        # (value computed before the hook narrowed the ranges this snapshot shows)
                lines.append(f"n.par {fbits(hp['PAR_min'])} {fbits(hp['PAR_max'])} {n_after(t)} {t}"); exps.append(hp['PAR']); names.append('PAR'); prevs.append(None)
                lines.append(f"n.bw {fbits(hp['bw_min'])} {fbits(hp['bw_max'])} {n_after(t)} {t}"); exps.append(hp['bw']); names.append('bw'); prevs.append(None)
        if kind == 'AIWPSO':
            # w after iteration t is aiwpsoW(w_min, w_max, p, n) for some success count p in 0..n
            n = cfg['n_agents']
            for ib_, (a, b) in enumerate(zip(seq, seq[1:])):
                if narrowed and ib_ + 1 == narrowed.get('at'):
                    continue
                if b['w'] != a['w']:
                    for p_ in range(n + 1):
                        lines.append(f"n.aiw {fbits(b['w_min'])} {fbits(b['w_max'])} {p_} {n}"); exps.append(b['w']); names.append(('w', p_, n)); prevs.append(None)
        # the same updates as the translator read them from the current source (Generated/FormulasDefs), evaluated in
        # Lean Float: every line below has a twin `fx sched …` line whose answer must coincide with the hand model's
        def envs(d):
            return ','.join(f'{k}={fbits(fnum(v))}' for k, v in d.items())
        tl = []
        for l in lines:
            f = l.split()
            b = lambda s_: bits2f(int(s_))
            if f[0] == 'n.sat':
                tl.append('fx sched sa_T ' + envs({'self.T': b(f[1]), 'self.beta': b(f[2])}) + ' -')
            elif f[0] == 'n.fa':
                tl.append('fx sched fa_alpha ' + envs({'self.alpha': b(f[1]), 'n_iterations': int(f[2])}) + ' -')
            elif f[0] == 'n.wca':
                tl.append('fx sched wca_dmax ' + envs({'self.d_max': b(f[1]), 'space.n_iterations': int(f[2])}) + ' -')
            elif f[0] == 'n.par':
                tl.append('fx sched ihs_PAR ' + envs({'self.PAR_min': b(f[1]), 'self.PAR_max': b(f[2]), 'space.n_iterations': int(f[3]), 't': int(f[4])}) + ' -')
            elif f[0] == 'n.bw':
                tl.append('fx sched ihs_bw ' + envs({'self.bw_min': b(f[1]), 'self.bw_max': b(f[2]), 'space.n_iterations': int(f[3]), 't': int(f[4])}) + ' -')
            elif f[0] == 'n.aiw':
                tl.append('fx sched aiwpso_w ' + envs({'self.w_min': b(f[1]), 'self.w_max': b(f[2]), 'p': int(f[3]), 'len(agents)': int(f[4])}) + ' -')
        if lines:
            outs = driver.ask_many(lines)
            touts = driver.ask_many(tl)
            for l, o, t_ in zip(tl, outs, touts):
                stats['translated_schedule_checks'] = stats.get('translated_schedule_checks', 0) + 1
                if o != t_ and not (o.isdigit() and t_.isdigit() and bits2f(int(o)) != bits2f(int(o)) and bits2f(int(t_)) != bits2f(int(t_))):
                    issues.append(dict(what='schedule-mismatch', name='translated-source-vs-model', model=o, translated=t_, line=l))
                    break
            wgroup = {}
            for l, o, x, nm, pv in zip(lines, outs, exps, names, prevs):
                m = bits2f(o)
                if isinstance(nm, tuple):
                    wgroup.setdefault(x, []).append(m)
                    continue
                stats['schedule_checks'] = stats.get('schedule_checks', 0) + 1
                tol = 1e-12 * (1 + abs(m) + abs(x)) if nm in ('bw', 'alpha') else 0.0
                ok = (m == x or abs(m - x) <= tol or (m != m and x != x))
                if not ok and pv is not None and pv == x:
                    ok = True   # no adaptation step between these two observations
                if not ok:
                    issues.append(dict(what='schedule-mismatch', name=nm, model=m, observed=x, line=l))
                    break
            for x, ms in wgroup.items():
                stats['schedule_checks'] = stats.get('schedule_checks', 0) + 1
                if x not in ms:
                    issues.append(dict(what='schedule-mismatch', name='w', observed=x, model_candidates=ms[:12]))
                    break
    return issues, stats


def oracle_c20(rec):
    L = lib.load()
    np = L['np']
    cfg = rec['cfg']
    kind = cfg['kind']
    issues, stats = [], dict(records=0, greedy_pairs=0)
    if rec['error'] is not None or cfg['hook'] not in ('observer', 'rebest'):
        return issues, stats
    of = rec['of']
    dumps = [(i, e) for i, e in enumerate(rec['events']) if e['t'] == 'dump']
    prev = None
    for t, (i, e) in enumerate(dumps):
        if 'agents' not in e['live']:
            continue
        ag = e['live']['agents']
        loc = e['live'].get('local')
        fits = []
        for j, (p, f) in enumerate(ag):
            stats['records'] += 1
            pos = np.array(loc[j] if (kind in SWARM and loc is not None) else p, dtype=float)
            rv = of(pos)
            v = fnum(rv)
            fits.append(fnum(f))
            if not xeq(rv, f):
                issues.append(dict(what='untruthful-record', t=t, agent=j, stored=fnum(f), objective=v,
                                   position=pos.tolist(), stored_exact=repr(f)[:60], objective_exact=repr(rv)[:60]))
        if prev is not None:
            if kind in GREEDY_AGENTS or kind in SWARM:
                for j, (a, b) in enumerate(zip(prev, fits)):
                    stats['greedy_pairs'] += 1
                    if b > a:
                        issues.append(dict(what='greedy-worse', t=t, agent=j, before=a, after=b))
            elif kind in GREEDY_RANK:
                for j, (a, b) in enumerate(zip(sorted(prev), sorted(fits))):
                    stats['greedy_pairs'] += 1
                    if b > a:
                        issues.append(dict(what='rank-worse', t=t, rank=j, before=a, after=b))
        prev = fits
    # the per-agent records of the History the task returned say the same, and still do after the History went to disk and
    # back (what a user analyses later is usually the loaded file)
    h = rec.get('history')
    if h is not None and kind not in ('GP', 'WCA') and kind not in SWARM and hasattr(h, 'agents') and cfg.get('objective') not in ('view0', 'view00', 'bufout'):
        import os, tempfile
        views = [('returned', h)]
        try:
            d_ = tempfile.mkdtemp(prefix='c20_', dir=os.getcwd())
            fn_ = os.path.join(d_, 'task.history')
            h.save(fn_)
            h2 = L['History']()
            h2.load(fn_)
            views.append(('loaded', h2))
        except Exception as ex:
            issues.append(dict(what='history-save-load-raised', error=type(ex).__name__ + ': ' + str(ex)[:120]))
        finally:
            import shutil
            shutil.rmtree(d_, ignore_errors=True)
        for name_, hh in views:
            bad = None
            for t, recs in enumerate(getattr(hh, 'agents', [])):
                for j, (p, f) in enumerate(recs):
                    rv = of(np.array(p, dtype=float))
                    if not xeq(rv, f):
                        bad = dict(what='untruthful-history-record', history=name_, t=t, agent=j, stored_exact=repr(f)[:60],
                                   objective_exact=repr(rv)[:60], position=p)
                        break
                if bad:
                    break
            if bad:
                issues.append(bad)
    return issues, stats


def oracle_c12(rec):
    L = lib.load()
    np = L['np']
    cfg = rec['cfg']
    issues, stats = [], dict(checks=0)
    if cfg['kind'] != 'GP' or rec['error'] is not None:
        return issues, stats
    of = rec['of']
    pts = [(i, e['gp'], e['snap']) for i, e in enumerate(rec['events']) if e['t'] == 'dump']
    if rec.get('final_gp') is not None:
        pts.append(('final', rec['final_gp'], rec['final']))
    recs = {i: e['live'].get('agents') for i, e in enumerate(rec['events']) if e['t'] == 'dump' and isinstance(e.get('live'), dict)}
    for i, g, snap in pts:
        stats['checks'] += 1
        # the iteration *record* of agent j (what History is handed for `agents`) pairs with tree j of the space as well
        ra = recs.get(i)
        if ra is not None and len(ra) == len(g['vals']):
            lb_, ub_ = g['lb'], g['ub']
            for j, (tv, (rpos, rfit)) in enumerate(zip(g['vals'], ra)):
                cv_ = np.array(tv, copy=True)
                for q in range(min(len(lb_), cv_.shape[0])):
                    cv_[q] = np.clip(cv_[q], lb_[q], ub_[q])
                rp_ = np.asarray(rpos, dtype=float)
                if cv_.shape != rp_.shape or not np.array_equal(cv_, rp_, equal_nan=True):
                    issues.append(dict(what='recorded-agent-is-not-its-tree', ev=i, agent=j, tree=cv_.tolist(), recorded=rp_.tolist()))
                    break
        elif ra is not None:
            issues.append(dict(what='counts', ev=i, trees=len(g['vals']), recorded_agents=len(ra)))
        if g['n_trees'] != cfg['n_agents'] or g['n_agents'] != cfg['n_agents']:
            issues.append(dict(what='counts', ev=i, trees=g['n_trees'], agents=g['n_agents']))
        lb, ub = g['lb'], g['ub']
        def clipv(v):
            out = np.array(v, copy=True)
            for j in range(min(len(lb), out.shape[0])):
                out[j] = np.clip(out[j], lb[j], ub[j])
            return out
        bv = clipv(g['best_val'])
        bp = snap['best']['pos']
        upto = len(rec['events']) if i == 'final' else i
        if not any(e_['t'] == 'eval' and fnum(e_['val']) == fnum(e_['val']) for e_ in rec['events'][:upto]):
            pass                # nothing but NaN has been returned so far: there is no best individual yet
        elif bv.shape != bp.shape or not np.array_equal(bv, bp, equal_nan=True):
            issues.append(dict(what='best-tree-value', ev=i, tree=bv.tolist(), best=bp.tolist()))
        elif fnum(of(bp)) != fnum(snap['best']['fit']):
            issues.append(dict(what='best-fitness', ev=i, objective=fnum(of(bp)), stored=fnum(snap['best']['fit'])))
        if g['shared_nodes'] or g['shared_arrays']:
            issues.append(dict(what='best-tree-not-detached', ev=i, nodes=g['shared_nodes'], arrays=g['shared_arrays']))
        for j, (tv, a) in enumerate(zip(g['vals'], snap['pop'])):
            cv = clipv(tv)
            if cv.shape != a['real'].shape or not np.array_equal(cv, a['real'], equal_nan=True):
                issues.append(dict(what='agent-tree-value', ev=i, agent=j, tree=cv.tolist(), agent_pos=a['real'].tolist()))
                break
            if fnum(of(a['real'])) != fnum(a['fit']) and not (fnum(a['fit']) != fnum(a['fit'])):
                issues.append(dict(what='agent-fitness', ev=i, agent=j))
                break
    return issues, stats


def oracle_c08(rec):
    cfg = rec['cfg']
    issues, stats = [], dict(forests=0, trees=0)
    if cfg['kind'] != 'GP':
        return issues, stats
    pts = [(i, e['gp']) for i, e in enumerate(rec['events']) if e['t'] == 'dump' and e.get('gp')]
    if rec.get('final_gp') is not None:
        pts.append(('final', rec['final_gp']))
    # freshly grown trees (every top-level call of TreeSpace.grow during the task) are no deeper than the max_depth asked for
    for mn, mx, depth, nn in rec.get('grown') or []:
        stats['grown'] = stats.get('grown', 0) + 1
        if depth > mx:
            issues.append(dict(what='grown-too-deep', min_depth=mn, max_depth=mx, depth=depth, n_nodes=nn))
            break
    for i, g in pts:
        stats['forests'] += 1
        stats['trees'] += g['n_trees'] + 1
        if g['defects']:
            issues.append(dict(what='malformed-tree', ev=i, defects=g['defects']))
        if g['overlap']:
            issues.append(dict(what='shared-node', ev=i, overlap=g['overlap']))
        if g['n_trees'] != cfg['n_agents']:
            issues.append(dict(what='tree-count', ev=i, trees=g['n_trees']))
    return issues, stats
