"""Entry point:  check <Cxx> quick|thorough   |   check replay <file>

Exit 0: the property held on everything explored (KNOWN-FINDING lines allowed);
exit 1 with `VIOLATION property=<id> replay=<path>` otherwise; exit 2: internal error/timeout."""
import importlib, json, os, sys, time, traceback
sys.path.insert(0, os.path.dirname(os.path.abspath(__file__)))
import common, registry, findings

RUNLEVEL = ['C01', 'C02', 'C03', 'C04', 'C07', 'C12', 'C15', 'C20']
TRUST = [
    'Lean 4.33.0 kernel; axioms of every registered theorem within {propext, Classical.choice, Quot.sound} (audited by #print axioms on this run)',
    'Mathlib v4.33.0 for the real-number proofs',
    'translators harness/translate.py, translate_formulas.py, translate_loops.py with the rewriting layer inline.py (helper inlining, normal forms N1-N9; self-tested on every translation): constants, run() skeletons, evaluation / acceptance sites, guards, operator table, history rules, formula bodies (FExpr), check_limits (ClipLoop), sweeps (SweepLoop), budgets, traversals (WStmt), find_node (FProg), _properties (BfsProg), _evaluate (EvalProg), grow (GrowProg), _mutate / _cross (field writes on a heap), _reproduction (ReproLoop), tournament / Bernoulli (TournProg / BernProg), _initialize_agents (InitLoop), History.get / Opytimizer.start (frame records), attribute / bound write tables, effect sites - all regenerated from /repo on this run; the translated programs are also executed by the Lean driver against the running code on every case',
    'correspondence harness (taps, key embedding of doubles, canonicalisation, generators)',
    'CPython/NumPy semantics of the primitives the models name (np.clip, argmax, sort stability, deepcopy, pickle, hstack)',
    'IEEE-754 rounding is modelled, not verified; update arithmetic of the optimisers enters as oracle values',
]


def obligations_status(prop, build):
    """-> (n_obligations, n_discharged, broken list[(name, why)])"""
    mods, thms, missing = registry.obligations(prop)
    broken = []
    for m in missing:
        broken.append((m, 'module missing'))
    # build errors that belong to this property
    for f, msg in build.errors:
        owners, name = registry.owner_props(f, int(msg.split(':')[1]) if ':' in msg and msg.split(':')[1].isdigit() else None) \
            if f.startswith('OpyVerif/') else (sorted(registry.TABLE), None)
        if prop in owners:
            broken.append((name or f, msg[:500]))
    n = len(thms)
    if build.ok or not broken:
        # audit only when the modules of this property are built
        try:
            failed_mods = [f[:-5].replace('/', '.') for f, _ in build.errors if f.startswith('OpyVerif/') and f.endswith('.lean')]
            n2, ok, bad, out = common.audit_list(mods, thms, failed=failed_mods)
            for t, why in bad:
                broken.append((t, why))
        except Exception as ex:
            broken.append(('audit', repr(ex)[:300]))
    bad_names = {b[0] for b in broken}
    discharged = sum(1 for t in thms if t not in bad_names) if not any(b[1] == 'module missing' for b in broken) else 0
    if any(not str(b[0]).startswith('Opy') for b in broken):
        discharged = min(discharged, max(0, n - len(broken)))
    for hit in common.grep_forbidden():
        broken.append((hit[0], 'forbidden token ' + hit[1]))
    return n, discharged, broken


def main(argv):
    if len(argv) >= 2 and argv[0] == 'replay':
        return replay(argv[1])
    if len(argv) < 2 or argv[1] not in ('quick', 'thorough'):
        print('usage: check <Cxx> quick|thorough | check replay <file>')
        return 2
    prop, tier = argv[0], argv[1]
    tier = os.environ.get('VERIF_TIER') or tier
    t0 = time.time()
    violations = []       # (replay_path, found_input: bool)
    known_lines = []
    try:
        build = common.build()
        n_obl, n_ok, broken = obligations_status(prop, build)
        if prop in RUNLEVEL:
            mod = importlib.import_module('props.runlevel_props')
        else:
            mod = importlib.import_module('props.' + prop.lower())
        ctx = dict(prop=prop, tier=tier, seed=common.SEED, build=build, broken=broken)
        # 1. known findings: replay each witness
        drv = common.Driver() if os.path.exists(common.DRIVER) else None
        try:
            for f in findings.for_property(prop):
                still, det = findings.replay_witness(f, prop, drv)
                if still:
                    known_lines.append(f"KNOWN-FINDING: property={prop} {f['id']} {f['what']}")
        finally:
            if drv:
                drv.close()
        # 2. correspondence / exploration
        res = mod.check(ctx)
        issues = [i for i in res['issues'] if not i.get('known')]
        known_seen = {}
        for i in res['issues']:
            if i.get('known'):
                known_seen[i['known']] = known_seen.get(i['known'], 0) + 1
        # 3. broken obligation or correspondence -> failing-input search
        corr_broken = [i for i in issues if i.get('layer') == 'correspondence']
        direct = [i for i in issues if i.get('layer') != 'correspondence']
        if direct:
            i = direct[0]
            path = common.write_replay(prop, i.get('what', 'issue'), dict(kind='failing-input', issue=i, replay=i.get('replay'),
                                                                          others=len(direct) - 1))
            violations.append((path, True))
        elif corr_broken or broken:
            found = None
            try:
                found = mod.search(ctx, corr_broken, broken)
            except Exception:
                found = None
            if found is not None and not found.get('known'):
                path = common.write_replay(prop, found.get('what', 'issue'), dict(kind='failing-input', issue=found,
                                                                                  replay=found.get('replay'),
                                                                                  triggered_by=[b[0] for b in broken] + [c.get('what') for c in corr_broken]))
                violations.append((path, True))
            else:
                path = common.write_replay(prop, 'unproved', dict(
                    kind='no-failing-input-found',
                    broken_obligations=[dict(name=b[0], why=b[1]) for b in broken],
                    broken_correspondence=corr_broken[:5],
                    note='the property is no longer shown to hold: the named theorem(s) / correspondence no longer check; '
                         'the failing-input search on the real code found no concrete counterexample'))
                violations.append((path, False))
        cov = dict(res.get('coverage', {}))
        cov.setdefault('obligations', n_obl)
        cov['obligations'] = n_obl
        cov['discharged'] = n_ok if not broken else min(n_ok, n_obl - 1 if n_obl else 0)
        cov['checker_cmd'] = 'cd /verif/lean && lake build OpyVerif.All driver && lake env lean <Audit_%s.lean with #print axioms of every registered theorem>' % prop
        cov['trusted_base'] = TRUST
        cov['known_findings_seen'] = known_seen
        cov['broken_obligations'] = [b[0] for b in broken]
        if tier == 'thorough' and not broken:
            cov['leanchecker'] = common.leanchecker(registry.obligations(prop)[0])
            if cov['leanchecker'].get('ok') is False:
                path = common.write_replay(prop, 'leanchecker', dict(kind='no-failing-input-found', leanchecker=cov['leanchecker']))
                violations.append((path, False))
        common.write_evidence(prop, tier, 'proof', cov, res.get('assumptions', []), time.time() - t0, len(violations))
        for l in known_lines:
            print(l)
        for path, found in violations:
            print(f'VIOLATION property={prop} replay={path}' + ('' if found else ' no-failing-input-found'))
        print(f'{prop} {tier} seed={common.SEED}: obligations {cov["discharged"]}/{n_obl}, '
              f'{cov.get("evaluations", 0)} cases, {len(violations)} violation(s), {time.time() - t0:.1f}s')
        return 1 if violations else 0
    except Exception:
        traceback.print_exc()
        return 2
    finally:
        common.rm_scratch()


def replay(path):
    r = json.load(open(path))
    prop = r['property']
    try:
        common.build()
        if prop in RUNLEVEL:
            mod = importlib.import_module('props.runlevel_props')
        else:
            mod = importlib.import_module('props.' + prop.lower())
        if r.get('kind') == 'no-failing-input-found':
            print('no concrete input recorded; re-run the check:', r.get('broken_obligations'))
            return 1
        still = mod.replay(prop, r.get('replay') or r.get('issue', {}).get('replay'))
        print('replay', 'still fails' if still else 'passes now', path)
        return 1 if still else 0
    except Exception:
        traceback.print_exc()
        return 2
    finally:
        common.rm_scratch()


if __name__ == '__main__':
    sys.exit(main(sys.argv[1:]))
