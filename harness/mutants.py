"""Parallel regression of the kept seeded changes, without touching /repo or /verif.

For every seeded/<id>: a scratch git worktree of /repo (under /tmp/opyverif_mt/<id>/repo) gets the
patch, a scratch copy of /verif (with its Lean build output, without .git/seeded/replays) runs
`VERIF_REPO=<worktree> ./check <prop> quick`, the result is written back to seeded/<id>/meta.json
(`last_regress`), and both scratch trees are removed.

usage: mutants.py [-j N] [--props C01,C02] [--also] [ids...]
  --also : additionally run the checks listed in meta['detected_by'] (other properties)
"""
import json, os, shutil, subprocess, sys, time
from concurrent.futures import ThreadPoolExecutor

SEEDED = '/verif/seeded'
ROOT = '/tmp/opyverif_mt'


def sh(cmd, cwd=None, env=None, timeout=3600):
    p = subprocess.run(cmd, shell=True, cwd=cwd, env=env, capture_output=True, text=True, timeout=timeout)
    return p.returncode, p.stdout + p.stderr


def one(i, also=False, patch=None, props=None):
    d = os.path.join(SEEDED, i)
    meta = {}
    if os.path.exists(os.path.join(d, 'meta.json')):
        meta = json.load(open(os.path.join(d, 'meta.json')))
    patch = patch or os.path.join(d, 'patch.diff')
    props = props or [meta['property']] + ([p for p in meta.get('detected_by', {}) if p != meta['property']] if also else [])
    base = os.path.join(ROOT, i)
    shutil.rmtree(base, ignore_errors=True)
    os.makedirs(base)
    wt, vf = os.path.join(base, 'repo'), os.path.join(base, 'verif')
    out = {}
    try:
        rc, o = sh(f'git -C /repo worktree add --detach {wt} HEAD')
        assert rc == 0, o
        rc, o = sh(f'git apply {patch}', cwd=wt)
        if rc != 0:
            return i, {'error': 'patch does not apply: ' + o[-200:]}
        sh(f'rsync -a --exclude .git --exclude seeded --exclude replays --exclude .work /verif/ {vf}/')
        env = dict(os.environ, VERIF_REPO=wt)
        for p in props:
            t0 = time.time()
            rc, o = sh(f'./check {p} quick', cwd=vf, env=env)
            lines = [l for l in o.splitlines() if l.startswith('VIOLATION')]
            det = rc == 1 and bool(lines)
            how = None
            if det:
                how = 'no-failing-input-found' if all(l.rstrip().endswith('no-failing-input-found') for l in lines) else 'failing-input'
            what = None
            for l in lines:
                if 'replay=' in l:
                    rp = l.split('replay=')[1].split()[0]
                    rp = rp.replace('/verif/', vf + '/') if not os.path.exists(rp) or rp.startswith('/verif/') else rp
                    try:
                        r = json.load(open(rp))
                        what = (r.get('issue') or {}).get('what') or [b.get('name') for b in r.get('broken_obligations', [])][:3]
                    except Exception:
                        pass
                    break
            rex = None
            if det and how == 'failing-input':
                for l in lines:
                    if 'replay=' in l and not l.rstrip().endswith('no-failing-input-found'):
                        rp = l.split('replay=')[1].split()[0]
                        rp = rp.replace('/verif/', vf + '/') if rp.startswith('/verif/') else rp
                        rex = sh(f'./check replay {rp}', cwd=vf, env=env)[0]
                        break
            out[p] = dict(exit=rc, detected=det, how=how, what=what, replay_exit=rex, line=lines[0] if lines else None,
                          tail=None if det else o.strip().splitlines()[-3:], wall=round(time.time() - t0, 1))
    except Exception as ex:
        out['error'] = repr(ex)
    finally:
        sh(f'git -C /repo worktree remove --force {wt}')
        shutil.rmtree(base, ignore_errors=True)
    return i, out


def main():
    args = sys.argv[1:]
    j, also, props = 8, False, None
    ids = []
    while args:
        a = args.pop(0)
        if a == '-j':
            j = int(args.pop(0))
        elif a == '--also':
            also = True
        elif a == '--props':
            props = args.pop(0).split(',')
        else:
            ids.append(a)
    ids = ids or sorted(os.listdir(SEEDED))
    os.makedirs(ROOT, exist_ok=True)
    missed = []
    with ThreadPoolExecutor(j) as ex:
        for i, out in ex.map(lambda i: one(i, also, props=props), ids):
            mp = os.path.join(SEEDED, i, 'meta.json')
            meta = json.load(open(mp))
            meta['last_regress'] = out
            if 'error' not in out:
                for p, r in out.items():
                    meta.setdefault('detected_by', {})[p] = r['detected']
            json.dump(meta, open(mp, 'w'), indent=1)
            own = out.get(meta['property'], {})
            print(i, {p: ((r.get('how') + ('' if r.get('replay_exit') in (None, 1) else ' REPLAY-EXIT=%s' % r.get('replay_exit'))) if r.get('how') else ('MISSED exit=%s' % r.get('exit'))) if isinstance(r, dict) else r for p, r in out.items()}, flush=True)
            if not own.get('detected'):
                missed.append(i)
    sh('git -C /repo worktree prune')
    try:
        os.rmdir(ROOT)        # only when empty: other mutants.py runs may be working under it
    except OSError:
        pass
    print('missed:', missed)


if __name__ == '__main__':
    main()
