"""Self-test of the behaviour-preserving normal forms and of the inliner (harness/inline.py): small functions are
normalised as the translators would see them, both versions are executed on the same inputs, and the results (values,
exceptions, final state of mutable arguments) must agree.  Cases where a side condition fails check that the rewrite
is *not* applied.  Run by translate.py on every run: a normal form that changes behaviour stops the translation."""
import ast, copy, itertools
import inline

CASES = r'''
def n1_guard(xs):
    out = []
    for x in xs:
        if x % 3 == 0:
            continue
        out.append(x * 2)
    return out

def n12_guard_work(xs):
    out = []
    for x in xs:
        if x % 3 == 0:
            out.append(-x)
            continue
        y = x * 2
        out.append(y)
    return out

def n13_index_only(xs):
    out = list(xs)
    for j in range(len(out)):
        out[j] = out[j] * 2 + j
    return out

def n13_resized(xs):
    out = list(xs)
    for j in range(len(out)):
        if j == 0:
            out.append(7)
    return out

def n14_ifexp(xs, p):
    out = [None] * len(xs)
    for i, x in enumerate(xs):
        out[i] = 1 if x < p else 0
    return out

class _Ops:
    def __init__(self):
        self.log = []
    def a(self, x):
        self.log.append(('a', x))
    def b(self, x):
        self.log.append(('b', x))

def n15_names(x):
    o = _Ops()
    for name in ('a', 'b', 'a'):
        getattr(o, name)(x)
    return o.log

def n3_temp_append(xs):
    out = []
    for x in xs:
        y = (x, x * 2)
        out.append(y)
    return out

def n2_counter(xs):
    acc = []
    k = 0
    for x in xs:
        acc.append((k, x))
        k += 1
    return acc

def n2_counter_read_after(xs):
    k = 0
    for x in xs:
        k += 1
    return k

def n10_index(xs):
    out = []
    for i in range(len(xs)):
        x = xs[i]
        out.append((i, x))
    return out

def n10_resized(xs):
    out = []
    for i in range(len(xs)):
        x = xs[i]
        if x == 1:
            xs.append(9)
        out.append(x)
    return out

def n11_two(xs, ys):
    acc = 0
    for i in range(min(len(xs), len(ys))):
        a, b = xs[i], ys[i]
        acc += a * b
    return acc

def n3_temp(d, v):
    t = v * 2 + 1
    d['a'] = t
    return d

def n3_temp_return(v):
    t = [v, v + 1]
    return t

def n4_listloop(xs):
    out = []
    for v in xs:
        out.append(v * v)
    return out

def n4_two_loops(xs, ys):
    a = []
    for v in xs:
        a.append(v + 1)
    b = []
    for v in ys:
        b.append(v - 1)
    return a, b

def n5_flag(xs):
    i = 0
    total = 0
    go = True
    while go:
        total += xs[i]
        i += 1
        go = i != len(xs)
    return total

def n6_jump_branch(x):
    if not isinstance(x, int):
        raise TypeError('int')
    elif x <= 0:
        raise ValueError('pos')
    else:
        y = x + 1
    return y

def n7_jump_else(x):
    if isinstance(x, list):
        y = len(x)
    else:
        raise TypeError('list')
    return y

def n9_tuple_loop(p, q):
    out = []
    for c in (p.real, q.imag):
        if c is not None:
            out.append(c)
    return out

def early_nested(x):
    if x > 10:
        return 'big'
    elif x > 5:
        if x == 7:
            return 'seven'
    return 'small'
'''

HELPERS = r'''
def _pick(x):
    if x > 10:
        return 'big', 1
    if x > 5:
        return 'mid', 2
    return 'small', 3

def _chain(x):
    a = x + 1
    return a * 2

def uses_return(x):
    return _pick(x)

def uses_assign(x):
    name, code = _pick(x)
    return name + str(code)

def uses_arg(x, out):
    out.append(_pick(x))
    return out

def _guarded(xs, k):
    try:
        return xs[k]
    except IndexError:
        return None

def uses_try(xs, k):
    v = _guarded(xs, k)
    return (v, len(xs))

def uses_chain(x):
    return _chain(x) + _chain(x + 1)

def _replace(store, item):
    n = len(item)
    if n > 1:
        m = n * 2
        return item + [m]
    return [0]

def uses_slot(rows, k):
    rows[k] = _replace(rows, rows[k])
    return rows
'''

INPUTS = {
    'n1_guard': [([],), ([1, 2, 3, 4, 5, 6, 9],)],
    'n2_counter': [([],), (['a', 'b', 'c'],)],
    'n3_temp_append': [([],), ([1, 2, 3],)],
    'n15_names': [(1,), ('z',)],
    'n13_index_only': [([],), ([1, 2, 3],)],
    'n13_resized': [([],), ([1, 2, 3],)],
    'n14_ifexp': [([], 1), ([1, 2, 3, float('nan')], 2)],
    'n12_guard_work': [([],), ([1, 2, 3, 4, 5, 6, 9],)],
    'n2_counter_read_after': [([],), ([1, 2, 3],)],
    'n10_index': [([],), (['a', 'b'],)],
    'n10_resized': [([1, 2],), ([],)],
    'n11_two': [([1, 2, 3], [4, 5]), ([], [1])],
    'n3_temp': [({}, 3), ({'a': 0}, -1)],
    'n3_temp_return': [(1,), (5,)],
    'n4_listloop': [([],), ([1, 2, 3],)],
    'n4_two_loops': [([1, 2], [3]), ([], [])],
    'n5_flag': [([4],), ([1, 2, 3],)],
    'n6_jump_branch': [(3,), (0,), ('x',), (-2,)],
    'n7_jump_else': [([1, 2],), (3,)],
    'n9_tuple_loop': [(1 + 2j, 3 + 4j), (0j, 1j)],
    'early_nested': [(11,), (7,), (6,), (1,)],
    'uses_return': [(11,), (7,), (1,)],
    'uses_assign': [(11,), (7,), (1,)],
    'uses_arg': [(11, []), (1, ['z'])],
    'uses_chain': [(1,), (-3,)],
    'uses_slot': [([[1, 2], [3]], 0), ([[1, 2], [3]], 1), ([[1]], 4)],
    'uses_try': [([1, 2], 1), ([1, 2], 5), ([], 0)],
}


def _run(ns, name, args):
    args = copy.deepcopy(args)
    try:
        r = ('ok', repr(ns[name](*args)))
    except Exception as ex:
        r = ('raise', type(ex).__name__, str(ex))
    return r, repr(args)


def run():
    problems = []
    # normal forms
    tree = ast.parse(CASES)
    norm = inline.normalise_tree(copy.deepcopy(tree))
    ns0, ns1 = {}, {}
    exec(compile(tree, 'orig', 'exec'), ns0)
    exec(compile(ast.fix_missing_locations(norm), 'norm', 'exec'), ns1)
    changed = 0
    for f0, f1 in zip([f for f in tree.body if isinstance(f, ast.FunctionDef)], [f for f in norm.body if isinstance(f, ast.FunctionDef)]):
        if ast.dump(f0) != ast.dump(f1):
            changed += 1
        for args in INPUTS[f0.name]:
            if _run(ns0, f0.name, args) != _run(ns1, f0.name, args):
                problems.append(('normal-form', f0.name, args))
    # the counter that is read after the loop must be left alone (enumerate would leave it one short / unbound)
    f1 = next(f for f in norm.body if f.name == 'n2_counter_read_after')
    if 'enumerate' in ast.unparse(f1):
        problems.append(('side-condition', 'n2_counter_read_after rewritten', None))
    f1 = next(f for f in norm.body if f.name == 'n10_resized')
    if 'range' not in ast.unparse(f1):
        problems.append(('side-condition', 'n10_resized rewritten', None))
    f1 = next(f for f in norm.body if f.name == 'n13_resized')
    if 'enumerate' in ast.unparse(f1):
        problems.append(('side-condition', 'n13_resized rewritten', None))
    f1 = next(f for f in norm.body if f.name == 'n13_index_only')
    if 'enumerate' not in ast.unparse(f1):
        problems.append(('coverage', 'n13_index_only not rewritten', None))
    f1 = next(f for f in norm.body if f.name == 'n14_ifexp')
    if ' if x < p else ' in ast.unparse(f1):
        problems.append(('coverage', 'n14_ifexp not rewritten', None))
    f1 = next(f for f in norm.body if f.name == 'n15_names')
    if 'getattr' in ast.unparse(f1):
        problems.append(('coverage', 'n15_names not rewritten', None))
    f1 = next(f for f in norm.body if f.name == 'n11_two')
    if 'zip' not in ast.unparse(f1):
        problems.append(('coverage', 'n11_two not rewritten', None))
    if changed < 8:
        problems.append(('coverage', f'only {changed} of the sample functions were rewritten', None))
    # inliner on value-returning helpers
    htree = ast.parse(HELPERS)
    helpers = {f.name: (f, None) for f in htree.body if f.name.startswith('_')}
    inl = inline._Inliner(helpers, '')
    new = copy.deepcopy(htree)
    for f in new.body:
        if isinstance(f, ast.FunctionDef) and not f.name.startswith('_'):
            inl.taken = frozenset(n.id for n in ast.walk(f) if isinstance(n, ast.Name)) | frozenset(a.arg for a in f.args.args)
            f.body = inline._flatten([inl.visit(s) for s in f.body])
    new.body = [f for f in new.body if not f.name.startswith('_')]      # the helpers are gone: every call must have been inlined
    ns0, ns1 = {}, {}
    exec(compile(htree, 'orig', 'exec'), ns0)
    try:
        exec(compile(ast.fix_missing_locations(new), 'inl', 'exec'), ns1)
        for f in new.body:
            for args in INPUTS[f.name]:
                if _run(ns0, f.name, args) != _run(ns1, f.name, args):
                    problems.append(('inliner', f.name, args))
    except Exception as ex:
        problems.append(('inliner', 'does not compile / run', repr(ex)))
    if inl.count < 5:
        problems.append(('coverage', f'inliner applied {inl.count} times', None))
    return problems


if __name__ == '__main__':
    p = run()
    print('problems:', p)
    raise SystemExit(1 if p else 0)
