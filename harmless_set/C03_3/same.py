import hashlib
import warnings

import numpy as np

warnings.simplefilter('ignore')

from opytimizer.core.function import Function
from opytimizer.spaces.search import SearchSpace

_H = hashlib.sha256()
_N = [0]


def feed(x):
    """Feeds any (nested) value into the running digest, floats as float.hex()."""
    _N[0] += 1
    if isinstance(x, np.ndarray):
        _H.update(('A%s%s[' % (x.dtype, x.shape)).encode())
        for v in x.ravel().tolist():
            feed(v)
        _H.update(b']')
    elif isinstance(x, (bool, np.bool_)):
        _H.update(('b%d;' % bool(x)).encode())
    elif isinstance(x, (float, np.floating)):
        _H.update(('f' + float(x).hex() + ';').encode())
    elif isinstance(x, (int, np.integer)):
        _H.update(('i%d;' % int(x)).encode())
    elif isinstance(x, str):
        _H.update(('s' + x + ';').encode())
    elif x is None:
        _H.update(b'N;')
    elif isinstance(x, (list, tuple)):
        _H.update(b'(')
        for v in x:
            feed(v)
        _H.update(b')')
    elif isinstance(x, dict):
        _H.update(b'{')
        for k in x:
            feed(k)
            feed(x[k])
        _H.update(b'}')
    else:
        _H.update(('o' + type(x).__name__ + ';').encode())


def rng_state():
    s = np.random.get_state()
    return [s[0], hashlib.sha256(s[1].tobytes()).hexdigest(), int(s[2]), int(s[3]), float(s[4])]


def sphere(x):
    return np.sum(x ** 2)


def shifted(x):
    return np.sum((x - 0.3) ** 2) - 1.0


def rastrigin(x):
    return float(np.sum(x ** 2 - 10 * np.cos(2 * np.pi * x) + 10))


def constant(x):
    return 1.0


def negsum(x):
    return -np.sum(x)


def nan_some(x):
    s = np.sum(x)
    return float('nan') if s > 0.5 else float(s)


def make_space(seed, n_agents, n_variables, n_iterations, lb, ub):
    np.random.seed(seed)
    return SearchSpace(n_agents=n_agents, n_variables=n_variables, n_iterations=n_iterations,
                       lower_bound=lb, upper_bound=ub)


def snapshot_space(space):
    feed([[a.position, a.fit] for a in space.agents])
    feed([space.best_agent.position, space.best_agent.fit])


def traced(fn, trace):
    def objective(x):
        trace.append(('eval', np.array(x, copy=True)))
        return fn(x)
    return objective


def feed_history(hist):
    feed(sorted(hist.__dict__.keys()))
    for k in sorted(hist.__dict__.keys()):
        feed(hist.__dict__[k])

from opytimizer.optimizers.hc import HC


def run_case(seed, hyper, fn, n_agents, n_variables, n_iterations, lb, ub, store_best_only=False, hook_kind=None):
    feed(['case', seed, sorted(hyper.items()), fn.__name__, n_agents, n_variables, n_iterations, store_best_only, str(hook_kind)])
    trace = []
    try:
        space = make_space(seed, n_agents, n_variables, n_iterations, lb, ub)
        opt = HC(hyperparams=dict(hyper))
        func = Function(pointer=traced(fn, trace))
        ids = [id(a) for a in space.agents]
        pos_ids = [id(a.position) for a in space.agents]
        hook = None
        if hook_kind == 'record':
            def hook(o, s, f):
                trace.append(('hook', [a.position.copy() for a in s.agents], rng_state()))
        elif hook_kind == 'mutate':
            def hook(o, s, f):
                trace.append(('hook', len(trace)))
                s.agents[0].position = s.agents[0].position * 0.5
                np.random.uniform()
        elif hook_kind == 'raise':
            calls = [0]

            def hook(o, s, f):
                calls[0] += 1
                trace.append(('hook', calls[0]))
                if calls[0] == 3:
                    raise KeyError('hook')
        hist = opt.run(space, func, store_best_only=store_best_only, pre_evaluation_hook=hook)
        feed_history(hist)
        snapshot_space(space)
        feed([id(a) for a in space.agents] == ids)
        feed([id(a.position) == p for a, p in zip(space.agents, pos_ids)])
        feed([opt.r_mean, opt.r_var])
    except Exception as ex:  # noqa
        feed(['EXC', type(ex).__name__, str(ex)])
    feed(trace)
    feed(rng_state())


def update_case(seed, hyper, agents_kind):
    feed(['update', seed, sorted(hyper.items()), agents_kind])
    try:
        space = make_space(seed, 4, 3, 5, [-1, -2, -3], [1, 2, 3])
        opt = HC(hyperparams=dict(hyper))
        before = [a.position for a in space.agents]
        if agents_kind == 'list':
            arg = space.agents
        elif agents_kind == 'tuple':
            arg = tuple(space.agents)
        elif agents_kind == 'gen':
            arg = (a for a in space.agents)
        elif agents_kind == 'empty':
            arg = []
        elif agents_kind == 'repeat':
            arg = [space.agents[0], space.agents[0], space.agents[1]]
        elif agents_kind == 'none':
            arg = None
        elif agents_kind == 'bad':
            arg = [space.agents[0], 3.0, space.agents[1]]
        elif agents_kind == 'intpos':
            space.agents[1].position = np.zeros((3, 1), dtype=int)
            before = [a.position for a in space.agents]
            arg = space.agents
        ret = opt._update(arg)
        feed(ret)
        feed([a.position is b for a, b in zip(space.agents, before)])
    except Exception as ex:  # noqa
        feed(['EXC', type(ex).__name__, str(ex)])
    snapshot_space(space)
    feed(rng_state())


for seed in (0, 1, 2, 12345):
    run_case(seed, {}, sphere, 5, 3, 6, [-5, -5, -5], [5, 5, 5])
    run_case(seed, {'r_mean': 0.25, 'r_var': 2}, rastrigin, 3, 2, 4, [-1, 0], [1, 0.5], store_best_only=True)
    run_case(seed, {'r_mean': -1, 'r_var': 0}, shifted, 1, 1, 3, [0], [1], hook_kind='record')
    run_case(seed, {'r_var': 0.5}, negsum, 4, 2, 5, [-1, -1], [1, 1], hook_kind='mutate')
    run_case(seed, {}, nan_some, 6, 2, 4, [-1, -1], [1, 1], hook_kind='record')
run_case(7, {}, constant, 2, 2, 1, [0, 0], [0, 0])
run_case(7, {}, sphere, 3, 2, 5, [-1, -1], [1, 1], hook_kind='raise')
run_case(7, {'r_var': -1}, sphere, 3, 2, 5, [-1, -1], [1, 1])
run_case(7, {'r_mean': 'x'}, sphere, 3, 2, 5, [-1, -1], [1, 1])
run_case(8, {'r_var': 1e308}, sphere, 3, 2, 3, [-1e308, -1e308], [1e308, 1e308])
for kind in ('list', 'tuple', 'gen', 'empty', 'repeat', 'none', 'bad', 'intpos'):
    for seed in (3, 4):
        update_case(seed, {'r_mean': 0.5, 'r_var': 0.3}, kind)

print('items', _N[0])
print(_H.hexdigest())
