"""Exercises opytimizer.math.general.tournament_selection (and neighbours) on
seeded inputs and prints a digest as the last line."""

import hashlib

import numpy as np

import opytimizer.math.general as g
import opytimizer.utils.constants as c

h = hashlib.sha256()


def rec(*items):
    for it in items:
        if isinstance(it, (float, np.floating)):
            h.update(float(it).hex().encode())
        else:
            h.update(repr(it).encode())
        h.update(b'|')


def attempt(tag, fn):
    try:
        out = fn()
        rec(tag, 'ok', [int(i) for i in out], [type(i).__name__ for i in out])
    except BaseException as ex:  # noqa
        rec(tag, 'exc', type(ex).__name__, str(ex))
    # the state of the global stream after the call is part of the behaviour
    rec(tag, 'stream', float(np.random.uniform()))


cases = {
    'distinct': [3.5, 1.25, 9.0, -2.0, 0.0, 7.75, 4.5],
    'ties': [1.0, 1.0, 2.0, 2.0, 1.0, 3.0],
    'single': [42.0],
    'ints': [5, 4, 3, 2, 1],
    'nan': [1.0, float('nan'), 0.5, float('nan')],
    'inf': [float('inf'), -float('inf'), 0.0],
    'array': np.array([0.3, 0.1, 0.2, 0.1]),
    'column': np.array([[0.3], [0.1], [0.2]]),
    'empty': [],
}

for seed in (0, 1, 7, 12345):
    for name, fit in cases.items():
        for n in (0, 1, 2, 5, 13):
            np.random.seed(seed)
            attempt(f'{seed}/{name}/{n}', lambda: g.tournament_selection(fit, n))

# Bad `n`
for bad in (-1, 2.5, None, '3'):
    np.random.seed(3)
    attempt(f'badn/{bad!r}', lambda: g.tournament_selection([1.0, 2.0, 3.0], bad))

# Other tournament sizes (read from the constants module at call time)
old = c.TOURNAMENT_SIZE
for ts in (1, 3, 0):
    c.TOURNAMENT_SIZE = ts
    np.random.seed(11)
    attempt(f'ts/{ts}', lambda: g.tournament_selection([4.0, 3.0, 2.0, 1.0], 6))
c.TOURNAMENT_SIZE = old

# Larger seeded population
np.random.seed(99)
fit = list(np.random.uniform(0, 10, 50))
attempt('big', lambda: g.tournament_selection(fit, 40))

# Neighbouring helpers in the same module
rec('dist', g.euclidean_distance(np.array([1.0, 2.0, 3.5]), np.array([0.5, -1.0, 2.0])))
rec('pairs', list(g.pairwise([1, 2, 3, 4, 5])))

print(h.hexdigest())
