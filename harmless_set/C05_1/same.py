"""Exercises space construction and limit enforcement on seeded inputs and prints a digest.

Run as: cd <worktree> && PYTHONPATH=<worktree> /venv/bin/python harmlessX/same.py
The last printed line is a sha256 digest that must not depend on the refactoring.
"""

import hashlib
import os
import warnings

import numpy as np

warnings.filterwarnings('ignore')
np.seterr(all='ignore')

from opytimizer import Opytimizer
from opytimizer.core.agent import Agent
from opytimizer.core.function import Function
from opytimizer.core.space import Space
from opytimizer.optimizers.pso import PSO
from opytimizer.spaces.hyper import HyperSpace
from opytimizer.spaces.search import SearchSpace
from opytimizer.spaces.tree import TreeSpace

H = hashlib.sha256()
N_ITEMS = [0]


def put(*items):
    """Feeds anything (recursively) into the digest."""

    for it in items:
        N_ITEMS[0] += 1
        if isinstance(it, np.ndarray):
            H.update(b'A' + str(it.shape).encode() + str(it.dtype).encode())
            for v in it.ravel().tolist():
                put(v)
        elif isinstance(it, (float, np.floating)):
            H.update(b'F' + float(it).hex().encode())
        elif isinstance(it, (list, tuple)):
            H.update(b'L%d' % len(it))
            for v in it:
                put(v)
        else:
            H.update(b'O' + repr(it).encode())
        H.update(b';')


def rng_state():
    """Digest of the global random stream position."""

    st = np.random.get_state()
    return hashlib.sha256(st[1].tobytes() + str(st[2:]).encode()).hexdigest()


def put_agent(a):
    put(a.n_variables, a.n_dimensions, a.position, a.fit, a.lb, a.ub)


def put_space(s):
    put(type(s).__name__, s.n_agents, s.n_variables, s.n_dimensions, s.n_iterations, s.lb, s.ub, s.built)
    put(len(s.agents))
    for a in s.agents:
        put_agent(a)
    put_agent(s.best_agent)
    # Aliasing that is visible from the outside
    put(s.best_agent is s.agents[0])
    put(any(a.lb is s.lb or a.ub is s.ub for a in s.agents))
    put(len({id(a) for a in s.agents}), len({id(a.position) for a in s.agents}),
        len({id(a.lb) for a in s.agents}), len({id(a.ub) for a in s.agents}))
    put(any(np.shares_memory(a.position, s.best_agent.position) for a in s.agents))
    put(rng_state())


def attempt(label, fn):
    """Runs `fn` and records its result or the exception type and message."""

    put(label)
    try:
        res = fn()
        put('ok', res)
    except BaseException as ex:  # noqa
        put('exc', type(ex).__module__, type(ex).__name__, str(ex))
        if os.environ.get('SAME_VERBOSE'):
            print('  [%s] %s: %s' % (label, type(ex).__name__, ex))
    put(rng_state())


NASTY = [np.nan, np.inf, -np.inf, -0.0, 0.0, 1e308, -1e308, 5e-324, 1.0, -1.0, 0.5, 2.0, -3.5]


def perturb(s, seed):
    """Overwrites the agents' positions with out-of-bounds / special values."""

    g = np.random.RandomState(seed)
    for a in s.agents:
        shape = a.position.shape
        vals = g.uniform(-20, 20, size=shape)
        mask = g.uniform(size=shape) < 0.4
        nasty = g.choice(NASTY, size=shape)
        a.position = np.where(mask, nasty, vals)


# --------------------------------------------------------------------------- SearchSpace
SEARCH_CONFIGS = [
    dict(n_agents=1, n_variables=1, n_iterations=1, lower_bound=[0], upper_bound=[1]),
    dict(n_agents=3, n_variables=2, n_iterations=5, lower_bound=[-10, -5.5], upper_bound=[10, 7.25]),
    dict(n_agents=5, n_variables=4, n_iterations=2, lower_bound=[0, 1, 2, 3], upper_bound=[0, 1.5, 2, 30]),
    dict(n_agents=2, n_variables=3, n_iterations=3, lower_bound=[-1e300, -1e-300, 0], upper_bound=[1e300, 1e-300, 1e-320]),
    dict(n_agents=4, n_variables=2, n_iterations=3, lower_bound=(1, 2), upper_bound=np.array([3, 4])),
    dict(n_agents=2, n_variables=2, n_iterations=3, lower_bound=[5, 5], upper_bound=[1, 1]),
    dict(n_agents=2, n_variables=2, n_iterations=3, lower_bound=[1.5, -2.5], upper_bound=[3, 4]),
]

for seed in (0, 1, 12345):
    for k, cfg in enumerate(SEARCH_CONFIGS):
        np.random.seed(seed + 17 * k)
        s = SearchSpace(**cfg)
        put('search', seed, k)
        put_space(s)
        # limits
        perturb(s, seed + k)
        positions_before = [a.position for a in s.agents]
        s.check_limits()
        put([a.position is p for a, p in zip(s.agents, positions_before)])
        put_space(s)
        # agent-level limits on the same kind of data
        perturb(s, seed + k + 100)
        for a in s.agents:
            put(a.check_limits())
        put_space(s)
        # re-initialisation consumes the stream in the same order
        put(s._initialize_agents())
        put_space(s)

# Integer bounds give integer lb/ub arrays on the space but float ones on agents
np.random.seed(7)
s = SearchSpace(n_agents=2, n_variables=2, lower_bound=[1, 2], upper_bound=[3, 4])
put(str(s.lb.dtype), str(s.agents[0].lb.dtype), s.agents[0].lb, s.agents[1].ub)

# Failing constructions
attempt('search-size-lb', lambda: SearchSpace(n_agents=2, n_variables=2, lower_bound=[0], upper_bound=[1, 1]))
attempt('search-size-ub', lambda: SearchSpace(n_agents=2, n_variables=2, lower_bound=[0, 0], upper_bound=[1]))
attempt('search-scalar', lambda: SearchSpace(n_agents=2, n_variables=1, lower_bound=0, upper_bound=1))
attempt('search-agents0', lambda: SearchSpace(n_agents=0))
attempt('search-agents-float', lambda: SearchSpace(n_agents=2.0))
attempt('search-vars0', lambda: SearchSpace(n_variables=0))
attempt('search-str', lambda: SearchSpace(n_agents=1, n_variables=1, lower_bound=['a'], upper_bound=[1]))
attempt('search-nan', lambda: put_space(SearchSpace(n_agents=2, n_variables=2, lower_bound=[np.nan, 0], upper_bound=[1, np.nan])))
attempt('search-inf', lambda: put_space(SearchSpace(n_agents=2, n_variables=1, lower_bound=[-np.inf], upper_bound=[np.inf])))
attempt('search-2d', lambda: put_space(SearchSpace(n_agents=2, n_variables=2, lower_bound=[[0, 0], [0, 0]], upper_bound=[[1, 1], [1, 1]])))

# Bounds narrowed / resized through setters after construction
np.random.seed(3)
s = SearchSpace(n_agents=3, n_variables=3, lower_bound=[-1, -2, -3], upper_bound=[1, 2, 3])
s.lb = np.array([-0.5, -0.5, -0.5])
s.ub = np.array([0.25, 0.5, 0.75])
perturb(s, 5)
s.check_limits()
put_space(s)
for a in s.agents:
    a.check_limits()
put_space(s)
s.n_variables = 2
s.lb = np.array([0.0, 0.1])
perturb(s, 6)
attempt('search-mixed-lengths', s.check_limits)
put_space(s)
attempt('search-mixed-init', s._initialize_agents)
put_space(s)
s.n_variables = 4
s.ub = np.array([1.0, 1.0, 1.0, 1.0])
s.lb = np.array([0.0, 0.0, 0.0, 0.0])
perturb(s, 8)
attempt('search-too-long-limits', s.check_limits)
put_space(s)
attempt('search-too-long-init', s._initialize_agents)
put_space(s)

# Agents replaced from outside
np.random.seed(4)
s = SearchSpace(n_agents=2, n_variables=2, lower_bound=[0, 0], upper_bound=[1, 1])
s.agents = []
attempt('search-empty-init', s._initialize_agents)
attempt('search-empty-limits', s.check_limits)
s.agents = [Agent(2, 3), object()]
attempt('search-foreign-init', s._initialize_agents)
put_agent(s.agents[0])
attempt('search-foreign-limits', s.check_limits)
put_agent(s.agents[0])
shared = Agent(2, 1)
s.agents = [shared, shared]
attempt('search-shared-init', s._initialize_agents)
put_agent(shared)

# --------------------------------------------------------------------------- HyperSpace
HYPER_CONFIGS = [
    dict(n_agents=1, n_variables=1, n_dimensions=1, n_iterations=1, lower_bound=[0], upper_bound=[1]),
    dict(n_agents=3, n_variables=2, n_dimensions=4, n_iterations=5, lower_bound=[-10, -5.5], upper_bound=[10, 7.25]),
    dict(n_agents=4, n_variables=5, n_dimensions=2, n_iterations=2, lower_bound=[0, 1, 2, 3, 4], upper_bound=[0, 1.5, 2, 30, 5]),
    dict(n_agents=2, n_variables=3, n_dimensions=8, n_iterations=2, lower_bound=[3, 2, 1], upper_bound=[1, 2, 3]),
]

for seed in (0, 2, 999):
    for k, cfg in enumerate(HYPER_CONFIGS):
        np.random.seed(seed + 31 * k)
        s = HyperSpace(**cfg)
        put('hyper', seed, k)
        put_space(s)
        perturb(s, seed + k)
        positions_before = [a.position for a in s.agents]
        s.check_limits()
        put([a.position is p for a, p in zip(s.agents, positions_before)])
        put_space(s)
        perturb(s, seed + k + 100)
        for a in s.agents:
            put(a.check_limits())
        put_space(s)
        put(s._initialize_agents())
        put_space(s)

attempt('hyper-size-lb', lambda: HyperSpace(n_agents=2, n_variables=2, lower_bound=[0], upper_bound=[1, 1]))
attempt('hyper-size-ub', lambda: HyperSpace(n_agents=2, n_variables=2, lower_bound=[0, 0], upper_bound=[1]))
attempt('hyper-scalar', lambda: HyperSpace(n_agents=2, n_variables=1, lower_bound=0, upper_bound=1))
attempt('hyper-dims0', lambda: HyperSpace(n_dimensions=0))
attempt('hyper-2d', lambda: put_space(HyperSpace(n_agents=2, n_variables=2, lower_bound=[[0, 0, 0], [0, 0, 0]], upper_bound=[[1], [1]])))

# lb / ub of different lengths (n_variables changed in between), and longer than the positions
np.random.seed(11)
s = HyperSpace(n_agents=3, n_variables=3, n_dimensions=2, lower_bound=[0, 0, 0], upper_bound=[1, 1, 1])
s.n_variables = 2
s.lb = np.array([0.0, 0.0])
perturb(s, 1)
attempt('hyper-short-lb', s.check_limits)
put_space(s)
s.n_variables = 1
s.ub = np.array([1.0])
perturb(s, 2)
attempt('hyper-short-ub', s.check_limits)
put_space(s)
s.n_variables = 5
s.lb = np.zeros(5)
s.ub = np.ones((5, 2))
perturb(s, 3)
attempt('hyper-too-long', s.check_limits)
put_space(s)
s.agents = []
attempt('hyper-empty-limits', s.check_limits)
attempt('hyper-empty-init', s._initialize_agents)
s.agents = [Agent(2, 2), 'x']
attempt('hyper-foreign-limits', s.check_limits)
put_agent(s.agents[0])

# --------------------------------------------------------------------------- TreeSpace
TREE_CONFIGS = [
    dict(n_trees=1, n_terminals=1, n_variables=1, n_iterations=1, min_depth=1, max_depth=1, functions=[],
         lower_bound=[0], upper_bound=[1]),
    dict(n_trees=3, n_terminals=2, n_variables=2, n_iterations=3, min_depth=1, max_depth=3, functions=['SUM', 'MUL'],
         lower_bound=[-10, -5.5], upper_bound=[10, 7.25]),
    dict(n_trees=4, n_terminals=5, n_variables=3, n_iterations=3, min_depth=2, max_depth=5,
         functions=['SUM', 'SUB', 'MUL', 'DIV', 'EXP', 'SQRT', 'LOG', 'ABS'],
         lower_bound=[0, 1, 2], upper_bound=[0, 1.5, 20]),
]


def put_tree(n):
    if n is None:
        put(None)
        return
    put(n.name, n.type, n.flag)
    if n.type == 'TERMINAL':
        put(n.value)
    put_tree(n.left)
    put_tree(n.right)


for seed in (0, 5, 77):
    for k, cfg in enumerate(TREE_CONFIGS):
        np.random.seed(seed + 13 * k)
        s = TreeSpace(**cfg)
        put('tree', seed, k)
        put_space(s)
        for t in s.trees:
            put_tree(t)
        put_tree(s.best_tree)
        for t in s.terminals:
            put_agent(t)
        perturb(s, seed + k)
        for a in s.agents:
            put(a.check_limits())
        put_space(s)
        put(s._initialize_agents())
        put_space(s)

attempt('tree-size-lb', lambda: TreeSpace(n_trees=2, n_variables=2, lower_bound=[0], upper_bound=[1, 1]))
attempt('tree-size-ub', lambda: TreeSpace(n_trees=2, n_variables=2, lower_bound=[0, 0], upper_bound=[1]))
attempt('tree-trees0', lambda: TreeSpace(n_trees=0))
attempt('tree-depth', lambda: TreeSpace(min_depth=3, max_depth=2))
np.random.seed(21)
s = TreeSpace(n_trees=2, n_terminals=2, n_variables=2, functions=['SUM'], lower_bound=[0, 0], upper_bound=[1, 1])
s.n_variables = 3
s.lb = np.zeros(3)
s.ub = np.ones(3)
attempt('tree-too-long-init', s._initialize_agents)
put_space(s)
s.agents = [Agent(3, 2), None]
attempt('tree-foreign-init', s._initialize_agents)
put_agent(s.agents[0])

# --------------------------------------------------------------------------- Agent.check_limits


def agent_case(label, position, lb, ub):
    a = Agent(2, 2)
    a.position = position
    a.lb = lb
    a.ub = ub
    pos_id = id(a.position)
    attempt(label, a.check_limits)
    put(id(a.position) == pos_id)
    put(a.position if isinstance(a.position, (np.ndarray, list)) else type(a.position).__name__)
    put(a.lb if isinstance(a.lb, (np.ndarray, list)) else type(a.lb).__name__)


g = np.random.RandomState(42)
for i in range(20):
    nv, nd = int(g.randint(1, 6)), int(g.randint(1, 5))
    pos = np.where(g.uniform(size=(nv, nd)) < 0.3, g.choice(NASTY, size=(nv, nd)), g.uniform(-5, 5, size=(nv, nd)))
    lb = g.uniform(-2, 0, size=nv)
    ub = g.uniform(0, 2, size=nv)
    agent_case('agent-rand-%d' % i, pos, lb, ub)

agent_case('agent-lb>ub', np.array([[0.5, 3.0], [-7.0, 0.0]]), np.array([2.0, 1.0]), np.array([1.0, -1.0]))
agent_case('agent-nan-bounds', np.array([[0.5, 3.0], [-7.0, np.nan]]), np.array([np.nan, 0.0]), np.array([1.0, np.nan]))
agent_case('agent-inf-bounds', np.array([[0.5, np.inf], [-np.inf, 0.0]]), np.array([-np.inf, -np.inf]), np.array([np.inf, np.inf]))
agent_case('agent-short-lb', np.array([[5.0], [6.0], [7.0]]), np.array([0.0]), np.array([1.0, 1.0, 1.0]))
agent_case('agent-short-ub', np.array([[5.0], [6.0], [7.0]]), np.array([0.0, 0.0, 0.0]), np.array([1.0, 1.0]))
agent_case('agent-long-bounds', np.array([[5.0], [6.0]]), np.zeros(4), np.ones(4))
agent_case('agent-empty-bounds', np.array([[5.0], [6.0]]), np.zeros(0), np.ones(0))
agent_case('agent-list-bounds', np.array([[5.0, -5.0], [6.0, 0.5]]), [0, 0.25], (1, 0.75))
agent_case('agent-int-position', np.array([[5, -5], [6, 0]]), np.array([0.5, 0.5]), np.array([1.5, 1.5]))
agent_case('agent-list-position', [[5.0, -5.0], [6.0, 0.5]], np.array([0.0, 0.0]), np.array([1.0, 1.0]))
agent_case('agent-1d-position', np.array([5.0, -5.0, 0.5]), np.array([0.0, 0.0, 0.0]), np.array([1.0, 1.0, 1.0]))
agent_case('agent-3d-position', np.arange(-4.0, 4.0).reshape(2, 2, 2), np.array([-1.0, 0.0]), np.array([1.0, 2.0]))
agent_case('agent-scalar-lb', np.array([[5.0], [6.0]]), 0.0, np.ones(2))
agent_case('agent-0d-lb', np.array([[5.0], [6.0]]), np.array(0.0), np.ones(2))
agent_case('agent-none-ub', np.array([[5.0], [6.0]]), np.zeros(2), None)
agent_case('agent-none-position', None, np.zeros(2), np.ones(2))
agent_case('agent-2d-bounds', np.array([[5.0, -5.0], [6.0, 0.5]]), np.array([[0.0, -1.0], [0.0, 0.0]]), np.array([[1.0, 1.0], [1.0, 0.25]]))
agent_case('agent-generator-bounds', np.array([[5.0, -5.0], [6.0, 0.5]]), (x for x in [0.0, 0.0]), iter([1.0, 1.0]))
agent_case('agent-str-bounds', np.array([[5.0], [6.0]]), 'ab', np.ones(2))

# Bounds aliasing the position
a = Agent(2, 2)
a.position = np.array([[3.0, -3.0], [0.5, 9.0]])
a.lb = a.position[:, 0]
a.ub = np.array([4.0, 4.0])
attempt('agent-alias', a.check_limits)
put_agent(a)

# --------------------------------------------------------------------------- Space


class Plain(Space):
    pass


class Custom(Space):
    """A space whose `_create_agents` is scripted."""

    def __init__(self, script, **kw):
        self.script = script
        super().__init__(**kw)

    def _create_agents(self):
        return self.script(self)


def space_state(s):
    put(s.n_agents, s.n_variables, s.n_dimensions, s.n_iterations, s.lb, s.ub, s.built, len(s.agents))
    put_agent(s.best_agent)


np.random.seed(1)
s = Plain(n_agents=3, n_variables=2, n_dimensions=3, n_iterations=4, lower_bound=[9, 9], upper_bound=[8, 8])
space_state(s)
attempt('space-init-agents', s._initialize_agents)
old_best = s.best_agent
agents, best = s._create_agents()
put(len(agents), best is agents[0], s.agents == [], s.best_agent is old_best)
for a in agents:
    put_agent(a)
put_agent(best)
put(any(np.shares_memory(best.position, a.position) for a in agents))
put(rng_state())
attempt('space-build', lambda: s._build([-1, -2], (3, 4.5)))
put_space(s)
put(s.best_agent is old_best)
first = s.agents
attempt('space-rebuild', lambda: s._build(np.array([0.0, 0.0]), np.array([1.0, 1.0])))
put(s.agents is first, s.agents[0] is first[0])
put_space(s)

for label, lo, up in [('space-build-size-lb', [0], [1, 1]), ('space-build-size-ub', [0, 0], [1]),
                      ('space-build-scalar', 0, [1, 1]), ('space-build-none', None, [1, 1]),
                      ('space-build-scalar-ub', [0, 0], 3.5), ('space-build-2d', [[0, 1], [2, 3]], [[1], [2]])]:
    s = Plain(n_agents=2, n_variables=2)
    old_best = s.best_agent
    attempt(label, lambda: s._build(lo, up))
    space_state(s)
    put(s.best_agent is old_best)

# `lower_bound` same array object is kept (np.asarray does not copy arrays)
s = Plain(n_agents=2, n_variables=2)
lo, up = np.array([0.0, 1.0]), np.array([2.0, 3.0])
s._build(lo, up)
put(s.lb is lo, s.ub is up)

# Scripted `_create_agents`
marker_agents = [Agent(1, 1), Agent(1, 1)]
marker_best = Agent(1, 1)
marker_best.fit = 3.25
SCRIPTS = [
    ('ok', lambda self: (marker_agents, marker_best)),
    ('list-pair', lambda self: [marker_agents, marker_best]),
    ('bad-agents', lambda self: ((1, 2), marker_best)),
    ('bad-best', lambda self: (marker_agents, 'best')),
    ('both-bad', lambda self: (None, None)),
    ('triple', lambda self: (marker_agents, marker_best, 1)),
    ('single', lambda self: (marker_agents,)),
    ('none', lambda self: None),
    ('raises', lambda self: (_ for _ in ()).throw(KeyError('boom'))),
    ('generator', lambda self: iter([marker_agents, marker_best])),
]
for name, script in SCRIPTS:
    s = Custom(script, n_agents=2, n_variables=1)
    old_agents, old_best = s.agents, s.best_agent
    attempt('space-script-' + name, lambda: s._build([0], [1]))
    put(s.built, s.agents is old_agents, s.agents is marker_agents, s.best_agent is old_best,
        s.best_agent is marker_best, s.lb, s.ub)


# Order in which the setters are hit during `_build`
class Traced(Space):
    trace = []

    def __setattr__(self, name, value):
        Traced.trace.append(name)
        super().__setattr__(name, value)

    def __getattribute__(self, name):
        if not name.startswith('__') and name != 'trace':
            Traced.trace.append('get:' + name)
        return super().__getattribute__(name)


s = Traced(n_agents=2, n_variables=2)
Traced.trace.clear()
s._build([0, 0], [1, 1])
put([t for t in Traced.trace if not t.startswith('get:')])
put(sorted(set(Traced.trace)))

# Failing Agent creation inside `_create_agents`
s = Plain(n_agents=2, n_variables=2)
s._n_dimensions = 0
attempt('space-create-bad-dims', s._create_agents)
s._n_dimensions = 1
s._n_agents = 0
attempt('space-create-no-agents', s._create_agents)
attempt('space-build-no-agents', lambda: s._build([0, 0], [1, 1]))
space_state(s)

# --------------------------------------------------------------------------- seeded optimisation runs


def sphere(x):
    return np.sum(x ** 2)


for seed in (0, 3):
    np.random.seed(seed)
    space = SearchSpace(n_agents=6, n_variables=3, n_iterations=8, lower_bound=[-5, -1, 0], upper_bound=[5, 1, 0.5])
    history = Opytimizer(space=space, optimizer=PSO(), function=Function(pointer=sphere)).start()
    put_space(space)
    put([[b[0], b[1]] for b in history.best_agent])

    np.random.seed(seed)
    space = HyperSpace(n_agents=4, n_variables=2, n_dimensions=3, n_iterations=5, lower_bound=[-5, -1], upper_bound=[5, 1])
    history = Opytimizer(space=space, optimizer=PSO(), function=Function(pointer=sphere)).start()
    put_space(space)
    put([[b[0], b[1]] for b in history.best_agent])

print('items hashed:', N_ITEMS[0])
print(H.hexdigest())
