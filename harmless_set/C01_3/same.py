"""Digest of Agent.check_limits behaviour: direct calls (edge cases, exceptions) and seeded runs of every optimizer that clips single agents."""
import hashlib
import logging
import warnings

import numpy as np

logging.disable(logging.CRITICAL)
warnings.simplefilter('ignore')

from opytimizer import Opytimizer
from opytimizer.core.function import Function
from opytimizer.core.agent import Agent
from opytimizer.optimizers.abc import ABC
from opytimizer.optimizers.ba import BA
from opytimizer.optimizers.bha import BHA
from opytimizer.optimizers.cs import CS
from opytimizer.optimizers.fpa import FPA
from opytimizer.optimizers.gp import GP
from opytimizer.optimizers.hs import HS
from opytimizer.optimizers.ihs import IHS
from opytimizer.optimizers.sa import SA
from opytimizer.spaces.hyper import HyperSpace
from opytimizer.spaces.tree import TreeSpace
from opytimizer.spaces.search import SearchSpace

H = hashlib.sha256()


def feed(x):
    """Feeds any nested structure of numbers into the digest, bit-exactly."""
    if isinstance(x, np.ndarray):
        H.update(repr((x.shape, str(x.dtype))).encode())
        for v in x.ravel().tolist():
            feed(v)
    elif isinstance(x, (list, tuple)):
        H.update(b'[')
        for v in x:
            feed(v)
        H.update(b']')
    elif isinstance(x, (float, np.floating)):
        H.update(float(x).hex().encode())
    else:
        H.update(repr(x).encode())
    H.update(b';')


def feed_rng():
    st = np.random.get_state()
    H.update(st[1].tobytes())
    feed(int(st[2]))


def make_recorder(obj, seen):
    def wrapped(x):
        seen.append(np.array(x, copy=True))
        return obj(x)
    return wrapped


def attempt(agent):
    """Calls check_limits, feeding the outcome (state afterwards, or the exception) into the digest."""
    try:
        out = agent.check_limits()
        feed(repr(out))
    except Exception as ex:  # pylint: disable=broad-except
        feed(type(ex).__name__)
        feed(str(ex))
    pos = agent.position
    feed(pos if isinstance(pos, np.ndarray) else repr(pos))
    feed(type(pos).__name__)


# 1. direct calls
specials = [np.nan, np.inf, -np.inf, 0.0, -0.0, 1e308, -1e308, 5e-324, -5e-324]
boxes = [
    ([0.0, 0.0, 0.0], [1.0, 1.0, 1.0]),
    ([-10.0, -1e-9, 3.0], [10.0, 1e-9, 3.0]),
    ([-1e300, -5.0, 0.0], [1e300, -4.999999999, 0.0]),
    ([2.0, 0.0, -1.0], [1.0, 0.0, -3.0]),  # lb > ub
    ([-0.0, 0.0, -1.0], [0.0, -0.0, 1.0]),  # signed zeros
    ([np.nan, -np.inf, 0.0], [1.0, np.inf, np.nan]),  # non-finite bounds
    ([-3, 0, 2], [3, 0, 7]),  # integer bounds
]
for seed, (lo, hi) in enumerate(boxes):
    np.random.seed(200 + seed)
    for dims in (1, 4):
        a = Agent(n_variables=3, n_dimensions=dims)
        a.lb = np.asarray(lo)
        a.ub = np.asarray(hi)
        for v in specials:
            a.position = np.full((3, dims), v)
            attempt(a)
        for scale in (1e-3, 1.0, 1e3, 1e150, 1e300):
            a.position = np.random.normal(0, 1, size=(3, dims)) * scale
            attempt(a)
            attempt(a)  # idempotent
        a.position = np.arange(-6, 3 * dims - 6).reshape(3, dims)  # integer positions
        attempt(a)
        # bounds given as plain lists / tuples
        a.lb, a.ub = list(lo), tuple(hi)
        a.position = np.random.uniform(-20, 20, size=(3, dims))
        attempt(a)
    feed_rng()

# default agent (unit box), untouched bounds
a = Agent(n_variables=2, n_dimensions=3)
a.position = np.array([[-1.0, 0.5, 2.0], [1.0, 0.0, -0.0]])
attempt(a)

# 2. exceptional / mismatching shapes
np.random.seed(11)
cases = []
a = Agent(n_variables=3, n_dimensions=1); a.position = np.array([[5.0], [-5.0]]); cases.append(a)  # fewer rows than bounds
a = Agent(n_variables=2, n_dimensions=1); a.position = np.array([[5.0], [-5.0], [7.0]]); cases.append(a)  # more rows
a = Agent(n_variables=3, n_dimensions=1); a.position = np.full((3, 1), 9.0); a.ub = np.ones(2); cases.append(a)  # ub shorter
a = Agent(n_variables=3, n_dimensions=1); a.position = np.full((3, 1), -9.0); a.lb = np.zeros(5); cases.append(a)  # lb longer
a = Agent(n_variables=3, n_dimensions=1); a.position = np.full((3, 1), 9.0); a.lb = 0.0; cases.append(a)  # scalar lb
a = Agent(n_variables=3, n_dimensions=1); a.position = np.full((3, 1), 9.0); a.ub = None; cases.append(a)  # missing ub
a = Agent(n_variables=3, n_dimensions=1); a.position = np.full((3, 1), 9.0); a.lb = np.float64(0.0); cases.append(a)  # 0-d
a = Agent(n_variables=3, n_dimensions=1); a.position = np.full((3, 1), 9.0); a.lb = np.array(0.0); cases.append(a)  # 0-d array
a = Agent(n_variables=3, n_dimensions=1); a.position = np.full((3, 1), 9.0); a.lb = np.zeros((3, 2)); cases.append(a)  # 2-d lb
a = Agent(n_variables=3, n_dimensions=1); a.position = np.full((3, 1), 0.5); a.lb = ['a', 'b', 'c']; cases.append(a)  # strings
a = Agent(n_variables=2, n_dimensions=2); a.position = [[5.0, -5.0], [0.5, 7.0]]; cases.append(a)  # nested lists
a = Agent(n_variables=2, n_dimensions=2); a.position = None; cases.append(a)
a = Agent(n_variables=2, n_dimensions=2); a.position = np.array([3.0, -3.0]); cases.append(a)  # 1-d position
a = Agent(n_variables=2, n_dimensions=2); a.lb = np.zeros(0); cases.append(a)  # empty bounds: nothing happens
for a in cases:
    attempt(a)

# 3. seeded runs of the optimizers that clip trial agents one at a time
objectives = {
    'sphere': lambda x: float(np.sum(x ** 2)),
    'outside': lambda x: float(np.sum((x - 1e3) ** 2)),
    'absmix': lambda x: float(np.sum(np.abs(x)) * np.prod(np.cos(x)) + 3.0),
}
runs = [(ABC, {}), (BA, {}), (BHA, {}), (CS, {}), (FPA, {}), (HS, {}), (IHS, {}), (SA, {}),
        (HS, {'HMCR': 0.5, 'PAR': 0.9, 'bw': 50.0}), (CS, {'alpha': 30.0, 'beta': 1.2, 'p': 0.5})]
run_boxes = [([-10, -10], [10, 10]), ([0.999, -1e-3], [1.0, 1e-3]), ([-1e12, 5.0], [1e12, 5.5])]
seed = 0
for cls, hyper in runs:
    for lo, hi in run_boxes:
        for name, obj in objectives.items():
            seed += 1
            np.random.seed(seed)
            seen = []
            space = SearchSpace(n_agents=6, n_variables=2, n_iterations=8, lower_bound=lo, upper_bound=hi)
            feed(cls.__name__ + name)
            try:
                hist = Opytimizer(space=space, optimizer=cls(hyperparams=dict(hyper)),
                                  function=Function(pointer=make_recorder(obj, seen))).start()
                feed(hist.agents)
                feed(hist.best_agent)
            except Exception as ex:  # pylint: disable=broad-except
                feed(type(ex).__name__)
                feed(str(ex))
            feed(len(seen))
            for x in seen:
                feed(x)
            feed(space.best_agent.position)
            feed(space.best_agent.fit)
            feed_rng()

# hypercomplex spaces
for seed, cls in enumerate([ABC, BA, CS, FPA, HS, SA]):
    np.random.seed(500 + seed)
    seen = []
    space = HyperSpace(n_agents=5, n_variables=2, n_dimensions=4, n_iterations=6, lower_bound=[-5, 0], upper_bound=[5, 3])
    obj = lambda x: float(np.sum(np.linalg.norm(x, axis=1)))
    feed(cls.__name__)
    try:
        hist = Opytimizer(space=space, optimizer=cls(), function=Function(pointer=make_recorder(obj, seen))).start()
        feed(hist.agents)
        feed(hist.best_agent)
    except Exception as ex:  # pylint: disable=broad-except
        feed(type(ex).__name__)
        feed(str(ex))
    feed(len(seen))
    for x in seen:
        feed(x)
    feed_rng()

# genetic programming on a tree space
for seed, (lo, hi) in enumerate([([-10, -10], [10, 10]), ([0.5, -1e-3], [0.6, 1e-3])]):
    np.random.seed(700 + seed)
    seen = []
    space = TreeSpace(n_trees=6, n_terminals=3, n_variables=2, n_iterations=6, min_depth=2, max_depth=4,
                      functions=['SUM', 'SUB', 'MUL', 'DIV'], lower_bound=lo, upper_bound=hi)
    opt = GP(hyperparams={'p_reproduction': 0.25, 'p_mutation': 0.3, 'p_crossover': 0.4, 'prunning_ratio': 0.0})
    feed('GP')
    try:
        hist = Opytimizer(space=space, optimizer=opt,
                          function=Function(pointer=make_recorder(objectives['sphere'], seen))).start()
        feed(hist.best_agent)
    except Exception as ex:  # pylint: disable=broad-except
        feed(type(ex).__name__)
        feed(str(ex))
    feed(len(seen))
    for x in seen:
        feed(x)
    feed(space.best_agent.position)
    feed_rng()

print(H.hexdigest())
