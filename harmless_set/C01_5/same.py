"""Behaviour digest for the code touched by this change.

Run as: cd /tmp/harmless4/limits && PYTHONPATH=/tmp/harmless4/limits /venv/bin/python harmlessA/same.py
The LAST line printed is a sha256 digest that must be identical with and without the patch.
"""
import hashlib
import logging
import os
import sys
import warnings

import numpy as np

warnings.filterwarnings('ignore')

import opytimizer  # noqa: E402
from opytimizer import Opytimizer  # noqa: E402
from opytimizer.core.agent import Agent  # noqa: E402
from opytimizer.core.function import Function  # noqa: E402
from opytimizer.core.optimizer import Optimizer  # noqa: E402
from opytimizer.spaces.search import SearchSpace  # noqa: E402
from opytimizer.spaces.hyper import HyperSpace  # noqa: E402
from opytimizer.spaces.tree import TreeSpace  # noqa: E402

logging.disable(logging.CRITICAL)

_H = hashlib.sha256()
_N = [0]


def feed(x):
    """Feeds any (nested) result into the digest; floats go in as float.hex()."""
    _N[0] += 1
    if isinstance(x, BaseException):
        if os.environ.get('SAME_DEBUG'):
            print('exception:', type(x).__name__, x, file=sys.stderr)
        _H.update(('E:' + type(x).__name__ + ';').encode())
    elif isinstance(x, (bool, np.bool_)):
        _H.update(('b:%d;' % bool(x)).encode())
    elif isinstance(x, (int, np.integer)):
        _H.update(('i:%d;' % int(x)).encode())
    elif isinstance(x, (float, np.floating)):
        _H.update(('f:' + float(x).hex() + ';').encode())
    elif isinstance(x, str):
        _H.update(('s:' + x + ';').encode())
    elif x is None:
        _H.update(b'n;')
    elif isinstance(x, np.ndarray):
        _H.update(('a:%s:%s[' % (x.dtype.str, x.shape)).encode())
        for v in x.ravel().tolist():
            feed(v)
        _H.update(b'];')
    elif isinstance(x, (list, tuple)):
        _H.update(('l:%s:%d[' % (type(x).__name__, len(x))).encode())
        for v in x:
            feed(v)
        _H.update(b'];')
    elif isinstance(x, dict):
        _H.update(b'd[')
        for k in sorted(x):
            feed(k)
            feed(x[k])
        _H.update(b'];')
    else:
        _H.update(('o:' + type(x).__name__ + ';').encode())


def feed_rng():
    """Feeds the state of NumPy's global generator (detects extra / missing / reordered draws)."""
    st = np.random.get_state()
    feed(st[0])
    feed(hashlib.sha256(st[1].tobytes()).hexdigest())
    feed(int(st[2]))
    feed(int(st[3]))
    feed(float(st[4]))


def feed_agent(a):
    if not isinstance(a, Agent):
        feed(repr(a))
        return
    feed(type(a.position).__name__)
    if isinstance(a.position, np.ndarray) or a.position is None:
        feed(a.position)
    else:
        feed([np.asarray(r) for r in a.position])
    feed(a.fit)
    feed(a.lb)
    feed(a.ub)


def feed_space(s):
    for a in s.agents:
        feed_agent(a)
    feed_agent(s.best_agent)
    feed(s.lb)
    feed(s.ub)


def feed_history(h):
    for key in ('agents', 'best_agent', 'local'):
        if hasattr(h, key):
            feed(key)
            feed(getattr(h, key))


def attempt(fn, *args):
    """Calls fn, feeding either 'ok' plus its result or the exception type."""
    try:
        out = fn(*args)
    except Exception as exc:  # pylint: disable=broad-except
        feed(exc)
        return exc
    feed('ok')
    feed(out)
    return out


def sphere(x):
    return float(np.sum(np.asarray(x, dtype=float) ** 2))


def shifted(x):
    return float(np.sum((np.asarray(x, dtype=float) - 0.3) ** 2) + np.sum(np.abs(np.asarray(x, dtype=float))))


def run_task(seed, make_space, make_optimizer, objective, **start_kw):
    """A complete seeded optimization task; everything observable goes into the digest."""
    np.random.seed(seed)
    try:
        space = make_space()
        hist = Opytimizer(space=space, optimizer=make_optimizer(), function=Function(pointer=objective)).start(**start_kw)
    except Exception as exc:  # pylint: disable=broad-except
        feed(exc)
        feed_rng()
        return
    feed_history(hist)
    feed_space(space)
    feed_rng()


def finish():
    print('items fed:', _N[0])
    print(_H.hexdigest())

from opytimizer.optimizers.abc import ABC  # noqa: E402
from opytimizer.optimizers.bha import BHA  # noqa: E402
from opytimizer.optimizers.gp import GP  # noqa: E402
from opytimizer.optimizers.hs import HS  # noqa: E402
from opytimizer.optimizers.sa import SA  # noqa: E402


def make_agent(rng, n_var, n_dim, scale=3.0):
    a = Agent(n_variables=n_var, n_dimensions=n_dim)
    a.position = rng.normal(0.0, scale, size=(n_var, n_dim))
    lo = rng.uniform(-2.0, 0.0, size=n_var)
    a.lb = lo
    a.ub = lo + rng.uniform(0.0, 2.5, size=n_var)
    return a


def checked(a):
    """Runs check_limits and feeds outcome, state and the identities visible from outside."""
    pos, lb, ub = a.position, a.lb, a.ub
    rows = [pos[i] for i in range(len(pos))] if isinstance(pos, list) else None
    res = attempt(a.check_limits)
    feed(a.position is pos)
    feed(a.lb is lb)
    feed(a.ub is ub)
    if rows is not None:
        feed([a.position[i] is rows[i] for i in range(len(rows))])
    feed_agent(a)
    return res


# 1. seeded random agents of several shapes
rng = np.random.RandomState(1234)
for n_var, n_dim in [(1, 1), (2, 1), (5, 1), (3, 4), (7, 2), (1, 8), (10, 3)]:
    for _ in range(4):
        checked(make_agent(rng, n_var, n_dim))

# 2. a row view taken before the call must still alias the agent's storage afterwards
a = make_agent(rng, 3, 2)
view = a.position[1]
checked(a)
feed(view)
feed(np.shares_memory(view, a.position))

# 3. special values: NaN / inf in positions and in the bounds, lb > ub, lb == ub
a = Agent(n_variables=6, n_dimensions=2)
a.position = np.array([[np.nan, 5.0], [np.inf, -np.inf], [0.5, -0.0], [2.0, -2.0], [1e308, -1e308], [0.25, 0.75]])
a.lb = np.array([0.0, -1.0, 0.0, 1.0, -np.inf, 0.5])
a.ub = np.array([1.0, 1.0, 0.0, -1.0, np.inf, 0.5])
checked(a)
a = Agent(n_variables=3, n_dimensions=1)
a.position = np.array([[0.5], [0.5], [np.nan]])
a.lb = np.array([np.nan, 0.0, np.nan])
a.ub = np.array([1.0, np.nan, np.nan])
checked(a)

# 4. bounds of different lengths (zip stops at the shorter one)
a = make_agent(rng, 4, 2)
a.lb = a.lb[:2].copy()
checked(a)
a = make_agent(rng, 4, 2)
a.ub = a.ub[:1].copy()
checked(a)
a = make_agent(rng, 4, 2)
a.lb = np.array([])
checked(a)

# 5. more bounds than rows -> IndexError after the first rows were already clipped
a = make_agent(rng, 2, 2)
a.lb = np.array([-1.0, -1.0, -1.0])
a.ub = np.array([1.0, 1.0, 1.0])
checked(a)

# 6. non-iterable / wrongly typed bounds, scalar and 0-d bounds
for bad_lb, bad_ub in [(None, np.ones(2)), (np.zeros(2), None), (0.0, 1.0), (np.array(0.0), np.array(1.0)),
                       (['a', 'b'], [1.0, 2.0])]:
    a = make_agent(rng, 2, 2)
    a.lb, a.ub = bad_lb, bad_ub
    checked(a)

# 7. list bounds, integer positions, list-of-rows positions, 2-d bounds (row-wise clipping), 3-d positions
a = make_agent(rng, 3, 2)
a.lb, a.ub = [-0.5, -0.25, 0.0], [0.5, 0.25, 0.0]
checked(a)
a = Agent(n_variables=3, n_dimensions=2)
a.position = np.array([[-5, 5], [0, 9], [3, -3]])
a.lb, a.ub = np.array([-1.5, 0.5, -2.0]), np.array([1.5, 2.5, 2.0])
checked(a)
a = Agent(n_variables=2, n_dimensions=3)
a.position = [np.array([-3.0, 0.1, 3.0]), np.array([9.0, -9.0, 0.0])]
a.lb, a.ub = np.array([-1.0, -2.0]), np.array([1.0, 2.0])
checked(a)
a = Agent(n_variables=2, n_dimensions=3)
a.position = rng.normal(0, 3, size=(2, 3))
a.lb = np.array([[-1.0, -0.5, 0.0], [-2.0, -2.0, -2.0]])
a.ub = np.array([[1.0, 0.5, 0.0], [2.0, 0.0, 2.0]])
checked(a)
a = Agent(n_variables=2, n_dimensions=2)
a.position = rng.normal(0, 3, size=(2, 2, 2))
a.lb, a.ub = np.array([-1.0, -0.5]), np.array([1.0, 0.5])
checked(a)
a = Agent(n_variables=2, n_dimensions=2)
a.position = None
checked(a)

# 8. a subclass whose bounds getters count their accesses (same number and order of reads)
class Counting(Agent):
    reads = []

    @property
    def lb(self):
        Counting.reads.append('lb')
        return self._lb

    @lb.setter
    def lb(self, lb):
        self._lb = lb

    @property
    def ub(self):
        Counting.reads.append('ub')
        return self._ub

    @ub.setter
    def ub(self, ub):
        self._ub = ub


c = Counting(n_variables=3, n_dimensions=2)
c.position = rng.normal(0, 3, size=(3, 2))
Counting.reads.clear()
attempt(c.check_limits)
feed(list(Counting.reads))
feed(c.position)

# 9. seeded optimizers that call Agent.check_limits on single agents
for seed in (0, 7):
    run_task(seed, lambda: TreeSpace(n_trees=6, n_terminals=3, n_variables=2, n_iterations=6, min_depth=2, max_depth=4,
                                     functions=['SUM', 'SUB', 'MUL', 'DIV'], lower_bound=[-1, -2], upper_bound=[1, 2]),
             lambda: GP(hyperparams={'p_reproduction': 0.25, 'p_mutation': 0.3, 'p_crossover': 0.3}), sphere)
    for opt in (ABC, BHA, HS, SA):
        run_task(seed, lambda: SearchSpace(n_agents=5, n_variables=3, n_iterations=8,
                                           lower_bound=[-1, -0.5, 0], upper_bound=[1, 0.5, 0.1]), opt, shifted)

finish()
