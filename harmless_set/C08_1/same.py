"""Digest of TreeSpace.grow / TreeSpace construction / short GP runs on seeded and scripted inputs.

Run as: cd /tmp/harmless/C08 && PYTHONPATH=/tmp/harmless/C08 /venv/bin/python harmlessA/same.py
The last line printed is the digest; it must be the same with and without harmlessA/patch.diff.
"""

import hashlib
import logging

logging.disable(logging.CRITICAL)

import numpy as np

import opytimizer.math.random as r
from opytimizer.core.function import Function
from opytimizer.optimizers.gp import GP
from opytimizer.spaces.tree import TreeSpace

ALL = ['SUM', 'SUB', 'MUL', 'DIV', 'EXP', 'SQRT', 'LOG', 'ABS', 'SIN', 'COS']

np.seterr(all="ignore")

H = hashlib.sha256()


def put(*items):
    for it in items:
        H.update(repr(it).encode())
        H.update(b'|')


def put_array(a):
    if a is None:
        put('None')
        return
    a = np.asarray(a)
    put(a.shape, str(a.dtype))
    for x in a.ravel().tolist():
        put(float(x).hex() if isinstance(x, float) else x)


def put_rng():
    st = np.random.get_state()
    put(st[0], hashlib.sha256(st[1].tobytes()).hexdigest(), st[2], st[3], float(st[4]).hex())


def put_tree(tree, alias):
    """Serializes structure, links, flags, values and value-array aliasing of a tree."""
    nodes = tree.pre_order
    index = {id(n): i for i, n in enumerate(nodes)}
    put('tree', len(nodes), tree.parent is None)
    for n in nodes:
        put(n.type, n.name, n.flag,
            index.get(id(n.left), None if n.left is None else 'ext'),
            index.get(id(n.right), None if n.right is None else 'ext'),
            index.get(id(n.parent), None if n.parent is None else 'ext'))
        if n.value is not None:
            # which array object is it (aliasing between nodes / terminals matters)
            put(alias.setdefault(id(n.value), len(alias)))
        put_array(n.value)
    put(tree.n_nodes, tree.n_leaves, tree.min_depth, tree.max_depth)
    put_array(tree.position)


def put_space(space, alias):
    put('space', len(space.trees))
    for t in space.trees:
        put_tree(t, alias)
    put_tree(space.best_tree, alias)
    for a in space.agents:
        put_array(a.position)
        put(float(a.fit).hex())
    put_array(space.best_agent.position)
    put(float(space.best_agent.fit).hex())
    for t in space.terminals:
        put(alias.setdefault(id(t.position), len(alias)))
        put_array(t.position)


def sphere(x):
    return float(np.sum(x ** 2))


# 1. seeded construction and direct grow calls over many configurations
configs = []
for functions in ([], ['SUM'], ['EXP'], ['SUM', 'EXP'], ['DIV', 'LOG', 'SQRT'], ALL, ALL[::-1]):
    for (lo, hi) in ((1, 1), (1, 2), (1, 4), (2, 5), (3, 3), (1, 7)):
        for n_terminals in (1, 2, 5):
            configs.append((functions, lo, hi, n_terminals))

for k, (functions, lo, hi, n_terminals) in enumerate(configs):
    np.random.seed(1000 + k)
    n_variables = 1 + k % 3
    space = TreeSpace(n_trees=1 + k % 4, n_terminals=n_terminals, n_variables=n_variables, n_iterations=2,
                      min_depth=lo, max_depth=hi, functions=list(functions),
                      lower_bound=[-1.5] * n_variables, upper_bound=[2.5] * n_variables)
    alias = {}
    put('config', k, functions, lo, hi, n_terminals)
    put_space(space, alias)
    grown = []
    for (a, b) in ((lo, hi), (hi, hi), (1, hi + 1), (hi + 2, hi)):
        if a > b and functions:
            # would recurse for as long as functions are drawn; keep only the function-free case
            continue
        t = space.grow(a, b)
        grown.append(t)
        put_tree(t, alias)
    # earlier trees seen again after later grow calls (terminal arrays are shared and rewritten in place)
    for t in grown:
        put_tree(t, alias)
    put_rng()

# 2. scripted random draws: force every branch of grow
real_uniform = r.generate_uniform_random_number


def scripted(values):
    it = iter(values)

    def fake(low=0.0, high=1.0, size=1):
        # keep the real stream moving exactly as the real function would
        real = real_uniform(low, high, size)
        if size == 1:
            try:
                frac = next(it)
            except StopIteration:
                return real
            return np.array([low + frac * (high - low)])
        return real
    return fake


scripts = [
    [0.0, 0.99, 0.99],
    [0.0, 0.0, 0.99, 0.99, 0.99],
    [0.45, 0.99],
    [0.45, 0.45, 0.45, 0.45],
    [0.99],
    [0.0] * 40,
    [0.1, 0.2, 0.3, 0.4, 0.5, 0.6, 0.7, 0.8, 0.9, 0.95, 0.05, 0.15],
]
for k, script in enumerate(scripts):
    np.random.seed(77 + k)
    space = TreeSpace(n_trees=2, n_terminals=3, n_variables=2, n_iterations=1, min_depth=1, max_depth=5,
                      functions=['SUM', 'EXP', 'MUL', 'COS'], lower_bound=[0, -1], upper_bound=[1, 1])
    alias = {}
    r.generate_uniform_random_number = scripted(script)
    try:
        for (a, b) in ((1, 4), (1, 1), (2, 6)):
            put_tree(space.grow(a, b), alias)
    finally:
        r.generate_uniform_random_number = real_uniform
    put_space(space, alias)
    put_rng()

# 3. exceptions: unknown function name, non-list functions, bad terminal list
for functions in (['FOO'], ['SUM', 'BAR'], [1], 'SUM'):
    np.random.seed(5)
    try:
        space = TreeSpace(n_trees=3, n_terminals=1, n_variables=1, min_depth=1, max_depth=6,
                          functions=functions, lower_bound=[0], upper_bound=[1])
        put('built', len(space.trees))
    except BaseException as ex:  # noqa
        put('raised', type(ex).__name__, str(ex))
    put_rng()

np.random.seed(6)
space = TreeSpace(n_trees=1, n_terminals=2, n_variables=1, min_depth=1, max_depth=3,
                  functions=['SUM'], lower_bound=[0], upper_bound=[1])
space.terminals = []
try:
    space.grow(1, 3)
    put('no error')
except BaseException as ex:  # noqa
    put('raised', type(ex).__name__, str(ex))
put_rng()

# 4. short GP runs (grow is used by construction and by mutation)
for k, functions in enumerate((['SUM', 'SUB', 'MUL', 'DIV'], ALL, ['EXP', 'SIN'], [])):
    np.random.seed(4242 + k)
    space = TreeSpace(n_trees=8, n_terminals=3, n_variables=2, n_iterations=6, min_depth=1, max_depth=4,
                      functions=functions, lower_bound=[-3, -3], upper_bound=[3, 3])
    opt = GP(hyperparams={'p_reproduction': 0.3, 'p_mutation': 0.5, 'p_crossover': 0.4, 'prunning_ratio': 0.1 * k})
    with np.errstate(all='ignore'):
        history = opt.run(space, Function(pointer=sphere))
    alias = {}
    put_space(space, alias)
    for (pos, fit) in history.best_agent:
        put_array(pos)
        put(float(fit).hex())
    put_rng()

print(H.hexdigest())
