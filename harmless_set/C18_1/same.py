"""Digest of generate_bernoulli_distribution over seeded inputs and edge cases."""
import hashlib

import numpy as np

import opytimizer.math.distribution as d

h = hashlib.sha256()


def put(*items):
    for it in items:
        h.update(repr(it).encode())
        h.update(b'|')


def put_array(a):
    a = np.asarray(a)
    put(a.dtype.str, a.shape)
    for x in a.ravel().tolist():
        put(float(x).hex() if isinstance(x, float) else x)


def rng_mark():
    st = np.random.get_state()
    put(hashlib.sha256(st[1].tobytes()).hexdigest(), st[2], st[3], float(st[4]).hex())


probs = [0.0, 1.0, 0.5, 0.25, 0.999999, 1e-300, -0.5, 1.5, float('nan'),
         float('inf'), float('-inf'), np.float64(0.3), np.float32(0.7), 1, 0, True]
sizes = [0, 1, 2, 7, 64, np.int64(5)]

for seed in range(12):
    for p in probs:
        for s in sizes:
            np.random.seed(seed)
            out = d.generate_bernoulli_distribution(p, s)
            put('ok', seed, repr(p), repr(s), type(out).__name__)
            put_array(out)
            rng_mark()

# default arguments, consecutive calls on one stream
np.random.seed(123)
for _ in range(20):
    put_array(d.generate_bernoulli_distribution())
    put_array(d.generate_bernoulli_distribution(prob=0.5, size=3))
rng_mark()

# inputs that raise: the exception type/message and the stream afterwards must agree
bad = [(0.5, (2, 2)), (0.5, 2.0), (0.5, -1), (0.5, None), (0.5, 'a'), ('x', 3),
       (None, 3), ([0.1, 0.9], 2), (np.array([0.1, 0.9]), 2), (0.5, [3]), (0.5, True), (0.5, (3,))]
for p, s in bad:
    np.random.seed(7)
    try:
        out = d.generate_bernoulli_distribution(p, s)
        put('ok', repr(p), repr(s))
        put_array(out)
    except Exception as e:  # noqa
        put('exc', repr(p), repr(s), type(e).__name__, str(e))
    rng_mark()

print(h.hexdigest())
