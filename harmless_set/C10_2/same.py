"""Digest of tree evaluation (Node.position) over many seeded trees and edge cases.

Run as: cd /tmp/harmless/C10 && PYTHONPATH=/tmp/harmless/C10 /venv/bin/python harmlessX/same.py
The digest printed must be identical with and without the change.
"""

import copy
import hashlib
import itertools
import warnings

import numpy as np

from opytimizer.core.node import Node

BINARY = ['SUM', 'SUB', 'MUL', 'DIV']
UNARY = ['EXP', 'SQRT', 'LOG', 'ABS', 'SIN', 'COS']
ALL = BINARY + UNARY

H = hashlib.sha256()
COUNT = [0]


def feed(s):
    H.update(s.encode('utf-8'))
    H.update(b'\n')
    COUNT[0] += 1


def enc(v):
    """Bit-exact encoding of a result (array, numpy scalar, None)."""
    if v is None:
        return 'None'
    a = np.asarray(v)
    kind = type(v).__name__
    if a.dtype.kind == 'f':
        body = ','.join(float(t).hex() for t in a.ravel())
    elif a.dtype.kind == 'c':
        body = ','.join(float(t.real).hex() + '+' + float(t.imag).hex() + 'j' for t in a.ravel())
    else:
        body = ','.join(repr(t) for t in a.ravel().tolist())
    return f'{kind}|{a.dtype}|{a.shape}|{body}'


def term(name, value):
    return Node(name=name, type='TERMINAL', value=value)


def func(name, left=None, right=None):
    n = Node(name=name, type='FUNCTION', left=left, right=right)
    if left is not None:
        left.parent = n
        left.flag = True
    if right is not None:
        right.parent = n
        right.flag = False
    return n


def snapshot(node):
    """Structural snapshot of a tree (to check evaluation does not modify it)."""
    if node is None:
        return None
    v = None if node.value is None else (node.value.dtype.str, node.value.shape, node.value.tobytes())
    return (node.name, node.type, node.flag, v, snapshot(node.left), snapshot(node.right))


def observe(tag, tree):
    """Evaluates every sub-tree, recording result / exception / warnings."""
    before = snapshot(tree)
    for k, sub in enumerate(tree.pre_order):
        with warnings.catch_warnings(record=True) as w:
            warnings.simplefilter('always')
            try:
                out = 'ok:' + enc(sub.position)
            except Exception as ex:  # same exceptions must be raised for same inputs
                out = 'exc:' + type(ex).__name__ + ':' + str(ex)
        ws = ';'.join(sorted(x.category.__name__ + ':' + str(x.message) for x in w))
        feed(f'{tag}|{k}|{sub!r}|{out}|{ws}')
    feed(f'{tag}|unchanged={before == snapshot(tree)}')
    feed(f'{tag}|props={tree.n_nodes},{tree.n_leaves},{tree.min_depth},{tree.max_depth}')
    feed(f'{tag}|str={str(tree)}')


# Terminal value pools -------------------------------------------------------
SPECIAL = np.array([0.0, -0.0, 1.0, -1.0, 1e-10, -1e-10, 1e-300, -1e-300, 5e-324,
                    1e300, -1e300, 709.0, 710.0, -745.0, 0.5, -2.5, np.pi, 1e-11,
                    np.inf, -np.inf, np.nan])


def pools(rng):
    out = []
    out.append(('special', SPECIAL.copy(), SPECIAL[::-1].copy()))
    out.append(('col', SPECIAL.reshape(-1, 1).copy(), np.roll(SPECIAL, 3).reshape(-1, 1).copy()))
    for shape in [(1, 1), (3, 1), (2, 4), (5,), ()]:
        a = np.asarray(rng.uniform(-10, 10, size=shape))
        b = np.asarray(rng.normal(0, 1e-9, size=shape))
        out.append((f'rand{shape}', a, b))
    # broadcasting pair and integer / float32 arrays
    out.append(('bcast', rng.uniform(-3, 3, size=(3, 1)), rng.uniform(-3, 3, size=(1, 4))))
    out.append(('int', np.array([[0], [1], [-2], [7]]), np.array([[3], [0], [-1], [0]])))
    out.append(('f32', np.array([0, 1e-10, -3.5, 88.8], dtype=np.float32),
                np.array([-1e-10, 0, 2, 1e30], dtype=np.float32)))
    out.append(('neg_eps', np.array([-1e-10, 1e-10, 0.0]), np.array([-1e-10, -1e-10, -1e-10])))
    return out


def main():
    rng = np.random.default_rng(20260929)

    # 1. every operator applied directly to terminals, both operand orders
    for tag, a, b in pools(rng):
        for op in ALL:
            for (p, q) in ((a, b), (b, a), (a, a)):
                if op in BINARY:
                    t = func(op, term('a', p.copy()), term('b', q.copy()))
                else:
                    t = func(op, term('a', p.copy()))
                observe(f'single:{tag}:{op}', t)

    # 2. exhaustive over shapes/operator labellings at depth 2
    a = np.array([[0.75], [-1.5], [0.0], [1e-10]])
    b = np.array([[-0.25], [2.0], [-1e-10], [3.0]])
    leaves = [a, b]

    def subtrees(depth):
        if depth == 0:
            return [lambda i=i: term(i, leaves[i].copy()) for i in range(2)]
        smaller = subtrees(depth - 1)
        res = list(smaller)
        for op in UNARY:
            for s in smaller:
                res.append(lambda op=op, s=s: func(op, s()))
        for op in BINARY:
            for s, r in itertools.product(smaller, repeat=2):
                res.append(lambda op=op, s=s, r=r: func(op, s(), r()))
        return res

    for k, mk in enumerate(subtrees(2)):
        t = mk()
        with warnings.catch_warnings():
            warnings.simplefilter('ignore')
            feed(f'exh|{k}|{enc(t.position)}')
    observe('exh-last', t)

    # 3. sampled deeper trees
    def grow(depth, shape):
        if depth == 0 or rng.random() < 0.15:
            return term(int(rng.integers(0, 5)), np.asarray(rng.uniform(-4, 4, size=shape)))
        op = ALL[int(rng.integers(0, len(ALL)))]
        if op in BINARY:
            return func(op, grow(depth - 1, shape), grow(depth - 1, shape))
        return func(op, grow(depth - 1, shape))

    for i in range(120):
        shape = [(1, 1), (3, 1), (2, 3), (4,)][i % 4]
        t = grow(2 + i % 6, shape)
        observe(f'grow{i}', t)
        t2 = copy.deepcopy(t)
        with warnings.catch_warnings():
            warnings.simplefilter('ignore')
            feed(f'grow{i}|copy|{enc(t2.position)}')

    # 4. a deep chain (recursion depth) and a unary node carrying a right child
    t = term('x', np.array([0.3, -0.7]))
    for i in range(300):
        t = func(['SIN', 'COS', 'ABS', 'SQRT'][i % 4], t)
    feed('chain|' + enc(t.position))
    t = func('ABS', term('l', np.array([-2.0])), term('r', np.array([5.0])))
    observe('unary-with-right', t)

    # 5. edge cases: unknown / integer function names, missing children, terminals with children
    v = np.array([1.0, -2.0])
    observe('unknown', func('POW', term('a', v.copy()), term('b', v.copy())))
    observe('lower', func('sum', term('a', v.copy()), term('b', v.copy())))
    observe('intname', func(3, term('a', v.copy()), term('b', v.copy())))
    observe('unknown-inner', func('SUM', func('FOO', term('a', v.copy())), term('b', v.copy())))
    observe('unknown-inner-unary', func('ABS', func('FOO', term('a', v.copy()))))
    for op in ALL:
        observe(f'nochild:{op}', func(op))
        observe(f'leftonly:{op}', func(op, term('a', v.copy())))
        observe(f'rightonly:{op}', func(op, None, term('b', v.copy())))
    tt = Node(name='t', type='TERMINAL', value=v.copy(),
              left=func('SUM', term('a', v.copy()), term('b', v.copy())))
    observe('terminal-with-child', tt)
    tt = Node(name='t', type='TERMINAL', value=v.copy(), left=func('SUM'))
    observe('terminal-with-bad-child', tt)
    tt = Node(name='t', type='TERMINAL', value=v.copy(), right=func('DIV', None, term('b', v.copy())))
    observe('terminal-with-bad-right', tt)
    observe('shape-mismatch', func('SUM', term('a', np.ones(3)), term('b', np.ones(4))))
    observe('object', func('EXP', term('a', np.array(['x', 'y']))))
    observe('bool', func('SUB', term('a', np.array([True, False])), term('b', np.array([True, True]))))
    observe('complex', func('SQRT', term('a', np.array([3 + 4j, -1j]))))
    observe('complex-log', func('LOG', term('a', np.array([3 + 4j, 0j]))))
    observe('empty', func('DIV', term('a', np.zeros((0, 1))), term('b', np.zeros((0, 1)))))

    # terminal returns the very same stored array object (identity)
    z = np.array([1.0])
    feed('identity|' + str(term('z', z).position is z))
    r = func('ABS', term('z', z)).position
    feed('fresh|' + str(r is not z))

    # 5b. deepest chain that can still be evaluated under a small recursion limit
    import sys
    old_limit = sys.getrecursionlimit()
    for top in ('SIN', 'SUM'):
        best = -1
        try:
            sys.setrecursionlimit(250)
            t = term('x', np.array([0.25]))
            for d in range(1, 400):
                t = func(top, t, term('y', np.array([0.5]))) if top == 'SUM' else func(top, t)
                try:
                    t.position
                    best = d
                except RecursionError:
                    break
        finally:
            sys.setrecursionlimit(old_limit)
        feed(f'maxdepth|{top}|{best}')

    # 6. the tree space + GP path (may fail to start on this NumPy; record whatever happens)
    try:
        from opytimizer.spaces.tree import TreeSpace
        np.random.seed(7)
        s = TreeSpace(n_trees=6, n_terminals=3, n_variables=2, n_iterations=2,
                      min_depth=1, max_depth=4, functions=ALL,
                      lower_bound=[-3, -3], upper_bound=[3, 3])
        for i, t in enumerate(s.trees):
            with warnings.catch_warnings():
                warnings.simplefilter('ignore')
                feed(f'space|{i}|{enc(t.position)}|{str(t)}')
        feed('space|rng|' + float(np.random.uniform()).hex())
    except Exception as ex:
        feed('space|exc|' + type(ex).__name__ + ':' + str(ex))

    print(f'records={COUNT[0]}')
    print('digest=' + H.hexdigest())


if __name__ == '__main__':
    main()
