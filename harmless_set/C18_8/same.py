"""Digest of opytimizer.math.random behaviour on seeded inputs."""
import hashlib
import pickle
import warnings

import numpy as np

import opytimizer.math.random as r

warnings.simplefilter('ignore')
H = hashlib.sha256()


def put(*items):
    for it in items:
        H.update(repr(it).encode())
        H.update(b'|')


def rng_state():
    s = np.random.get_state()
    return hashlib.sha256(pickle.dumps((s[0], s[1].tobytes(), s[2], s[3], s[4]))).hexdigest()


def run(tag, fn, seed, *args, **kwargs):
    np.random.seed(seed)
    try:
        out = fn(*args, **kwargs)
        if isinstance(out, np.ndarray):
            put(tag, 'ok', 'ndarray', str(out.dtype), out.shape,
                [float(x).hex() for x in out.ravel()], out.flags['OWNDATA'])
        else:
            put(tag, 'ok', type(out).__name__, float(out).hex())
    except Exception as e:  # noqa
        put(tag, 'exc', type(e).__name__, str(e))
    put(rng_state())


U = r.generate_uniform_random_number
G = r.generate_gaussian_random_number

for seed in range(8):
    for size in (1, 2, 9, (2, 3), None, 0, (0,), ()):
        run('u', U, seed, 0, 1, size)
        run('u2', U, seed, -3.5, 7.25, size)
        run('g', G, seed, 0, 1, size)
        run('g2', G, seed, 2.5, 0.1, size)
    run('udef', U, seed)
    run('gdef', G, seed)
    run('ukw', U, seed, size=4)
    run('gkw', G, seed, size=4)
    run('ukw2', U, seed, high=3, low=2, size=2)
    run('gkw2', G, seed, variance=3, mean=2, size=2)

# array-valued bounds / parameters (broadcast)
run('uarr', U, 1, np.array([0.0, 1.0, 2.0]), np.array([1.0, 2.0, 3.0]), 3)
run('uarr2', U, 1, np.array([0.0, 1.0, 2.0]), 5.0, (2, 3))
run('uarrbad', U, 1, np.array([0.0, 1.0, 2.0]), 5.0, 2)
run('garr', G, 1, np.array([0.0, 10.0]), np.array([1.0, 0.5]), 2)
run('garrbad', G, 1, np.array([0.0, 10.0]), 1.0, 3)
run('ulist', U, 1, [0, 1], [2, 3], 2)

# edge cases and failures
run('uinverted', U, 2, 1.0, 0.0, 3)
run('uequal', U, 2, 1.0, 1.0, 3)
run('unan', U, 2, float('nan'), 1.0, 3)
run('uinf', U, 2, 0.0, float('inf'), 3)
run('uninf', U, 2, float('-inf'), float('inf'), 3)
run('ustr', U, 2, 'a', 1.0, 3)
run('unone', U, 2, None, 1.0, 3)
run('usizeneg', U, 2, 0, 1, -1)
run('usizefloat', U, 2, 0, 1, 2.0)
run('usizestr', U, 2, 0, 1, '2')
run('gvar0', G, 3, 1.0, 0.0, 3)
run('gvarneg', G, 3, 1.0, -1.0, 3)
run('gnan', G, 3, float('nan'), 1.0, 3)
run('gvarnan', G, 3, 0.0, float('nan'), 3)
run('ginf', G, 3, float('inf'), 1.0, 3)
run('gstr', G, 3, 'a', 1.0, 3)
run('gnone', G, 3, None, 1.0, 3)
run('gsizeneg', G, 3, 0, 1, -1)
run('gsizefloat', G, 3, 0, 1, 2.0)
run('utoomany', U, 3, 0, 1, 2, 3)
run('gtoomany', G, 3, 0, 1, 2, 3)
run('ubadkw', U, 3, loc=1)
run('gbadkw', G, 3, scale=1)

# interleaved calls share one stream
np.random.seed(11)
a = U(0, 1, 3)
b = G(0, 1, 3)
c_ = U(size=2)
d_ = G(size=2)
put('seq', [x.hex() for x in map(float, np.concatenate([a, b, c_, d_]))], rng_state())

print(H.hexdigest())
