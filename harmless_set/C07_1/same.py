"""Digest of seeded runs that go through Optimizer._evaluate (best-agent copy).

Run: cd /tmp/harmless/C07 && PYTHONPATH=/tmp/harmless/C07 /venv/bin/python harmlessA/same.py
"""
import hashlib
import logging

import numpy as np

logging.disable(logging.CRITICAL)

from opytimizer.core.agent import Agent
from opytimizer.core.function import Function
from opytimizer.core.optimizer import Optimizer
from opytimizer.optimizers.abc import ABC
from opytimizer.optimizers.bha import BHA
from opytimizer.optimizers.cs import CS
from opytimizer.optimizers.fa import FA
from opytimizer.optimizers.fpa import FPA
from opytimizer.optimizers.hc import HC
from opytimizer.optimizers.hs import HS
from opytimizer.optimizers.ihs import IHS
from opytimizer.optimizers.sa import SA
from opytimizer.optimizers.sca import SCA
from opytimizer.optimizers.wca import WCA
from opytimizer.spaces.search import SearchSpace

H = hashlib.sha256()


def put(*xs):
    for x in xs:
        if isinstance(x, np.ndarray):
            H.update(repr(x.shape).encode())
            for v in x.ravel().tolist():
                H.update(float(v).hex().encode())
        elif isinstance(x, (float, np.floating)):
            H.update(float(x).hex().encode())
        elif isinstance(x, (list, tuple)):
            H.update(b'[')
            put(*x)
            H.update(b']')
        else:
            H.update(repr(x).encode())
        H.update(b'|')


def sphere(x):
    return float(np.sum(x ** 2))


def shifted(x):
    return float(np.sum((x - 0.3) ** 2) - 1.0)


def flat(x):
    return 1.0


def nan_some(x):
    s = float(np.sum(x))
    return float('nan') if s > 1.0 else s


def aliasing(space):
    arrs = [a.position for a in space.agents] + [space.best_agent.position]
    out = []
    for i in range(len(arrs)):
        for j in range(i + 1, len(arrs)):
            out.append(bool(np.shares_memory(arrs[i], arrs[j])))
    return out


def state(space):
    put(len(space.agents))
    for a in space.agents:
        put(a.position, a.fit)
    put(space.best_agent.position, space.best_agent.fit)
    put(aliasing(space))


OPTS = [ABC, BHA, CS, FA, FPA, HC, HS, IHS, SA, SCA, WCA]
CONFIGS = [
    (1, 1, 3, [-1.0], [1.0]),
    (2, 1, 2, [0.0], [0.0]),
    (4, 3, 4, [-5.0, -1.0, 0.0], [5.0, 1.0, 2.0]),
    (7, 2, 5, [-10.0, -10.0], [10.0, 10.0]),
]
FUNCS = [sphere, shifted, flat, nan_some]

for opt_cls in OPTS:
    for ci, (n_agents, n_vars, n_iter, lb, ub) in enumerate(CONFIGS):
        for fi, f in enumerate(FUNCS):
            if opt_cls is ABC and f is nan_some:
                continue  # ABC's onlooker loop does not terminate on NaN fitness
            seed = 1000 * ci + 10 * fi + 7
            np.random.seed(seed)
            put(opt_cls.__name__, ci, fi)
            try:
                space = SearchSpace(n_agents=n_agents, n_variables=n_vars, n_iterations=n_iter,
                                    lower_bound=lb, upper_bound=ub)
                opt = opt_cls()
                calls = []

                def hook(o, s, fn):
                    calls.append(len(s.agents))
                    state(s)

                hist = opt.run(space, Function(pointer=f), pre_evaluation_hook=hook)
                put(calls)
                put(hist.agents, hist.best_agent)
                state(space)
                # in-place change of an agent must not reach the best agent
                before = space.best_agent.position.copy()
                for a in space.agents:
                    a.position += 1.0
                put(bool(np.array_equal(before, space.best_agent.position)))
            except Exception as ex:  # same exception for same input
                put(type(ex).__name__, str(ex))
            # random stream consumed identically
            put(np.random.uniform())

# direct calls of _evaluate on a hand-made space (ties, NaN, improving sequence)
for fits in ([3.0, 2.0, 2.0, 1.0], [1.0, 1.0], [float('nan'), 5.0], [float('inf'), -float('inf')]):
    np.random.seed(3)
    space = SearchSpace(n_agents=len(fits), n_variables=2, n_iterations=1,
                        lower_bound=[0.0, 0.0], upper_bound=[1.0, 1.0])
    it = iter(fits)
    fn = Function(pointer=lambda x: next(it))
    Optimizer()._evaluate(space, fn)
    state(space)
    put(type(space.best_agent.fit).__name__)

print(H.hexdigest())
