"""Digest script for the harmless refactorings of Space / SearchSpace / HyperSpace.

Run as: cd /tmp/harmless4/space && PYTHONPATH=/tmp/harmless4/space /venv/bin/python harmlessK/same.py
The LAST line printed is a sha256 digest that must not depend on the refactoring.
"""
import hashlib
import logging
import os

import numpy as np

import opytimizer.math.hypercomplex as h
from opytimizer.core.agent import Agent
from opytimizer.core.function import Function
from opytimizer.core.space import Space
from opytimizer.optimizers.pso import PSO
from opytimizer.spaces.hyper import HyperSpace
from opytimizer.spaces.search import SearchSpace

OUT = []


def put(*items):
    for it in items:
        OUT.append(str(it))


def fhex(x):
    arr = np.asarray(x, dtype=float).ravel()
    return ','.join(float(v).hex() for v in arr)


def put_arr(tag, x):
    x = np.asarray(x)
    put(tag, x.shape, x.dtype, fhex(x))


def rng_state():
    st = np.random.get_state()
    return hashlib.sha256(st[1].tobytes() + repr(st[2:]).encode()).hexdigest()


class Capture(logging.Handler):
    """Records (logger name, level, message) of every log record (no timestamps)."""

    def emit(self, record):
        OUT.append(f'LOG|{record.name}|{record.levelname}|{record.getMessage()}')


_cap = Capture()
for name in ('opytimizer.core.space', 'opytimizer.spaces.search', 'opytimizer.spaces.hyper'):
    lg = logging.getLogger(name)
    # silence the console/file noise of these loggers, keep only the capture
    for hd in list(lg.handlers):
        lg.removeHandler(hd)
    lg.addHandler(_cap)
for name in ('opytimizer.core.function', 'opytimizer.core.optimizer', 'opytimizer.optimizers.pso',
             'opytimizer.utils.history', 'opytimizer.core.agent'):
    lg = logging.getLogger(name)
    for hd in list(lg.handlers):
        lg.removeHandler(hd)
    lg.addHandler(logging.NullHandler())


def describe(space, lower_in=None, upper_in=None):
    put('cls', type(space).__name__, 'built', space.built, type(space.built).__name__)
    put('n', space.n_agents, space.n_variables, space.n_dimensions, space.n_iterations)
    put_arr('space.lb', space.lb)
    put_arr('space.ub', space.ub)
    put('lb-is-input', space.lb is lower_in, 'ub-is-input', space.ub is upper_in)
    put('agents', type(space.agents).__name__, len(space.agents))
    put('best-type', type(space.best_agent).__name__)
    put('best-is-first', space.best_agent is space.agents[0])
    put('best-pos-shares', np.shares_memory(space.best_agent.position, space.agents[0].position))
    put_arr('best.pos', space.best_agent.position)
    put_arr('best.lb', space.best_agent.lb)
    put_arr('best.ub', space.best_agent.ub)
    put('best.fit', float(space.best_agent.fit).hex())
    ids = set()
    for k, a in enumerate(space.agents):
        ids.add(id(a))
        put('agent', k, type(a).__name__, a.n_variables, a.n_dimensions, float(a.fit).hex())
        put_arr('pos', a.position)
        put_arr('lb', a.lb)
        put_arr('ub', a.ub)
        put('alias', a.lb is space.lb, a.ub is space.ub,
            np.shares_memory(a.lb, space.lb), np.shares_memory(a.ub, space.ub))
        for b in space.agents[:k]:
            put('share', np.shares_memory(a.position, b.position),
                np.shares_memory(a.lb, b.lb), np.shares_memory(a.ub, b.ub))
    put('distinct', len(ids))
    put('attrs', sorted(vars(space).keys()))


def attempt(tag, thunk):
    put('CASE', tag)
    try:
        res = thunk()
        put('ok')
        return res
    except BaseException as exc:  # noqa
        put('EXC', type(exc).__module__, type(exc).__name__, str(exc))
        return None
    finally:
        put('rng', rng_state())


# ---------------------------------------------------------------- base Space
def base_space(seed, **kw):
    np.random.seed(seed)
    s = Space(**kw)
    put('pre-build', s.built, len(s.agents), fhex(s.lb), fhex(s.ub))
    return s


for seed, kw, lo, up in [
    (0, dict(n_agents=1, n_variables=1, n_dimensions=1, n_iterations=1), [0], [1]),
    (1, dict(n_agents=3, n_variables=2, n_dimensions=4, n_iterations=5), [-1.5, 2], [3.25, 7]),
    (2, dict(n_agents=2, n_variables=3, n_dimensions=1, n_iterations=2), (1, 2, 3), (4, 5, 6)),
]:
    def run(seed=seed, kw=kw, lo=lo, up=up):
        s = base_space(seed, **kw)
        s._build(lo, up)
        describe(s, lo, up)
        # _create_agents on its own: fresh objects each time, nothing stored
        ags, best = s._create_agents()
        put('fresh', len(ags), best is ags[0], any(a is b for a in ags for b in s.agents),
            best is s.best_agent, fhex(best.position), float(best.fit).hex())
        # base class cannot initialize
        s._initialize_agents()
    attempt(f'Space/{seed}', run)


# bound arrays given as ndarray are stored by reference
def run_ref():
    s = base_space(3, n_agents=2, n_variables=2)
    lo = np.array([0.5, -2.0])
    up = np.array([1.5, 2.0])
    s._build(lo, up)
    describe(s, lo, up)
    lo[0] = -9.0
    put_arr('after-mutation', s.lb)
attempt('Space/ndarray-ref', run_ref)


# wrong sizes / types: the exception and the partial state reached
def partial(lo, up, **kw):
    s = base_space(4, **kw)
    try:
        s._build(lo, up)
    finally:
        put('partial', s.built, len(s.agents), fhex(s.lb), fhex(s.ub),
            float(s.best_agent.fit).hex(), fhex(s.best_agent.position))
attempt('Space/lb-short', lambda: partial([0], [1, 2], n_agents=2, n_variables=2))
attempt('Space/ub-short', lambda: partial([0, 0], [1], n_agents=2, n_variables=2))
attempt('Space/both-long', lambda: partial([0, 0, 0], [1, 1, 1], n_agents=2, n_variables=2))
attempt('Space/scalar-lb', lambda: partial(0, [1], n_agents=1, n_variables=1))
attempt('Space/scalar-ub', lambda: partial([0], 1, n_agents=1, n_variables=1))
attempt('Space/none', lambda: partial(None, None, n_agents=1, n_variables=1))
attempt('Space/2d-bounds', lambda: (lambda s: (s._build([[0, 0], [1, 1]], [[2, 2], [3, 3]]), describe(s)))(
    base_space(5, n_agents=2, n_variables=2)))
attempt('Space/string-bounds', lambda: (lambda s: (s._build(['a', 'b'], ['c', 'd']), put(s.lb.dtype, s.ub.dtype, s.built)))(
    base_space(5, n_agents=2, n_variables=2)))


# ---------------------------------------------------------------- constructors
def make(cls, seed, *args, **kw):
    np.random.seed(seed)
    s = cls(*args, **kw)
    describe(s, kw.get('lower_bound'), kw.get('upper_bound'))
    return s


SEARCH_CASES = [
    ('default', 10, {}),
    ('1x1', 11, dict(n_agents=1, n_variables=1, n_iterations=1, lower_bound=[-3], upper_bound=[3])),
    ('5x3', 12, dict(n_agents=5, n_variables=3, n_iterations=7, lower_bound=[-10, 0, 1e-3], upper_bound=[10, 1, 1e3])),
    ('tuple', 13, dict(n_agents=2, n_variables=2, lower_bound=(0, 1), upper_bound=(1, 2))),
    ('ndarray', 14, dict(n_agents=3, n_variables=2, lower_bound=np.array([0.0, -1.0]), upper_bound=np.array([5.0, 1.0]))),
    ('int-ndarray', 15, dict(n_agents=2, n_variables=2, lower_bound=np.array([0, -1]), upper_bound=np.array([5, 1]))),
    ('degenerate', 16, dict(n_agents=2, n_variables=2, lower_bound=[1, 2], upper_bound=[1, 2])),
    ('inverted', 17, dict(n_agents=2, n_variables=2, lower_bound=[1, 5], upper_bound=[0, -5])),
    ('nan', 18, dict(n_agents=2, n_variables=2, lower_bound=[float('nan'), 0], upper_bound=[1, float('nan')])),
    ('inf', 19, dict(n_agents=2, n_variables=2, lower_bound=[-float('inf'), 0], upper_bound=[1, float('inf')])),
    ('huge', 20, dict(n_agents=2, n_variables=1, lower_bound=[-1.7e308], upper_bound=[1.7e308])),
    ('bool', 21, dict(n_agents=2, n_variables=2, lower_bound=[False, False], upper_bound=[True, True])),
    ('big', 22, dict(n_agents=20, n_variables=6, lower_bound=[-1, -2, -3, -4, -5, -6], upper_bound=[1, 2, 3, 4, 5, 6])),
    # errors
    ('short-lb', 30, dict(n_agents=2, n_variables=2, lower_bound=[0], upper_bound=[1, 1])),
    ('short-ub', 31, dict(n_agents=2, n_variables=2, lower_bound=[0, 0], upper_bound=[1])),
    ('zero-agents', 32, dict(n_agents=0, n_variables=2, lower_bound=[0, 0], upper_bound=[1, 1])),
    ('neg-vars', 33, dict(n_agents=2, n_variables=-1, lower_bound=[0], upper_bound=[1])),
    ('float-agents', 34, dict(n_agents=2.0, n_variables=1)),
    ('float-vars', 35, dict(n_agents=2, n_variables=1.0)),
    ('zero-iters', 36, dict(n_agents=2, n_variables=1, n_iterations=0)),
    ('str-iters', 37, dict(n_agents=2, n_variables=1, n_iterations='3')),
    ('scalar-bounds', 38, dict(n_agents=2, n_variables=1, lower_bound=0, upper_bound=1)),
    ('string-bounds', 39, dict(n_agents=2, n_variables=2, lower_bound=['a', 'b'], upper_bound=['c', 'd'])),
    ('2d-bounds', 40, dict(n_agents=2, n_variables=2, lower_bound=[[0, 0], [1, 1]], upper_bound=[[2, 2], [3, 3]])),
    ('unknown-kw', 41, dict(n_agents=2, n_dimensions=3)),
    ('bool-agents', 42, dict(n_agents=True, n_variables=1)),
]
for tag, seed, kw in SEARCH_CASES:
    attempt(f'SearchSpace/{tag}', lambda seed=seed, kw=kw: make(SearchSpace, seed, **kw))
attempt('SearchSpace/positional', lambda: make(SearchSpace, 43, 3, 2, 4, [0, 1], [2, 3]))

HYPER_CASES = [
    ('default', 50, {}),
    ('1x1x1', 51, dict(n_agents=1, n_variables=1, n_dimensions=1, n_iterations=1, lower_bound=[-3], upper_bound=[3])),
    ('4x3x5', 52, dict(n_agents=4, n_variables=3, n_dimensions=5, n_iterations=7, lower_bound=[-10, 0, 1], upper_bound=[10, 1, 9])),
    ('ndarray', 53, dict(n_agents=3, n_variables=2, n_dimensions=4, lower_bound=np.array([0.0, -1.0]), upper_bound=np.array([5.0, 1.0]))),
    ('nan-bounds', 54, dict(n_agents=2, n_variables=2, n_dimensions=2, lower_bound=[float('nan'), 0], upper_bound=[1, float('inf')])),
    ('inverted', 55, dict(n_agents=2, n_variables=2, n_dimensions=3, lower_bound=[1, 5], upper_bound=[0, -5])),
    ('big', 56, dict(n_agents=15, n_variables=4, n_dimensions=8, lower_bound=[0] * 4, upper_bound=[1] * 4)),
    ('short-lb', 60, dict(n_agents=2, n_variables=2, lower_bound=[0], upper_bound=[1, 1])),
    ('short-ub', 61, dict(n_agents=2, n_variables=2, lower_bound=[0, 0], upper_bound=[1])),
    ('zero-dims', 62, dict(n_agents=2, n_variables=1, n_dimensions=0)),
    ('float-dims', 63, dict(n_agents=2, n_variables=1, n_dimensions=2.0)),
    ('zero-agents', 64, dict(n_agents=0)),
    ('str-vars', 65, dict(n_variables='2')),
    ('scalar-bounds', 66, dict(n_agents=2, n_variables=1, lower_bound=0, upper_bound=1)),
]
for tag, seed, kw in HYPER_CASES:
    attempt(f'HyperSpace/{tag}', lambda seed=seed, kw=kw: make(HyperSpace, seed, **kw))
attempt('HyperSpace/positional', lambda: make(HyperSpace, 67, 3, 2, 4, 5, [0, 1], [2, 3]))


# ---------------------------------------------------------------- re-initialization
def reinit_search():
    s = make(SearchSpace, 70, n_agents=3, n_variables=2, lower_bound=[-1, 0], upper_bound=[1, 10])
    old = [a.position for a in s.agents]
    best_before = fhex(s.best_agent.position)
    s._initialize_agents()
    put('inplace', [a.position is o for a, o in zip(s.agents, old)])
    put('best-unchanged', best_before == fhex(s.best_agent.position))
    describe(s)
    # changing the space bounds afterwards and re-initializing
    s.lb = np.array([5.0, 6.0])
    s.ub = np.array([7.0, 8.0])
    s._initialize_agents()
    describe(s)
    # zip truncation: bounds shorter than the agents (set behind the setter's back)
    s._lb = np.array([100.0])
    s._initialize_agents()
    describe(s)
    # bounds longer than the agent's position: IndexError part-way through
    s._lb = np.array([0.0, 0.0, 0.0])
    s._ub = np.array([1.0, 1.0, 1.0])
    try:
        s._initialize_agents()
    finally:
        describe(s)
attempt('SearchSpace/reinit', reinit_search)


def reinit_hyper():
    s = make(HyperSpace, 71, n_agents=3, n_variables=2, n_dimensions=3, lower_bound=[-1, 0], upper_bound=[1, 10])
    old = [a.position for a in s.agents]
    s._initialize_agents()
    put('inplace', [a.position is o for a, o in zip(s.agents, old)])
    describe(s)
    # an agent whose position has been replaced by one with more rows / integer dtype
    s.agents[1].position = np.zeros((4, 3))
    s.agents[2].position = np.zeros((2, 3), dtype=int)
    s._initialize_agents()
    describe(s)
    # position with a different number of columns than n_dimensions: broadcast error
    s.agents[0].position = np.zeros((2, 5))
    try:
        s._initialize_agents()
    finally:
        describe(s)
attempt('HyperSpace/reinit', reinit_hyper)


def hyper_weird_positions():
    s = make(HyperSpace, 72, n_agents=2, n_variables=2, n_dimensions=2, lower_bound=[0, 0], upper_bound=[1, 1])
    s.agents[0].position = [[0.0, 0.0], [0.0, 0.0], [0.0, 0.0]]  # a list of lists
    s._initialize_agents()
    put('list-pos', type(s.agents[0].position).__name__,
        [type(row).__name__ for row in s.agents[0].position],
        [fhex(row) for row in s.agents[0].position])
    put_arr('other', s.agents[1].position)
    s.agents[0].position = np.zeros((0, 2))  # no rows: no draws
    s._initialize_agents()
    put_arr('empty', s.agents[0].position)
    put_arr('other', s.agents[1].position)
attempt('HyperSpace/weird-positions', hyper_weird_positions)


# subclasses that observe the construction order
class Traced(SearchSpace):
    def _create_agents(self):
        put('hook:create', fhex(self.lb), fhex(self.ub), self.built, len(self.agents))
        res = super()._create_agents()
        put('hook:created', len(res[0]), res[1] is res[0][0])
        return res

    def _build(self, lower_bound, upper_bound):
        put('hook:build', self.built)
        super()._build(lower_bound, upper_bound)
        put('hook:built', self.built, float(self.agents[0].position.sum()).hex())

    def _initialize_agents(self):
        put('hook:init', self.built, rng_state())
        super()._initialize_agents()
        put('hook:inited', rng_state())


class TracedHyper(HyperSpace):
    def _create_agents(self):
        put('hook:create', fhex(self.lb), fhex(self.ub), self.built, len(self.agents))
        return super()._create_agents()

    def _initialize_agents(self):
        put('hook:init', self.built, rng_state())
        super()._initialize_agents()
        put('hook:inited', rng_state())


attempt('Traced', lambda: make(Traced, 80, n_agents=3, n_variables=2, lower_bound=[0, 1], upper_bound=[2, 3]))
attempt('Traced/err', lambda: make(Traced, 81, n_agents=3, n_variables=2, lower_bound=[0, 1], upper_bound=[2]))
attempt('TracedHyper', lambda: make(TracedHyper, 82, n_agents=3, n_variables=2, n_dimensions=3,
                                    lower_bound=[0, 1], upper_bound=[2, 3]))


# an Agent subclass-free check of draw order: reproduce the stream by hand
def stream_search():
    lo, up = [-2.0, 0.0, 3.0], [2.0, 1.0, 30.0]
    s = make(SearchSpace, 90, n_agents=4, n_variables=3, lower_bound=lo, upper_bound=up)
    np.random.seed(90)
    ok = True
    for a in s.agents:
        for j in range(3):
            ok = ok and fhex(np.random.uniform(lo[j], up[j], 1)) == fhex(a.position[j])
    put('stream-order', ok)
attempt('SearchSpace/stream', stream_search)


def stream_hyper():
    s = make(HyperSpace, 91, n_agents=4, n_variables=3, n_dimensions=5, lower_bound=[0] * 3, upper_bound=[1] * 3)
    np.random.seed(91)
    ok = True
    for a in s.agents:
        for j in range(3):
            ok = ok and fhex(np.random.uniform(0.0, 1.0, 5)) == fhex(a.position[j])
    put('stream-order', ok)
attempt('HyperSpace/stream', stream_hyper)


# ---------------------------------------------------------------- seeded optimizations
def sphere(x):
    return float(np.sum(x ** 2))


def optimise_search(seed):
    np.random.seed(seed)
    s = SearchSpace(n_agents=6, n_variables=3, n_iterations=8, lower_bound=[-5, -5, -5], upper_bound=[5, 5, 5])
    hist = PSO().run(s, Function(pointer=sphere))
    put_arr('best', s.best_agent.position)
    put('fit', float(s.best_agent.fit).hex())
    for a in s.agents:
        put_arr('p', a.position)
        put('f', float(a.fit).hex())
    put('hist', [float(b[1]).hex() for b in hist.best_agent])


def optimise_hyper(seed):
    np.random.seed(seed)
    lo, up = [-5, -5], [5, 5]
    s = HyperSpace(n_agents=5, n_variables=2, n_dimensions=4, n_iterations=6, lower_bound=lo, upper_bound=up)

    def wrapper(x):
        return sphere(h.span(x, np.array(lo), np.array(up)))
    hist = PSO().run(s, Function(pointer=wrapper))
    put_arr('best', s.best_agent.position)
    put('fit', float(s.best_agent.fit).hex())
    for a in s.agents:
        put_arr('p', a.position)
        put('f', float(a.fit).hex())
    put('hist', [float(b[1]).hex() for b in hist.best_agent])


for seed in (100, 101, 102):
    attempt(f'PSO/search/{seed}', lambda seed=seed: optimise_search(seed))
    attempt(f'PSO/hyper/{seed}', lambda seed=seed: optimise_hyper(seed))

if os.environ.get('SAME_DUMP'):
    print('\n'.join(OUT))
digest = hashlib.sha256('\n'.join(OUT).encode()).hexdigest()
print('records:', len(OUT))
print(digest)
