"""Digest of HyperSpace.check_limits / initialisation and of seeded optimisation runs on a HyperSpace.

Run from the worktree root:
    PYTHONPATH=/tmp/harmless/C13 /venv/bin/python harmlessB/same.py
The digest must be the same with and without harmlessB/patch.diff applied.
"""

import hashlib
import logging
import warnings

import numpy as np

import opytimizer.math.hypercomplex as h
from opytimizer import Opytimizer
from opytimizer.core.function import Function
from opytimizer.optimizers.abc import ABC
from opytimizer.optimizers.fa import FA
from opytimizer.optimizers.hs import HS
from opytimizer.optimizers.pso import PSO
from opytimizer.spaces.hyper import HyperSpace

warnings.simplefilter('ignore')

# Only the digest goes to stdout
logging.disable(logging.CRITICAL)

H = hashlib.sha256()


def feed(tag, value):
    """Adds a result (array, scalar or exception) to the digest."""

    H.update(tag.encode())
    if isinstance(value, BaseException):
        H.update(('EXC:' + type(value).__name__ + ':' + str(value)).encode())
        return
    arr = np.asarray(value)
    H.update(str(arr.dtype).encode())
    H.update(str(arr.shape).encode())
    for v in arr.ravel().tolist():
        H.update(float(v).hex().encode())


def feed_space(tag, space):
    for i, agent in enumerate(space.agents):
        feed(f'{tag}.a{i}', agent.position)
        feed(f'{tag}.f{i}', agent.fit)
    feed(tag + '.best', space.best_agent.position)
    feed(tag + '.lb', space.lb)
    feed(tag + '.ub', space.ub)


def feed_rng(tag):
    state = np.random.get_state()
    H.update(tag.encode())
    H.update(state[1].tobytes())
    H.update(str(state[2]).encode())


SPECIAL = np.array([-np.inf, -1e308, -1.0, -5e-324, -0.0, 0.0, 5e-324, 2.2e-308, 0.5,
                    1.0 - 2 ** -53, 1.0, 1.0 + 2 ** -52, 2.0, 1e308, np.inf, np.nan])

rng = np.random.RandomState(4242)

# 1. Construction (initialisation stream) and clipping of arbitrary positions
case = 0
for n_agents in (1, 3, 8):
    for n_var in (1, 2, 5):
        for n_dim in (1, 2, 4, 9):
            case += 1
            np.random.seed(1000 + case)
            kind = case % 4
            if kind == 0:
                lb, ub = [0] * n_var, [1] * n_var
            elif kind == 1:
                lb = rng.uniform(-1e3, 0, n_var).tolist()
                ub = rng.uniform(0, 1e3, n_var).tolist()
            elif kind == 2:
                lb = rng.uniform(-5, 5, n_var).tolist()
                ub = list(lb)
            else:
                lb = np.full(n_var, -1e300)
                ub = np.full(n_var, 1e300)
            s = HyperSpace(n_agents=n_agents, n_variables=n_var, n_dimensions=n_dim,
                           n_iterations=3, lower_bound=lb, upper_bound=ub)
            tag = f'c{case}'
            feed_space(tag + '.init', s)
            feed_rng(tag + '.rng0')

            # Already inside the unit box: nothing moves
            s.check_limits()
            feed_space(tag + '.noop', s)

            # Random positions far outside
            for agent in s.agents:
                agent.position = rng.normal(0.5, 3.0, (n_var, n_dim))
            s.check_limits()
            feed_space(tag + '.clip', s)

            # Special values, then a second call (idempotence)
            for agent in s.agents:
                agent.position = rng.choice(SPECIAL, (n_var, n_dim))
            s.check_limits()
            feed_space(tag + '.special', s)
            s.check_limits()
            feed_space(tag + '.special2', s)

            # In-place edits of single components
            for agent in s.agents:
                agent.position[rng.randint(n_var)][rng.randint(n_dim)] = 17.0
                agent.position[rng.randint(n_var)][rng.randint(n_dim)] = -3.0
            s.check_limits()
            feed_space(tag + '.edit', s)
            feed_rng(tag + '.rng1')

# 2. Unusual states: bounds replaced after construction, positions of another shape/dtype
np.random.seed(7)
s = HyperSpace(n_agents=2, n_variables=3, n_dimensions=4, lower_bound=[-1, -2, -3], upper_bound=[1, 2, 3])
s.lb = np.array([5.0, 6.0, 7.0])
s.ub = np.array([-5.0, -6.0, -7.0])
for agent in s.agents:
    agent.position = rng.normal(0, 4, (3, 4))
s.check_limits()
feed_space('u.swapped', s)

s.lb = np.zeros((3, 2))
s.ub = np.ones((3, 5))
for agent in s.agents:
    agent.position = rng.normal(0, 4, (3, 4))
s.check_limits()
feed_space('u.2dbounds', s)

# Position with more rows than bounds: extra rows stay untouched
for agent in s.agents:
    agent.position = rng.normal(0, 4, (5, 4))
s.check_limits()
feed_space('u.morerows', s)

# Position with fewer rows than bounds: the same error after the same partial work
for agent in s.agents:
    agent.position = rng.normal(0, 4, (2, 4))
try:
    s.check_limits()
    feed('u.fewrows', np.array([0.0]))
except BaseException as exc:  # pylint: disable=broad-except
    feed('u.fewrows', exc)
feed_space('u.fewrows.after', s)

# Integer positions and list positions
for agent in s.agents:
    agent.position = rng.randint(-3, 4, (3, 4))
s.check_limits()
feed_space('u.int', s)
for agent in s.agents:
    agent.position = rng.normal(0, 2, (3, 4)).tolist()
s.check_limits()
for i, agent in enumerate(s.agents):
    H.update(type(agent.position).__name__.encode())
    for j, row in enumerate(agent.position):
        feed(f'u.list.{i}.{j}', row)

# Empty agent list
s.agents = []
s.check_limits()
feed('u.empty', np.array([float(len(s.agents))]))

# Bounds bypassing the setter (private attribute) with different lengths
np.random.seed(8)
s = HyperSpace(n_agents=2, n_variables=3, n_dimensions=2, lower_bound=[0, 0, 0], upper_bound=[1, 1, 1])
s._lb = np.zeros(2)
for agent in s.agents:
    agent.position = rng.normal(0, 4, (3, 2))
s.check_limits()
feed_space('u.shortlb', s)
s._lb = np.zeros(3)
s._ub = np.ones(1)
for agent in s.agents:
    agent.position = rng.normal(0, 4, (3, 2))
s.check_limits()
feed_space('u.shortub', s)

# 3. Whole seeded optimisation runs on a HyperSpace
BOUNDS = {}


def sphere(x):
    x_span = h.span(x, BOUNDS['lb'], BOUNDS['ub'])
    return np.sum(x_span ** 2)


def shifted(x):
    x_span = h.span(x, BOUNDS['lb'], BOUNDS['ub'])
    return np.sum((x_span - 3.0) ** 2) + np.sum(np.abs(x_span))


run = 0
for opt_cls, hyper in ((PSO, {'w': 0.7, 'c1': 1.7, 'c2': 1.7}), (ABC, {'n_trials': 2}),
                       (FA, {}), (HS, {})):
    for fn in (sphere, shifted):
        for n_var, n_dim in ((2, 4), (3, 1), (1, 7)):
            run += 1
            np.random.seed(300 + run)
            BOUNDS['lb'] = rng.uniform(-10, 0, n_var).tolist()
            BOUNDS['ub'] = rng.uniform(0, 10, n_var).tolist()
            s = HyperSpace(n_agents=6, n_variables=n_var, n_dimensions=n_dim, n_iterations=12,
                           lower_bound=BOUNDS['lb'], upper_bound=BOUNDS['ub'])
            o = Opytimizer(space=s, optimizer=opt_cls(hyperparams=hyper), function=Function(pointer=fn))
            history = o.start()
            tag = f'r{run}'
            feed_space(tag, s)
            for t, best in enumerate(history.best_agent):
                feed(f'{tag}.h{t}.p', best[0])
                feed(f'{tag}.h{t}.f', best[1])
            feed_rng(tag + '.rng')

print(H.hexdigest())
