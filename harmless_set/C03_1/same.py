"""Digest of seeded ABC runs: objective-call sequence, hook snapshots, history, RNG state."""
import hashlib
import logging

import numpy as np

logging.disable(logging.CRITICAL)

from opytimizer import Opytimizer
from opytimizer.core.function import Function
from opytimizer.optimizers.abc import ABC
from opytimizer.spaces.search import SearchSpace

H = hashlib.sha256()
STATS = {'ok': 0, 'exc': 0}


def feed(x):
    if isinstance(x, (list, tuple)):
        H.update(b'[')
        for y in x:
            feed(y)
        H.update(b']')
    elif isinstance(x, np.ndarray):
        H.update(str(x.shape).encode())
        for v in x.ravel().tolist():
            feed(v)
    elif isinstance(x, (float, np.floating)):
        H.update(float(x).hex().encode() + b';')
    elif isinstance(x, (int, np.integer)):
        H.update(str(int(x)).encode() + b';')
    else:
        H.update(repr(x).encode() + b';')


OBJECTIVES = {
    'sphere': lambda x: np.sum(x ** 2),
    'const': lambda x: 3.0,
    'zero': lambda x: 0.0,
    'int': lambda x: int(np.sum(np.floor(x))),
    'neg': lambda x: -1.0 - np.sum(x ** 2),
    'sign': lambda x: float(np.sum(np.sin(3 * x) * x)),
}

CONFIGS = [
    # (n_agents, n_variables, n_iterations, lb, ub, n_trials)
    (1, 1, 3, [-1], [1], 1),
    (2, 1, 4, [0], [10], 1),
    (5, 2, 6, [-5, -5], [5, 5], 2),
    (10, 3, 5, [-10, 0, 2], [10, 1, 2], 10),
    (7, 2, 8, [0, 0], [0, 0], 1),
]


def run_one(name, obj, cfg, seed):
    n_agents, n_vars, n_iter, lb, ub, n_trials = cfg
    np.random.seed(seed)
    calls = []

    def wrapped(x):
        calls.append(np.array(x, dtype=float).copy())
        return obj(x)

    hooks = []

    def hook(optimizer, space, function):
        hooks.append((len(calls), [a.position.copy() for a in space.agents],
                      [a.fit for a in space.agents]))

    space = SearchSpace(n_agents=n_agents, n_iterations=n_iter, n_variables=n_vars,
                        lower_bound=lb, upper_bound=ub)
    opt = ABC(hyperparams={'n_trials': n_trials})
    fn = Function(pointer=wrapped)
    try:
        history = Opytimizer(space=space, optimizer=opt, function=fn).start(
            pre_evaluation_hook=hook)
        STATS['ok'] += 1
        feed('ok')
        feed(len(history.agents))
        for it in history.agents:
            for pos, fit in it:
                feed(np.asarray(pos, dtype=float))
                feed(fit)
        for pos, fit in history.best_agent:
            feed(np.asarray(pos, dtype=float))
            feed(fit)
    except Exception as ex:  # same exceptions must be raised for the same inputs
        STATS['exc'] += 1
        feed('exc')
        feed(type(ex).__name__)
        feed(str(ex))
    feed(len(calls))
    feed(calls)
    feed(len(hooks))
    for n, ps, fs in hooks:
        feed(n)
        feed(ps)
        feed(fs)
    feed([a.position for a in space.agents])
    feed([a.fit for a in space.agents])
    feed(space.best_agent.position)
    feed(space.best_agent.fit)
    # the random stream must have been consumed identically
    st = np.random.get_state()
    feed(st[1])
    feed(st[2])


def direct_calls():
    """Exercises _send_employee / _send_onlooker directly on a hand-made population."""
    for seed in (0, 1, 2):
        for name in ('sphere', 'neg', 'const'):
            np.random.seed(100 + seed)
            space = SearchSpace(n_agents=6, n_iterations=1, n_variables=2,
                                lower_bound=[-3, -3], upper_bound=[3, 3])
            fn = Function(pointer=OBJECTIVES[name])
            for a in space.agents:
                a.fit = fn.pointer(a.position)
            opt = ABC()
            trials = np.zeros(6)
            opt._send_employee(space.agents, fn, trials)
            feed(trials)
            if name != 'neg':  # negative fitness sums can stall the onlooker loop
                opt._send_onlooker(space.agents, fn, trials)
                feed(trials)
            feed([a.position for a in space.agents])
            feed([a.fit for a in space.agents])
            feed(np.random.get_state()[2])


for name in sorted(OBJECTIVES):
    for ci, cfg in enumerate(CONFIGS):
        for seed in (0, 7, 12345):
            feed(name)
            feed(ci)
            feed(seed)
            run_one(name, OBJECTIVES[name], cfg, seed)

direct_calls()
print(H.hexdigest())
import sys
print(STATS, file=sys.stderr)
