"""Exercises WeightedFunction (construction, _build, evaluation, use in a seeded run) and prints a digest."""
import functools
import hashlib

import numpy as np

from opytimizer.core.function import Function
from opytimizer.functions.weighted import WeightedFunction
from opytimizer.optimizers import pso
from opytimizer.spaces.search import SearchSpace

out = []


def flat(v):
    if isinstance(v, (list, tuple)):
        return '[' + ','.join(flat(t) for t in v) + ']'
    if isinstance(v, np.ndarray):
        return f'{v.dtype}{v.shape}' + flat(v.tolist())
    if isinstance(v, (float, np.floating)):
        return type(v).__name__ + ':' + float(v).hex()
    return type(v).__name__ + ':' + repr(v)


def rec(tag, thunk):
    try:
        return thunk()
    except BaseException as exc:  # noqa
        out.append(f'{tag}: EXC {type(exc).__module__}.{type(exc).__name__}: {exc}')
        return None


calls = []


def sphere(x):
    calls.append('sphere')
    return np.sum(x ** 2)


def absum(x):
    calls.append('absum')
    return np.sum(np.abs(x))


def vec(x):
    calls.append('vec')
    return np.asarray(x).ravel() * 2.0


def ivec(x):
    calls.append('ivec')
    return np.arange(np.asarray(x).size)


def const(x):
    calls.append('const')
    return 3


def two(x, y):
    return 0


class Obj:
    def __call__(self, x):
        calls.append('Obj')
        return float(np.max(x))


def name_of(f):
    p = f.pointer
    return getattr(p, '__name__', type(p).__name__)


def describe(tag, w, given_functions, given_weights):
    if w is None:
        return
    fs = w.functions
    out.append(f'{tag}: n={len(fs)} types={[type(f).__name__ for f in fs]} names={[name_of(f) for f in fs]}')
    out.append(f'{tag}: wraps_given={[f.pointer is g for f, g in zip(fs, given_functions)]} '
               f'all_built={[f.built for f in fs]} distinct={len(set(map(id, fs))) == len(fs)}')
    out.append(f'{tag}: functions_is_given={fs is given_functions} weights_is_given={w.weights is given_weights} '
               f'built={w.built} pointer_callable={callable(w.pointer)} attrs={sorted(vars(w))}')


rng = np.random.RandomState(99)
points = [rng.uniform(-3, 3, size=(n, d)) for n, d in [(1, 1), (3, 1), (2, 4)]] + [np.zeros((2, 1)), 2.5]

obj = Obj()
part = functools.partial(two, 1.5)
cases = [
    ('two', [sphere, absum], [0.3, 0.7]),
    ('one', [sphere], [1.0]),
    ('three', [sphere, absum, const], [0.1, 0.2, 0.7]),
    ('empty', [], []),
    ('int-weights', [const, const, sphere], [1, 2, 3]),
    ('more-weights', [sphere], [0.5, 0.25, 0.125]),
    ('more-functions', [sphere, absum, const], [0.5]),
    ('no-weights', [sphere, absum], []),
    ('vec', [vec, sphere, vec], [0.1, 0.2, 0.3]),
    ('ivec-then-float', [ivec, vec], [1, 0.5]),
    ('objects', [obj, part, abs], [1.0, -1.0, 1e-3]),
    ('repeated', [sphere, sphere, sphere], [0.1, 0.1, 0.1]),
    ('nan-weight', [sphere, absum], [float('nan'), float('inf')]),
    ('str-weight', [sphere], ['w']),
    ('bad-second', [sphere, two, absum], [1.0, 1.0, 1.0]),
    ('bad-first', [3, sphere], [1.0, 1.0]),
    ('bad-last', [sphere, absum, None], [1.0, 1.0, 1.0]),
    ('already-wrapped', [Function(pointer=sphere)], [1.0]),
]

for tag, fns, ws in cases:
    del calls[:]
    w = rec(f'new[{tag}]', lambda: WeightedFunction(functions=fns, weights=ws))
    out.append(f'new[{tag}]: given list untouched={[getattr(g, "__name__", type(g).__name__) for g in fns]} calls={calls}')
    describe(f'new[{tag}]', w, fns, ws)
    if w is None:
        continue
    for k, p in enumerate(points):
        del calls[:]
        with np.errstate(all='ignore'):
            r = rec(f'eval[{tag}][{k}]', lambda: w.pointer(p))
        out.append(f'eval[{tag}][{k}]: {flat(r)} calls={calls}')

# Constructor type checks and defaults
for tag, kw in [('tuple-functions', dict(functions=(sphere,), weights=[1.0])),
                ('tuple-weights', dict(functions=[sphere], weights=(1.0,))),
                ('none-functions', dict(functions=None, weights=[1.0])),
                ('callable-functions', dict(functions=sphere, weights=[1.0])),
                ('defaults', dict()), ('defaults-again', dict())]:
    w = rec(f'ctor[{tag}]', lambda: WeightedFunction(**kw))
    if w is not None:
        out.append(f'ctor[{tag}]: functions={w.functions} weights={w.weights} built={w.built} '
                   f'value={flat(w.pointer(points[0]))}')
out.append(f'ctor defaults: {WeightedFunction.__init__.__defaults__}')

# _build called directly: other iterables, failures in the middle, re-building
w = WeightedFunction(functions=[sphere], weights=[2.0])
first = w.functions
old_pointer = w.pointer
r = rec('build[tuple]', lambda: w._build((absum, const)))
out.append(f'build[tuple]: ret={r!r} names={[name_of(f) for f in w.functions]} type={type(w.functions).__name__} '
           f'new_list={w.functions is not first} new_pointer={w.pointer is not old_pointer} '
           f'value={flat(w.pointer(points[1]))}')
seen = []


def gen():
    for g in (sphere, absum, two, const):
        seen.append(g.__name__)
        yield g


kept = w.functions
kept_pointer = w.pointer
rec('build[gen-bad]', lambda: w._build(gen()))
out.append(f'build[gen-bad]: consumed={seen} functions_kept={w.functions is kept} '
           f'pointer_kept={w.pointer is kept_pointer} built={w.built}')
rec('build[gen-ok]', lambda: w._build(g for g in (const, sphere)))
out.append(f'build[gen-ok]: names={[name_of(f) for f in w.functions]} value={flat(w.pointer(points[1]))}')
rec('build[self]', lambda: w._build(w.functions))
out.append(f'build[self]: EXC above expected; names={[name_of(f) for f in w.functions]}')
rec('build[none]', lambda: w._build(None))
rec('build[dict]', lambda: w._build({sphere: 1, absum: 2}))
out.append(f'build[dict]: names={[name_of(f) for f in w.functions]}')
rec('build[str]', lambda: w._build('ab'))
out.append(f'build[str]: names={[name_of(f) for f in w.functions]}')

# The strategy reads functions/weights lazily: later edits are seen
w = WeightedFunction(functions=[sphere, absum], weights=[1.0, 1.0])
v0 = w.pointer(points[1])
w.weights[1] = 10.0
w.functions.append(Function(pointer=const))
w.weights.append(0.5)
out.append(f'lazy: {flat(v0)} {flat(w.pointer(points[1]))}')

# Seeded optimization using a weighted objective
for seed in range(3):
    np.random.seed(seed)
    space = SearchSpace(n_agents=4, n_variables=2, n_iterations=6, lower_bound=[-5.0, -5.0], upper_bound=[5.0, 5.0])
    w = WeightedFunction(functions=[sphere, absum], weights=[0.6, 0.4])
    h = rec(f'opt{seed}', lambda: pso.PSO().run(space, w))
    out.append(f'opt{seed}: best={flat(space.best_agent.position)} {flat(space.best_agent.fit)}')
    if h is not None:
        out.append(f'opt{seed}: hist={flat(h.best_agent)}')
    out.append(f'opt{seed}: next random={np.random.uniform().hex()}')

text = '\n'.join(out)
print(hashlib.sha256(text.encode()).hexdigest())
