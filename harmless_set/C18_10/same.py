import hashlib
import logging
import warnings

import numpy as np

warnings.simplefilter('ignore')
logging.disable(logging.CRITICAL)

_H = hashlib.sha256()
_N = [0]


def enc(x):
    """Canonical, bit-exact textual encoding of a result."""
    if isinstance(x, np.ndarray):
        return 'nd[%s|%s|%s]' % (x.dtype, x.shape, ','.join(enc(v) for v in x.ravel().tolist()))
    if isinstance(x, (bool, np.bool_)):
        return 'b%d' % bool(x)
    if isinstance(x, (float, np.floating)):
        return type(x).__name__ + ':' + float(x).hex()
    if isinstance(x, (int, np.integer)):
        return type(x).__name__ + ':' + str(int(x))
    if isinstance(x, (list, tuple)):
        return type(x).__name__ + '(' + ','.join(enc(v) for v in x) + ')'
    if isinstance(x, dict):
        return '{' + ','.join(enc(k) + '=' + enc(x[k]) for k in sorted(x)) + '}'
    if x is None or isinstance(x, str):
        return repr(x)
    return '<' + type(x).__name__ + '>'


def rng():
    """Digest of the global NumPy random state (detects any change in consumption)."""
    s = np.random.get_state()
    return hashlib.sha256(s[1].tobytes() + repr(s[2:]).encode()).hexdigest()[:16]


def rec(tag, *vals):
    line = tag + ' :: ' + ' ; '.join(v if isinstance(v, str) and v.startswith('!') else enc(v) for v in vals)
    _H.update(line.encode() + b'\n')
    _N[0] += 1


def call(tag, f, *a, **k):
    """Calls f, records its result or its exception (type and message) and the RNG state afterwards."""
    try:
        out = f(*a, **k)
        rec(tag, out, '!rng=' + rng())
        return out
    except BaseException as ex:  # noqa
        rec(tag, '!EXC ' + type(ex).__name__ + ': ' + str(ex), '!rng=' + rng())
        return None


def finish():
    print('records:', _N[0])
    print(_H.hexdigest())

import opytimizer.math.distribution as d
from opytimizer import Opytimizer
from opytimizer.core.function import Function
from opytimizer.optimizers.cs import CS
from opytimizer.spaces.search import SearchSpace

nan, inf = float('nan'), float('inf')
np.random.seed(2024)

PROBS = [0.0, 1.0, 0.5, 0.2, 0.999999, 1e-12, -0.5, 1.5, nan, inf, -inf, 0, 1, True, False,
         np.float64(0.3), np.float32(0.7), np.array(0.4), np.array([0.6])]
SIZES = [0, 1, 2, 10, 57, True, np.int64(4)]

for pi_, prob in enumerate(PROBS):
    for size in SIZES:
        for seed in (0, 7):
            np.random.seed(seed)
            call('b|p%d=%s|n=%s|s=%d' % (pi_, enc(prob), enc(size), seed),
                 d.generate_bernoulli_distribution, prob, size)

# Defaults and keywords
np.random.seed(1)
call('b|defaults', d.generate_bernoulli_distribution)
call('b|kw', d.generate_bernoulli_distribution, size=6, prob=0.5)

# A probability equal to one of the draws: the comparison is strict
np.random.seed(11)
draws = np.random.uniform(0, 1, 8)
for k in (0, 3, 7):
    np.random.seed(11)
    call('b|tie%d' % k, d.generate_bernoulli_distribution, float(draws[k]), 8)
    np.random.seed(11)
    call('b|tie%d+' % k, d.generate_bernoulli_distribution, float(np.nextafter(draws[k], 2.0)), 8)

# Bad arguments: sizes (raise before, during or after the draw) and probabilities
for name, prob, size in [
        ('neg', 0.5, -1), ('float', 0.5, 3.0), ('tuple', 0.5, (2, 2)), ('tuple1', 0.5, (3,)), ('list', 0.5, [3]),
        ('none', 0.5, None), ('str', 0.5, '3'), ('pstr', 'a', 3), ('pnone', None, 3), ('pnone0', None, 0),
        ('parr', np.array([0.1, 0.9]), 3), ('plist', [0.5], 2), ('plist2', [0.5, 0.5], 2), ('pcomplex', 1j, 2),
        ('pstr0', 'a', 0)]:
    np.random.seed(5)
    call('b|bad|' + name, d.generate_bernoulli_distribution, prob, size)

# Each call returns a fresh array
np.random.seed(2)
a = d.generate_bernoulli_distribution(0.5, 5)
b = d.generate_bernoulli_distribution(0.5, 5)
rec('fresh', a is b, np.shares_memory(a, b), a, b, a.flags['OWNDATA'], a.flags['WRITEABLE'])

# Consecutive calls share one stream
np.random.seed(77)
for i in range(5):
    call('b|chain%d' % i, d.generate_bernoulli_distribution, 0.1 * (i + 1), 9)
rec('after-chain', np.random.uniform())


# End-to-end: seeded Cuckoo Search runs (the nest-abandoning step draws a Bernoulli mask)
def sphere(x):
    return np.sum(x ** 2)


for seed, pp in ((0, 0.2), (1, 0.7)):
    np.random.seed(seed)
    s = SearchSpace(n_agents=8, n_iterations=25, n_variables=3, lower_bound=[-10, -10, -10],
                    upper_bound=[10, 10, 10])
    o = Opytimizer(space=s, optimizer=CS(hyperparams={'alpha': 0.3, 'beta': 1.5, 'p': pp}),
                   function=Function(pointer=sphere))
    h = o.start()
    rec('cs|s=%d' % seed, [b for b in h.best_agent], [a.position for a in s.agents], [a.fit for a in s.agents],
        s.best_agent.fit, s.best_agent.position, '!rng=' + rng())

finish()
