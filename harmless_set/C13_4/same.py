"""Exercises opytimizer.math.hypercomplex.span / norm on seeded inputs and
prints a digest as the last line."""

import hashlib
import warnings

import numpy as np

import opytimizer.math.hypercomplex as hc

warnings.simplefilter('ignore')
np.seterr(all='ignore')

h = hashlib.sha256()


def rec(*items):
    for it in items:
        h.update(repr(it).encode())
        h.update(b'|')


def enc(out):
    a = np.asarray(out)
    if a.dtype.kind == 'c':
        vals = [(float(z.real).hex(), float(z.imag).hex()) for z in a.ravel()]
    elif a.dtype.kind == 'O':
        vals = [repr(z) for z in a.ravel()]
    else:
        vals = [float(z).hex() for z in a.ravel()]
    return (type(out).__name__, str(a.dtype), a.shape, vals)


def attempt(tag, fn):
    try:
        rec(tag, 'ok', enc(fn()))
    except BaseException as ex:  # noqa
        rec(tag, 'exc', type(ex).__name__, str(ex))


rng = np.random.RandomState(2020)

# Regular seeded cases: (n_variables, n_dimensions)
for (nv, nd) in [(1, 1), (1, 4), (2, 4), (3, 2), (5, 8), (10, 1), (7, 3)]:
    for k in range(4):
        arr = rng.uniform(0, 1, (nv, nd))
        lb = list(rng.uniform(-10, 0, nv))
        ub = list(rng.uniform(0, 10, nv))
        before = arr.copy()
        attempt(f'span/{nv}x{nd}/{k}/list', lambda: hc.span(arr, lb, ub))
        attempt(f'span/{nv}x{nd}/{k}/array', lambda: hc.span(arr, np.array(lb), np.array(ub)))
        attempt(f'span/{nv}x{nd}/{k}/tuple', lambda: hc.span(arr, tuple(lb), tuple(ub)))
        attempt(f'norm/{nv}x{nd}/{k}', lambda: hc.norm(arr))
        rec('unchanged', bool((arr == before).all()))

# The bounds passed as arrays are copied, never modified and never returned
arr = rng.uniform(0, 1, (3, 4))
lb = np.array([-1.0, -2.0, -3.0])
ub = np.array([1.0, 2.0, 3.0])
out = hc.span(arr, lb, ub)
rec('alias', out is lb, out is ub, np.shares_memory(out, lb), np.shares_memory(out, arr),
    lb.tolist(), ub.tolist())

# Edge cases and wrong inputs
edge = {
    'scalar-bounds': (rng.uniform(0, 1, (3, 4)), -5.0, 5.0),
    'int-bounds': (rng.uniform(0, 1, (2, 2)), [0, 1], [10, 20]),
    'int-array': (np.array([[1, 2], [3, 4]]), [0, 0], [1, 1]),
    'float32': (rng.uniform(0, 1, (2, 4)).astype(np.float32), [0.0, 0.0], [1.0, 1.0]),
    'complex': (np.array([[1 + 2j, 0.5j], [0.25, 1j]]), [0.0, 0.0], [1.0, 1.0]),
    'nan': (np.array([[np.nan, 1.0], [0.5, 0.5]]), [0.0, 0.0], [1.0, 1.0]),
    'inf': (np.array([[np.inf, 1.0], [0.5, 0.5]]), [0.0, -np.inf], [1.0, np.inf]),
    'zeros': (np.zeros((2, 3)), [1.0, 2.0], [3.0, 4.0]),
    'empty-dims': (np.zeros((2, 0)), [1.0, 2.0], [3.0, 4.0]),
    'empty-vars': (np.zeros((0, 3)), [], []),
    'mismatch': (rng.uniform(0, 1, (3, 4)), [0.0, 0.0], [1.0, 1.0]),
    'mismatch-lbub': (rng.uniform(0, 1, (2, 4)), [0.0, 0.0], [1.0, 1.0, 1.0]),
    'mismatch-both': (rng.uniform(0, 1, (4,)), [0.0, 0.0], [1.0, 1.0, 1.0]),
    '1d': (rng.uniform(0, 1, (4,)), [0.0], [1.0]),
    '3d': (rng.uniform(0, 1, (2, 3, 4)), [0.0, 0.0], [1.0, 1.0]),
    'list-array': ([[0.5, 0.5], [0.1, 0.2]], [0.0, 0.0], [1.0, 1.0]),
    'none-array': (None, [0.0], [1.0]),
    'str-bounds': (rng.uniform(0, 1, (2, 2)), ['a', 'b'], ['c', 'd']),
    'none-bounds': (rng.uniform(0, 1, (2, 2)), None, None),
    'ragged': (rng.uniform(0, 1, (2, 2)), [[0.0], [0.0, 1.0]], [1.0, 1.0]),
    '2d-bounds': (rng.uniform(0, 1, (2, 2)), [[0.0, 0.0]], [[1.0, 1.0]]),
}
for name, (arr, lb, ub) in edge.items():
    attempt(f'edge/span/{name}', lambda: hc.span(arr, lb, ub))
    attempt(f'edge/norm/{name}', lambda: hc.norm(arr))

print(h.hexdigest())
