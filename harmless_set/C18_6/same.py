"""Digest of generate_bernoulli_distribution behaviour on seeded inputs."""
import hashlib
import pickle

import numpy as np

import opytimizer.math.distribution as d

H = hashlib.sha256()


def put(*items):
    for it in items:
        H.update(repr(it).encode())
        H.update(b'|')


def rng_state():
    s = np.random.get_state()
    return hashlib.sha256(pickle.dumps((s[0], s[1].tobytes(), s[2], s[3], s[4]))).hexdigest()


def run(tag, seed, *args, **kwargs):
    np.random.seed(seed)
    try:
        out = d.generate_bernoulli_distribution(*args, **kwargs)
        put(tag, 'ok', type(out).__name__, str(out.dtype), out.shape,
            [float(x).hex() for x in out.ravel()], out.flags['OWNDATA'])
    except Exception as e:  # noqa
        put(tag, 'exc', type(e).__name__, str(e))
    put(rng_state())


for seed in range(10):
    for prob in (0.0, 0.1, 0.5, 0.9, 1.0, 1.5, -0.5):
        for size in (1, 2, 7, 50):
            run('grid', seed, prob, size)

run('default', 1)
run('kw', 2, prob=0.3, size=5)
run('size0', 3, 0.5, 0)
run('sizeneg', 3, 0.5, -1)
run('sizefloat', 3, 0.5, 2.0)
run('sizenone', 3, 0.5, None)
run('sizetuple', 3, 0.5, (2, 3))
run('sizetuple1', 3, 0.5, (4,))
run('sizebool', 3, 0.5, True)
run('sizenp', 3, 0.5, np.int64(6))
run('sizestr', 3, 0.5, '3')
run('probnan', 4, float('nan'), 6)
run('probinf', 4, float('inf'), 6)
run('probninf', 4, float('-inf'), 6)
run('probnp', 4, np.float64(0.4), 6)
run('probint', 4, 1, 6)
run('probstr', 4, 'x', 3)
run('probnone', 4, None, 3)
run('probarr1', 4, np.array([0.5]), 3)
run('probarr2', 4, np.array([0.5, 0.2]), 3)
run('probcomplex', 4, 0.5 + 0j, 3)

# exact boundary: probability equal to a drawn number (strict `<`)
np.random.seed(21)
draw = np.random.uniform(0, 1, 8)
for k in range(8):
    run('edge%d' % k, 21, float(draw[k]), 8)

# consecutive calls share the stream
np.random.seed(5)
a = d.generate_bernoulli_distribution(0.5, 4)
b = d.generate_bernoulli_distribution(0.5, 4)
put('seq', a.tolist(), b.tolist(), a is b, rng_state())

print(H.hexdigest())
