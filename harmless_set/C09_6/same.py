"""Exercises GP._evaluate and GP._reproduction on seeded inputs and prints a digest."""
import hashlib
import logging
import sys

import numpy as np

logging.disable(logging.CRITICAL)

from opytimizer.core import function
from opytimizer.optimizers import gp
from opytimizer.spaces import tree

H = hashlib.sha256()


def put(*items):
    for it in items:
        H.update(repr(it).encode())
        H.update(b'|')


def fx(x):
    a = np.asarray(x, dtype=float).ravel()
    return [float(v).hex() for v in a]


def rng_mark():
    st = np.random.get_state()
    return hashlib.sha256(st[1].tobytes()).hexdigest()[:16], int(st[2])


def snapshot(space):
    put('trees', [str(t) for t in space.trees])
    put('pos', [fx(a.position) for a in space.agents])
    put('fit', [fx(a.fit) for a in space.agents])
    put('fit-type', [type(a.fit).__name__ for a in space.agents])
    put('best', str(space.best_tree), fx(space.best_agent.position), fx(space.best_agent.fit))
    # aliasing visible from outside
    ids_t = [id(t) for t in space.trees]
    ids_a = [id(a) for a in space.agents]
    put('distinct', len(set(ids_t)), len(set(ids_a)))
    put('alias-best', any(space.best_tree is t for t in space.trees),
        any(space.best_agent is a for a in space.agents),
        any(space.best_agent.position is a.position for a in space.agents))
    put('alias-pos', [a.position is t.position for a, t in zip(space.agents, space.trees)])
    put('rng', rng_mark())


def sphere(x):
    return np.sum(x ** 2)


def shifted(x):
    return np.sum((x - 3.0) ** 2) - 5.0


def with_nan(x):
    s = np.sum(x)
    return float('nan') if s > 5 else s


def array_valued(x):
    return x[0] ** 2


class Counting:
    def __init__(self, limit):
        self.calls = 0
        self.limit = limit

    def __call__(self, x):
        self.calls += 1
        if self.calls == self.limit:
            raise ZeroDivisionError('boom')
        return np.sum(np.abs(x))


def make_space(seed, **kw):
    np.random.seed(seed)
    args = dict(n_trees=8, n_terminals=3, n_variables=2, n_iterations=3, min_depth=1,
                max_depth=4, functions=['SUM', 'SUB', 'MUL', 'DIV'],
                lower_bound=[-5, 0], upper_bound=[5, 10])
    args.update(kw)
    return tree.TreeSpace(**args)


def attempt(label, fn):
    try:
        fn()
        put(label, 'ok')
    except Exception as ex:  # noqa
        put(label, type(ex).__name__, str(ex))


# 1. _evaluate on several seeded spaces and objectives
for seed in (0, 1, 7, 123):
    for obj in (sphere, shifted, with_nan, array_valued):
        space = make_space(seed)
        opt = gp.GP()
        f = function.Function(pointer=obj)
        before_trees = list(space.trees)
        before_agents = list(space.agents)
        before_best_agent = space.best_agent
        attempt(('eval', seed, obj.__name__), lambda: opt._evaluate(space, f))
        put('same-objs', all(a is b for a, b in zip(before_trees, space.trees)),
            all(a is b for a, b in zip(before_agents, space.agents)),
            before_best_agent is space.best_agent)
        snapshot(space)
        # evaluating a second time must not change anything further
        attempt(('eval2', seed, obj.__name__), lambda: opt._evaluate(space, f))
        snapshot(space)

# 2. _evaluate with an objective that raises mid-way
for limit in (1, 4, 8):
    space = make_space(5)
    opt = gp.GP()
    c = Counting(limit)
    f = function.Function(pointer=c)
    attempt(('eval-raise', limit), lambda: opt._evaluate(space, f))
    put('calls', c.calls)
    snapshot(space)

# 3. _evaluate with single tree, single function, unary functions
for kw in (dict(n_trees=1), dict(n_trees=2, functions=['EXP', 'LOG', 'SQRT', 'ABS', 'COS', 'SIN']),
           dict(n_trees=5, min_depth=1, max_depth=1), dict(n_trees=6, n_variables=1,
                                                         lower_bound=[0], upper_bound=[10])):
    space = make_space(11, **kw)
    opt = gp.GP()
    f = function.Function(pointer=sphere)
    attempt(('eval-kw', sorted(kw.items())), lambda: opt._evaluate(space, f))
    snapshot(space)

# 4. _reproduction with several probabilities (including 0 individuals and all individuals)
for seed in (0, 3, 42):
    for p in (0.0, 0.1, 0.25, 0.5, 1.0):
        space = make_space(seed, n_trees=9)
        opt = gp.GP(hyperparams={'p_reproduction': p})
        f = function.Function(pointer=shifted)
        opt._evaluate(space, f)
        before_trees = list(space.trees)
        before_agents = list(space.agents)
        trees_list = space.trees
        agents_list = space.agents
        np.random.seed(seed + 1000)
        attempt(('repro', seed, p), lambda: opt._reproduction(space))
        put('lists-kept', trees_list is space.trees, agents_list is space.agents)
        put('kept', [a is b for a, b in zip(before_trees, space.trees)],
            [a is b for a, b in zip(before_agents, space.agents)])
        put('new-from-old', [any(t is o for o in before_trees) for t in space.trees])
        # parents of the copied roots and structure
        put('roots', [t.parent is None for t in space.trees])
        put('post', [[n.name for n in t.post_order] for t in space.trees])
        snapshot(space)

# 5. _reproduction on ties / negative / NaN / unevaluated fitness
def set_fits(space, fits):
    for a, v in zip(space.agents, fits):
        a.fit = v


cases = {
    'ties': [1.0, 1.0, 1.0, 1.0, 1.0, 1.0],
    'neg': [-1.0, -2.0, -3.0, -0.5, -7.0, -0.25],
    'mixed': [3.0, -2.0, 0.0, 0.0, 5.0, 5.0],
    'nan': [1.0, float('nan'), 2.0, 0.5, float('nan'), 4.0],
    'inf': [float('inf'), 1.0, 2.0, float('inf'), 0.1, 9.0],
    'ints': [4, 3, 2, 1, 0, 7],
}
for name, fits in cases.items():
    for p in (0.34, 1.0):
        space = make_space(2, n_trees=6)
        opt = gp.GP(hyperparams={'p_reproduction': p})
        set_fits(space, fits)
        np.random.seed(77)
        attempt(('repro-case', name, p), lambda: opt._reproduction(space))
        snapshot(space)

# unevaluated space (all fitness at float max) and one tree only
for kw in (dict(n_trees=4), dict(n_trees=1)):
    space = make_space(9, **kw)
    opt = gp.GP(hyperparams={'p_reproduction': 1.0})
    np.random.seed(5)
    attempt(('repro-fresh', sorted(kw.items())), lambda: opt._reproduction(space))
    snapshot(space)

# array-valued fitness (as produced by objectives returning x[0]**2)
space = make_space(4, n_trees=5)
opt = gp.GP(hyperparams={'p_reproduction': 0.6})
opt._evaluate(space, function.Function(pointer=array_valued))
np.random.seed(6)
attempt('repro-array', lambda: opt._reproduction(space))
snapshot(space)

# bogus spaces: exception types
class NoAgents:
    n_trees = 3


class NoTrees:
    n_trees = 3

    def __init__(self):
        self.agents = make_space(1, n_trees=3).agents


opt = gp.GP(hyperparams={'p_reproduction': 1.0})
np.random.seed(8)
attempt('repro-noagents', lambda: opt._reproduction(NoAgents()))
attempt('repro-notrees', lambda: opt._reproduction(NoTrees()))
attempt('repro-none', lambda: opt._reproduction(None))
attempt('eval-none', lambda: opt._evaluate(None, None))
sp = make_space(1, n_trees=3)
attempt('eval-nofunc', lambda: opt._evaluate(sp, None))
put('rng', rng_mark())

# 6. full seeded runs (evaluate + reproduction + crossover + mutation interplay)
for seed in (0, 21):
    space = make_space(seed, n_trees=10, n_iterations=6)
    opt = gp.GP(hyperparams={'p_reproduction': 0.3, 'p_mutation': 0.2, 'p_crossover': 0.2,
                             'prunning_ratio': 0.1})
    np.random.seed(seed + 1)
    hist = opt.run(space, function.Function(pointer=sphere))
    put('hist', [[(fx(p), fx(ft)) for p, ft in it] for it in hist.agents])
    put('hist-best', [(fx(p), fx(ft)) for p, ft in hist.best_agent])
    put('hist-tree', [str(t) for t in hist.best_tree])
    snapshot(space)

print(H.hexdigest())
