"""Digest of History.dump called directly (fresh keys, repeated keys, colliding names, store_best_only) and through seeded runs.

Run as: cd /tmp/harmless/C02 && PYTHONPATH=/tmp/harmless/C02 /venv/bin/python harmlessC/same.py
"""
import hashlib
import logging
import os
import tempfile

os.chdir(tempfile.mkdtemp())  # opytimizer.log goes to a scratch directory

import numpy as np

logging.disable(logging.CRITICAL)

from opytimizer.core.function import Function
from opytimizer.core.optimizer import Optimizer
from opytimizer.optimizers.abc import ABC
from opytimizer.optimizers.ba import BA
from opytimizer.optimizers.bha import BHA
from opytimizer.optimizers.cs import CS
from opytimizer.optimizers.fa import FA
from opytimizer.optimizers.fpa import FPA
from opytimizer.optimizers.gsa import GSA
from opytimizer.optimizers.hc import HC
from opytimizer.optimizers.hs import HS
from opytimizer.optimizers.ihs import IHS
from opytimizer.optimizers.pso import PSO
from opytimizer.optimizers.aiwpso import AIWPSO
from opytimizer.optimizers.rpso import RPSO
from opytimizer.optimizers.sa import SA
from opytimizer.optimizers.sca import SCA
from opytimizer.optimizers.wca import WCA
from opytimizer.spaces.hyper import HyperSpace
from opytimizer.spaces.search import SearchSpace
from opytimizer.utils.history import History
from opytimizer import Opytimizer

H = hashlib.sha256()


def feed(x):
    """Feeds any nested structure of numbers into the digest."""
    if isinstance(x, (list, tuple)):
        H.update(b'[')
        for v in x:
            feed(v)
        H.update(b']')
    elif isinstance(x, np.ndarray):
        H.update(str(x.shape).encode() + str(x.dtype).encode())
        feed(x.tolist())
    elif isinstance(x, (float, np.floating)):
        H.update(float(x).hex().encode() + b';')
    else:
        H.update(repr(x).encode() + b';')


def sphere(x):
    return float(np.sum(x ** 2))


def plateau(x):
    return float(np.sum(np.floor(np.abs(x))))


def sign_changing(x):
    return float(np.sum(x ** 3 - 2 * x))


def multimodal(x):
    return float(np.sum(x ** 2 - 10 * np.cos(2 * np.pi * x) + 10))


def boundary(x):
    return float(np.sum(x))


def constant(x):
    return 1.0


OBJECTIVES = [sphere, plateau, sign_changing, multimodal, boundary, constant]
OPTIMIZERS = [ABC, BA, BHA, CS, FA, FPA, GSA, HC, HS, IHS, SA, SCA, WCA, PSO, AIWPSO, RPSO]


def rng_state():
    s = np.random.get_state()
    return [s[0], hashlib.sha256(s[1].tobytes()).hexdigest(), s[2], s[3], float(s[4])]


def feed_history(history, skip=('time',)):
    """Feeds every attribute of a History, in insertion order (attribute creation order matters)."""
    feed(list(history.__dict__.keys()))
    for k, v in history.__dict__.items():
        if k in skip:
            feed([k, len(v)])
        else:
            feed([k, v])


def attempt(label, thunk):
    try:
        out = thunk()
        feed([label, 'ok', out])
    except Exception as exc:
        feed([label, 'EXC', type(exc).__name__, str(exc)])


def direct_calls():
    for store_best_only in (False, True):
        for seed in (0, 1, 2):
            np.random.seed(seed)
            space = SearchSpace(n_agents=3, n_variables=2, n_iterations=1,
                                lower_bound=[-1, -1], upper_bound=[1, 1])
            for a in space.agents:
                a.fit = float(np.random.uniform())
            local = np.random.uniform(size=(3, 2, 1))
            history = History(store_best_only)
            feed_history(history)
            # nothing dumped
            history.dump()
            feed_history(history)
            # first dump creates the lists, later dumps append
            for t in range(4):
                space.agents[t % 3].position += 0.125
                space.best_agent.position = space.agents[t % 3].position.copy()
                space.best_agent.fit = space.agents[t % 3].fit
                history.dump(agents=space.agents, best_agent=space.best_agent)
                feed_history(history)
                history.dump(agents=space.agents, local=local, best_agent=space.best_agent, extra=t, time=0.5 * t)
                feed_history(history)
                history.dump(other=[t, 'x'], none=None)
                feed_history(history)
            # keys in a different order, a key appearing for the first time late
            history.dump(best_agent=space.best_agent, late=1.5, agents=space.agents)
            feed_history(history)
            # names that collide with existing non-list attributes / methods
            attempt('store_best_only', lambda: history.dump(store_best_only=1))
            feed_history(history)
            attempt('dump', lambda: history.dump(dump=1))
            attempt('get', lambda: history.dump(ok=1, get=2, never=3))
            feed_history(history)
            attempt('__class__', lambda: history.dump(**{'__class__': 3}))
            # an attribute that is a list set by hand is appended to
            history.manual = [0]
            history.dump(manual=1)
            history.fresh_tuple = (1,)
            attempt('fresh_tuple', lambda: history.dump(fresh_tuple=2))
            feed_history(history)
            # bad values for the keys with parsing rules
            attempt('agents-bad', lambda: history.dump(agents=5))
            attempt('best-bad', lambda: history.dump(best_agent=None))
            feed_history(history)
            # get / save / load still see the same records
            if not store_best_only:
                attempt('get-agents', lambda: repr(history.get('agents', (0,)).tolist()))
            attempt('get-best', lambda: repr(history.get('best_agent', (0,)).tolist()))
            attempt('get-extra', lambda: repr(history.get('extra', ()).tolist()))
            path = os.path.join(tempfile.mkdtemp(), 'h.pkl')
            history.save(path)
            loaded = History()
            loaded.load(path)
            feed_history(loaded)
            loaded.dump(best_agent=space.best_agent, extra=99)
            feed_history(loaded)
            feed_history(history)


def one_run(opt_cls, objective, seed, n_agents, n_variables, n_iterations, hyper, store_best_only, via_start):
    np.random.seed(seed)
    lb, ub = [-3.0] * n_variables, [2.0] * n_variables
    if hyper:
        space = HyperSpace(n_agents=n_agents, n_variables=n_variables, n_dimensions=2,
                           n_iterations=n_iterations, lower_bound=lb, upper_bound=ub)
    else:
        space = SearchSpace(n_agents=n_agents, n_variables=n_variables,
                            n_iterations=n_iterations, lower_bound=lb, upper_bound=ub)
    function = Function(pointer=objective)
    optimizer = opt_cls()
    feed([opt_cls.__name__, objective.__name__, seed, n_agents, n_variables, n_iterations, hyper,
          store_best_only, via_start])
    try:
        if via_start:
            history = Opytimizer(space=space, optimizer=optimizer, function=function).start(
                store_best_only=store_best_only)
        else:
            history = optimizer.run(space, function, store_best_only)
    except Exception as exc:  # same exception, same message expected both ways
        feed(['EXC', type(exc).__name__, str(exc)])
        history = None
    if history is not None:
        feed_history(history)
    feed(space.best_agent.position)
    feed(space.best_agent.fit)
    feed(rng_state())


def main():
    direct_calls()
    for opt_cls in OPTIMIZERS:
        for k, objective in enumerate(OBJECTIVES):
            one_run(opt_cls, objective, 3 + k, 4, 2, 4, False, False, False)
            one_run(opt_cls, objective, 3 + k, 4, 2, 4, False, True, True)
            one_run(opt_cls, objective, 11 + k, 2, 1, 1, False, False, True)
            one_run(opt_cls, objective, 23 + k, 3, 2, 3, True, True, False)
    print(H.hexdigest())


if __name__ == '__main__':
    main()
