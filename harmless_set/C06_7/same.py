"""Exercises Agent.check_limits (directly and through seeded optimizations) and prints a digest."""
import hashlib

import numpy as np

from opytimizer.core.agent import Agent
from opytimizer.core.function import Function
from opytimizer.optimizers import abc, hs, pso, sa
from opytimizer.spaces.search import SearchSpace

out = []


def flat(v):
    if isinstance(v, (list, tuple)):
        return '[' + ','.join(flat(t) for t in v) + ']'
    if isinstance(v, np.ndarray):
        return f'{v.dtype}{v.shape}' + flat(v.tolist())
    if isinstance(v, (float, np.floating)):
        return float(v).hex()
    return repr(v)


def rec(tag, thunk):
    try:
        return thunk()
    except BaseException as exc:  # noqa
        out.append(f'{tag}: EXC {type(exc).__module__}.{type(exc).__name__}: {exc}')
        return None


def check(tag, agent):
    """Calls check_limits and records values, identities and the return value."""
    before = agent.position
    rows = [r for r in before] if isinstance(before, list) else None
    lb, ub, fit = agent.lb, agent.ub, agent.fit
    lb_copy, ub_copy = np.array(lb, copy=True), np.array(ub, copy=True)
    r = rec(tag, agent.check_limits)
    out.append(f'{tag}: ret={r!r} same_pos={agent.position is before} same_lb={agent.lb is lb} '
               f'same_ub={agent.ub is ub} fit_same={agent.fit is fit}')
    out.append(f'{tag}: pos={flat(agent.position)}')
    out.append(f'{tag}: lb_unchanged={flat(np.array(agent.lb)) == flat(lb_copy)} '
               f'ub_unchanged={flat(np.array(agent.ub)) == flat(ub_copy)}')
    if rows is not None:
        out.append(f'{tag}: rows kept={[a is b for a, b in zip(rows, agent.position)]}')


rng = np.random.RandomState(2024)

# 1. Random agents of several shapes
for k, (nv, nd) in enumerate([(1, 1), (2, 1), (3, 2), (5, 4), (1, 7), (10, 1)]):
    a = Agent(n_variables=nv, n_dimensions=nd)
    a.position = rng.uniform(-10, 10, size=(nv, nd))
    a.lb = rng.uniform(-6, 0, size=nv)
    a.ub = rng.uniform(0, 6, size=nv)
    check(f'rand{k}', a)
    check(f'rand{k}-again', a)

# 2. Fresh agent (zeros inside [0, 1])
check('fresh', Agent(n_variables=3, n_dimensions=2))

# 3. Special values
a = Agent(n_variables=4, n_dimensions=3)
a.position = np.array([[np.nan, np.inf, -np.inf], [-0.0, 0.0, 5e-324], [1.0, 2.0, 3.0], [-1e308, 1e308, 0.5]])
a.lb = np.array([-1.0, 0.0, 2.0, -np.inf])
a.ub = np.array([1.0, 0.0, 2.0, np.inf])
check('special', a)

# 4. NaN and inverted bounds
a = Agent(n_variables=3, n_dimensions=2)
a.position = np.array([[0.5, -3.0], [0.5, 7.0], [0.25, 0.75]])
a.lb = np.array([np.nan, 1.0, 0.5])
a.ub = np.array([1.0, np.nan, 0.3])
with np.errstate(all='ignore'):
    check('nanbounds', a)

# 5. Position is a view of a bigger buffer: the buffer must be updated in place
buf = rng.uniform(-3, 3, size=(4, 3, 2))
a = Agent(n_variables=3, n_dimensions=2)
a.position = buf[2]
a.lb = np.array([-1.0, -0.5, 0.0])
a.ub = np.array([1.0, 0.5, 0.1])
check('view', a)
out.append(f'view: buf={flat(buf)} shares={np.shares_memory(a.position, buf)}')

# non-contiguous (transposed / strided) view
buf2 = rng.uniform(-3, 3, size=(2, 6))
a = Agent(n_variables=3, n_dimensions=2)
a.position = buf2.T[::2]
a.lb = np.array([-1.0, -0.5, 0.0])
a.ub = np.array([1.0, 0.5, 0.1])
check('strided', a)
out.append(f'strided: buf={flat(buf2)}')

# 6. Integer and float32 positions; integer / list bounds
a = Agent(n_variables=2, n_dimensions=3)
a.position = np.array([[-7, 0, 9], [3, 4, 5]])
a.lb = [-2, 3.5]
a.ub = [2, 4.5]
check('intpos', a)
a = Agent(n_variables=2, n_dimensions=2)
a.position = np.array([[-7.25, 0.1], [3.3, 4.7]], dtype=np.float32)
a.lb = np.array([0, 4])
a.ub = np.array([1, 5])
check('f32pos', a)

# 7. Bounds shorter / longer than the position; empty bounds; mismatched lengths
for tag, nlb, nub in [('short', 2, 2), ('long', 5, 5), ('empty', 0, 0), ('lb<ub', 2, 3), ('lb>ub', 3, 1)]:
    a = Agent(n_variables=3, n_dimensions=2)
    a.position = rng.uniform(-4, 4, size=(3, 2))
    a.lb = np.full(nlb, -1.0)
    a.ub = np.full(nub, 1.0)
    check(f'len-{tag}', a)

# 8. Position as a list of rows (rows are replaced, the list object is kept)
a = Agent(n_variables=2, n_dimensions=2)
a.position = [np.array([-5.0, 0.5]), np.array([0.2, 9.0])]
check('listpos', a)

# 9. Vector bounds per variable (broadcast against the row)
a = Agent(n_variables=2, n_dimensions=3)
a.position = rng.uniform(-4, 4, size=(2, 3))
a.lb = np.array([[-1.0, -2.0, -3.0], [0.0, 0.0, 0.0]])
a.ub = np.array([[1.0, 2.0, 3.0], [0.5, 0.5, 0.5]])
check('vecbounds', a)
a.ub = np.array([[1.0, 2.0], [0.5, 0.5]])
check('vecbounds-bad', a)

# 10. Broken agents
a = Agent(n_variables=2, n_dimensions=1)
a.position = None
check('nonepos', a)
a = Agent(n_variables=2, n_dimensions=1)
a.lb = None
check('nonelb', a)
a = Agent(n_variables=2, n_dimensions=1)
a.position = np.zeros((2, 1))
a.position.flags.writeable = False
check('readonly', a)
a = Agent(n_variables=2, n_dimensions=1)
del a._position
rec('nopos', a.check_limits)

# 11. Seeded optimizations, which call check_limits on every agent at every iteration
def sphere(x):
    return np.sum(x ** 2)


def far(x):
    return np.sum((x - 20.0) ** 2)


for seed, (mk, fn) in enumerate([(pso.PSO, far), (hs.HS, sphere), (abc.ABC, far), (sa.SA, far), (pso.PSO, sphere)]):
    np.random.seed(seed)
    space = SearchSpace(n_agents=4, n_variables=3, n_iterations=8,
                        lower_bound=[-1.0, 0.0, -5.0], upper_bound=[1.0, 10.0, 5.0])
    h = rec(f'opt{seed}', lambda: mk().run(space, Function(pointer=fn)))
    out.append(f'opt{seed}: agents={flat([[a.position, a.fit] for a in space.agents])}')
    out.append(f'opt{seed}: best={flat(space.best_agent.position)} {flat(space.best_agent.fit)}')
    if h is not None:
        out.append(f'opt{seed}: hist={flat(h.best_agent)}')
    out.append(f'opt{seed}: next random={np.random.uniform().hex()}')

text = '\n'.join(out)
print(hashlib.sha256(text.encode()).hexdigest())
