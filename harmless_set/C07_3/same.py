"""Digest of seeded HS / IHS / GSA / WCA runs (the optimizers that sort the population by fitness).

Run: cd /tmp/harmless/C07 && PYTHONPATH=/tmp/harmless/C07 /venv/bin/python harmlessC/same.py
"""
import hashlib
import logging

import numpy as np

logging.disable(logging.CRITICAL)

from opytimizer.core.function import Function
from opytimizer.optimizers.gsa import GSA
from opytimizer.optimizers.hs import HS
from opytimizer.optimizers.ihs import IHS
from opytimizer.optimizers.wca import WCA
from opytimizer.spaces.search import SearchSpace

H = hashlib.sha256()


def put(*xs):
    for x in xs:
        if isinstance(x, np.ndarray):
            H.update(repr(x.shape).encode())
            for v in x.ravel().tolist():
                H.update(float(v).hex().encode())
        elif isinstance(x, (float, np.floating)):
            H.update(float(x).hex().encode())
        elif isinstance(x, (list, tuple)):
            H.update(b'[')
            put(*x)
            H.update(b']')
        else:
            H.update(repr(x).encode())
        H.update(b'|')


def sphere(x):
    return float(np.sum(x ** 2))


def shifted(x):
    return float(np.sum((x - 0.3) ** 2) - 1.0)


def flat(x):
    # every fitness ties: the order after sorting must stay the insertion order
    return 1.0


def coarse(x):
    # many ties between different positions
    return float(np.floor(np.sum(np.abs(x))))


def nan_some(x):
    s = float(np.sum(x))
    return float('nan') if s > 1.0 else s


def aliasing(space):
    arrs = [a.position for a in space.agents] + [space.best_agent.position]
    out = []
    for i in range(len(arrs)):
        for j in range(i + 1, len(arrs)):
            out.append(bool(np.shares_memory(arrs[i], arrs[j])))
    return out


def state(space, tags=None):
    put(len(space.agents))
    for a in space.agents:
        put(a.position, a.fit)
        if tags is not None:
            # identity of the object in each slot (order produced by the stable sort)
            put(tags.get(id(a), -1))
    put(space.best_agent.position, space.best_agent.fit)
    put(aliasing(space))


CONFIGS = [
    (1, 1, 3, [-1.0], [1.0]),
    (2, 1, 3, [0.0], [0.0]),
    (5, 3, 6, [-5.0, -1.0, 0.0], [5.0, 1.0, 2.0]),
    (9, 2, 8, [-10.0, -10.0], [10.0, 10.0]),
]
FUNCS = [sphere, shifted, flat, coarse, nan_some]

for opt_cls in (HS, IHS, GSA, WCA):
    for ci, (n_agents, n_vars, n_iter, lb, ub) in enumerate(CONFIGS):
        for fi, f in enumerate(FUNCS):
            np.random.seed(1000 * ci + 10 * fi + 3)
            put(opt_cls.__name__, ci, fi)
            try:
                space = SearchSpace(n_agents=n_agents, n_variables=n_vars, n_iterations=n_iter,
                                    lower_bound=lb, upper_bound=ub)
                tags = {id(a): k for k, a in enumerate(space.agents)}
                keep = list(space.agents)  # keeps the ids alive and unique
                hist = opt_cls().run(space, Function(pointer=f),
                                     pre_evaluation_hook=lambda o, s, fn: state(s, tags))
                put(hist.agents, hist.best_agent)
                state(space, tags)
            except Exception as ex:
                put(type(ex).__name__, str(ex))
            put(np.random.uniform())

# direct calls of the update steps on hand-made fitness values (ties, NaN, inf, reverse order)
for fits in ([3.0, 1.0, 2.0, 1.0, 3.0], [2.0, 2.0, 2.0], [float('nan'), 1.0, 0.5, float('nan'), 0.1],
             [float('inf'), -float('inf'), 0.0], [5.0, 4.0, 3.0, 2.0, 1.0], [7.0]):
    for opt_cls in (HS, GSA):
        np.random.seed(17)
        put(opt_cls.__name__, fits)
        try:
            space = SearchSpace(n_agents=len(fits), n_variables=2, n_iterations=4,
                                lower_bound=[-1.0, -1.0], upper_bound=[1.0, 1.0])
            for a, v in zip(space.agents, fits):
                a.fit = v
            tags = {id(a): k for k, a in enumerate(space.agents)}
            keep = list(space.agents)
            fn = Function(pointer=sphere)
            if opt_cls is HS:
                for _ in range(3):
                    HS()._update(space.agents, fn)
                    state(space, tags)
            else:
                vel = np.zeros((len(fits), 2, 1))
                GSA()._update(space.agents, fn, vel, 0)
                put(vel)
                state(space, tags)
        except Exception as ex:
            put(type(ex).__name__, str(ex))
        put(np.random.uniform())

# an element without `fit` raises the same error
try:
    HS()._update([object()], Function(pointer=sphere))
except Exception as ex:
    put(type(ex).__name__, str(ex))
try:
    GSA()._update([object(), object()], Function(pointer=sphere), np.zeros((2, 1, 1)), 0)
except Exception as ex:
    put(type(ex).__name__, str(ex))

print(H.hexdigest())
