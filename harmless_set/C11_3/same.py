"""Digest of tree measurements, traversals and slot lookups on many trees.

Run as: cd /tmp/harmless/C11 && PYTHONPATH=/tmp/harmless/C11 /venv/bin/python harmlessX/same.py
The printed digest must be identical with and without the patch.
"""

import hashlib
import itertools

import logging

import numpy as np

from opytimizer.core.function import Function
from opytimizer.core.node import Node, _properties
from opytimizer.optimizers.gp import GP
from opytimizer.spaces.tree import TreeSpace

logging.disable(logging.CRITICAL)

H = hashlib.sha256()


def emit(*items):
    for it in items:
        if isinstance(it, float):
            it = it.hex()
        H.update(repr(it).encode())
        H.update(b'|')


# ---------------------------------------------------------------- shapes
def shapes(depth, right_only=False):
    """All tree shapes (nested tuples) with leaf depth <= depth.

    () is a leaf, (l,) a unary node, (l, r) a binary node, (None, r) a node
    that only has a right child (hand-made shape).
    """
    out = [()]
    if depth == 0:
        return out
    sub = shapes(depth - 1, right_only)
    for l in sub:
        out.append((l,))
    for l, r in itertools.product(sub, sub):
        out.append((l, r))
    if right_only:
        for r in sub:
            out.append((None, r))
    return out


def build(shape, counter, parent=None, flag=True):
    label = counter[0]
    counter[0] += 1
    if shape == ():
        node = Node(label, 'TERMINAL', value=np.array([[float(label)]]))
    else:
        node = Node('SUM' if len(shape) == 2 else 'ABS', 'FUNCTION')
    node.parent = parent
    node.flag = flag
    if len(shape) >= 1 and shape[0] is not None:
        node.left = build(shape[0], counter, node, True)
    if len(shape) == 2:
        node.right = build(shape[1], counter, node, False)
    return node


def labels(root):
    """Recursive labelling: id(node) -> pre-order number (reference walk)."""
    out = {}

    def rec(n):
        if n is None:
            return
        out[id(n)] = len(out)
        rec(n.left)
        rec(n.right)
    rec(root)
    return out


def lab(lb, n):
    if n is None:
        return None
    return lb.get(id(n), 'foreign')


def measure(root, extra_positions=()):
    lb = labels(root)
    emit('T', len(lb))
    emit(root.n_nodes, root.n_leaves, root.min_depth, root.max_depth)
    props = _properties(root)
    emit(sorted(props.items()))
    emit([lab(lb, n) for n in root.pre_order])
    emit([lab(lb, n) for n in root.post_order])
    emit(repr(root))
    n = len(lb)
    positions = list(range(-n - 2, n + 3)) + list(extra_positions)
    for p in positions:
        try:
            parent, flag = root.find_node(p)
            emit('F', repr(p), lab(lb, parent), flag, type(flag).__name__)
        except Exception as ex:  # same exceptions for the same inputs
            emit('X', repr(p), type(ex).__name__, str(ex))
    # sub-trees measured from inner nodes as well
    for sub in root.pre_order[1:4]:
        emit('S', lab(lb, sub), sub.n_nodes, sub.n_leaves, sub.min_depth, sub.max_depth)
        emit([lab(lb, k) for k in sub.pre_order], [lab(lb, k) for k in sub.post_order])
        for p in range(0, sub.n_nodes + 1):
            try:
                parent, flag = sub.find_node(p)
                emit('f', p, lab(lb, parent), flag)
            except Exception as ex:
                emit('x', p, type(ex).__name__, str(ex))


ODD = (float('nan'), 1.0, 2.5, True, False, np.int64(1), np.float64('nan'), None, '1', 10 ** 30, float('inf'), -float('inf'))

# exhaustive: every shape up to depth 3 over unary and binary nodes
count = 0
for shape in shapes(3):
    measure(build(shape, [0]), ODD if count % 7 == 0 else ())
    count += 1
emit('count3', count)

# hand-made shapes with right-only nodes, depth 2
for shape in shapes(2, right_only=True):
    measure(build(shape, [0]), ODD[:3])
    count += 1
emit('count', count)

# depth 4 sampled
rng = np.random.RandomState(11)
s4 = shapes(4)
for i in rng.choice(len(s4), size=300, replace=False):
    measure(build(s4[int(i)], [0]))

# long chains (unary, left-heavy, right-heavy)
for length in (1, 2, 7, 40):
    chain = ()
    lefty = ()
    righty = ()
    for _ in range(length):
        chain = (chain,)
        lefty = (lefty, ())
        righty = ((), righty)
    for shape in (chain, lefty, righty):
        measure(build(shape, [0]), ODD[:2])

# randomly grown trees of several function sets
SETS = [
    ['SUM', 'SUB', 'MUL', 'DIV'],
    ['EXP', 'SQRT', 'LOG', 'ABS', 'SIN', 'COS'],
    ['SUM', 'SUB', 'MUL', 'DIV', 'EXP', 'SQRT', 'LOG', 'ABS', 'SIN', 'COS'],
    ['SUM'],
    ['ABS'],
]
for seed, fs in enumerate(SETS * 3):
    np.random.seed(seed)
    space = TreeSpace(n_trees=6, n_terminals=3 + seed % 3, n_variables=2, n_iterations=3,
                      min_depth=1 + seed % 2, max_depth=3 + seed % 4, functions=fs,
                      lower_bound=[-5, -5], upper_bound=[5, 5])
    for tree in space.trees:
        measure(tree)
        pos = tree.position
        emit([float(v).hex() for v in np.asarray(pos).ravel()])
        emit(str(tree))
    emit(float(np.random.uniform()).hex())  # stream position after construction

# seeded GP runs: mutation / crossover points go through the measurements
for seed in (0, 1, 2, 3):
    np.random.seed(seed)
    space = TreeSpace(n_trees=8, n_terminals=4, n_variables=2, n_iterations=6,
                      min_depth=1, max_depth=4, functions=SETS[seed % 3],
                      lower_bound=[-5, -5], upper_bound=[5, 5])
    gp = GP(hyperparams={'p_reproduction': 0.25, 'p_mutation': 0.3, 'p_crossover': 0.45,
                         'prunning_ratio': 0.0})
    fn = Function(lambda x: float(np.sum(x ** 2)))
    with np.errstate(all='ignore'):
        history = gp.run(space, fn)
    for tree in space.trees:
        measure(tree)
    emit([float(v).hex() for v in np.asarray(space.best_agent.position).ravel()])
    emit(float(space.best_agent.fit).hex())
    emit(float(np.random.uniform()).hex())  # stream position after the run

print(H.hexdigest())
