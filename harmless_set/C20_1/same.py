"""Digest of seeded FPA runs (per-agent histories, best agent, trace of objective calls, RNG state)."""
import hashlib
import logging

import numpy as np

logging.disable(logging.CRITICAL)

from opytimizer.core.function import Function
from opytimizer.optimizers.fpa import FPA
from opytimizer.spaces.search import SearchSpace

H = hashlib.sha256()


def feed(x):
    """Feeds any nested structure of numbers into the digest, floats as float.hex()."""
    if isinstance(x, (list, tuple)):
        H.update(b'[')
        for v in x:
            feed(v)
        H.update(b']')
    elif isinstance(x, np.ndarray):
        H.update(str(x.shape).encode())
        feed(x.tolist())
    elif isinstance(x, (float, np.floating)):
        H.update(float(x).hex().encode() + b';')
    else:
        H.update(repr(x).encode() + b';')


def rng_state():
    s = np.random.get_state()
    return hashlib.sha256(s[1].tobytes()).hexdigest() + ':%d' % s[2]


def sphere(x):
    return np.sum(x ** 2)


def plateau(x):
    # many ties: acceptance must be strict
    return float(np.sum(np.floor(np.abs(x))))


def constant(x):
    return 1.0


def shifted(x):
    return float(np.sum((x - 0.3) ** 2) - 5.0)


def with_nan(x):
    v = float(np.sum(x))
    return float('nan') if v > 3.0 else v * v


def rastrigin(x):
    return float(np.sum(x ** 2 - 10 * np.cos(2 * np.pi * x) + 10))


def make_traced(obj, trace):
    # objectives wrapped in Function must take exactly one parameter
    def traced(x):
        trace.append(np.array(x, copy=True))
        return obj(x)
    return traced


OBJECTIVES = [sphere, plateau, constant, shifted, with_nan, rastrigin]

CONFIGS = [
    # n_agents, n_variables, n_iterations, lb, ub, hyperparams
    (1, 1, 5, [0], [1], {}),
    (2, 2, 8, [1, 1], [10, 10], {}),
    (5, 3, 12, [-5, -5, -5], [5, 5, 5], {'p': 0.0}),
    (5, 3, 12, [-5, -5, -5], [5, 5, 5], {'p': 1.0}),
    (7, 2, 15, [-1, 0], [1, 0], {'p': 0.5, 'eta': 0.7, 'beta': 1.2}),
    (10, 4, 10, [-10, -1, 0, 2], [10, 1, 0.5, 2], {'p': 0.8, 'eta': 2.0}),
]

for seed in (0, 1, 7, 12345):
    for oi, obj in enumerate(OBJECTIVES):
        for ci, (na, nv, ni, lb, ub, hp) in enumerate(CONFIGS):
            np.random.seed(seed * 1000 + oi * 10 + ci)
            trace = []

            traced = make_traced(obj, trace)

            space = SearchSpace(n_agents=na, n_variables=nv, n_iterations=ni,
                                lower_bound=lb, upper_bound=ub)
            opt = FPA(hyperparams=dict(hp))
            hist = opt.run(space, Function(pointer=traced))
            feed(hist.agents)
            feed(hist.best_agent)
            feed(trace)
            feed([(a.position, a.fit) for a in space.agents])
            H.update(rng_state().encode())

# the update step alone, repeatedly, on an already evaluated space
for seed in (3, 4):
    for p in (0.0, 0.35, 1.0):
        np.random.seed(seed)
        space = SearchSpace(n_agents=6, n_variables=2, n_iterations=1,
                            lower_bound=[-3, -3], upper_bound=[3, 3])
        opt = FPA(hyperparams={'p': p})
        fn = Function(pointer=plateau)
        opt._evaluate(space, fn)
        for _ in range(20):
            out = opt._update(space.agents, space.best_agent, fn)
            feed(repr(out))
            feed([(a.position, a.fit) for a in space.agents])
        H.update(rng_state().encode())

print(H.hexdigest())
