"""Digest of tournament_selection (and pairwise over its output) on seeded inputs."""
import hashlib

import numpy as np

import opytimizer.math.general as g
import opytimizer.utils.constants as c

h = hashlib.sha256()


def put(*items):
    for it in items:
        h.update(repr(it).encode())
        h.update(b'|')


def rng_mark():
    st = np.random.get_state()
    put(hashlib.sha256(st[1].tobytes()).hexdigest(), st[2], st[3], float(st[4]).hex())


def attempt(seed, fitness, n):
    np.random.seed(seed)
    try:
        out = g.tournament_selection(fitness, n)
        put('ok', seed, repr(fitness), repr(n), type(out).__name__,
            [(type(i).__name__, int(i)) for i in out])
        put([tuple(int(i) for i in pr) for pr in g.pairwise(out)])
    except Exception as e:  # noqa
        put('exc', seed, repr(fitness), repr(n), type(e).__name__, str(e))
    rng_mark()


gen = np.random.RandomState(2024)
fitness_sets = [
    [1.0], [3.0, 1.0], [1.0, 1.0, 1.0], [5.0, -2.0, -2.0, 7.0, 0.0],
    [-1.5, -1.5, 3.25, -9.0, -9.0, 4.0], [0.0, -0.0, 0.0],
    [1, 2, 3, 4], [2, 2, 1, 1], [float('inf'), 1.0, float('-inf')],
    [float('nan'), 1.0, 2.0], [1.0, float('nan')], [float('nan')],
    gen.uniform(-10, 10, 13).tolist(), gen.randint(0, 4, 20).tolist(),
    np.round(gen.normal(size=9), 1), np.array([4.0, 4.0, 2.0, 2.0]),
    (3.0, 2.0, 1.0), [1e308, -1e308, 5e-324],
    # raising inputs
    [], np.array([]), [[1.0, 2.0], [3.0, 4.0]], 5, 0, -1, 2.5, None, 'abc', ['a', 'b'],
]
ns = [0, 1, 2, 3, 10, 31, np.int64(4), True]

for size in (2, 1, 3, 5, 0):
    c.TOURNAMENT_SIZE = size
    put('size', size)
    for seed in range(6):
        for f in fitness_sets:
            for n in ns:
                attempt(seed, f, n)
c.TOURNAMENT_SIZE = 2

for n in [-1, 2.0, None, 'a', [2]]:
    attempt(1, [3.0, 1.0, 2.0], n)

# consecutive calls on one stream
np.random.seed(5)
f = gen.uniform(0, 1, 30).tolist()
for k in range(40):
    put([int(i) for i in g.tournament_selection(f, k % 7)])
rng_mark()

print(h.hexdigest())
