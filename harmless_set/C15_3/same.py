"""Digest of seeded FA and WCA runs: alpha / d_max at every hook and at return, agents, RNG state.

Run: cd /tmp/harmless/C15 && PYTHONPATH=/tmp/harmless/C15 /venv/bin/python harmlessC/same.py
"""
import hashlib
import logging
import warnings

import numpy as np

logging.disable(logging.CRITICAL)
warnings.simplefilter('ignore')

from opytimizer.core import function
from opytimizer.optimizers import fa, wca
from opytimizer.spaces import search

H = hashlib.sha256()


def put(x):
    """Feeds a value (number, array, string, exception) into the digest."""
    if isinstance(x, str):
        H.update(x.encode())
    elif isinstance(x, BaseException):
        H.update((type(x).__name__ + ':' + str(x)).encode())
    else:
        for v in np.asarray(x, dtype=float).ravel():
            H.update(float(v).hex().encode())
        H.update(type(x).__name__.encode())
    H.update(b'|')


def sphere(x):
    return float(np.sum(x ** 2))


def sphere_np(x):
    return np.sum(x ** 2)


def shifted(x):
    return float(np.sum(np.abs(x - 0.3)) - 1.0)


def const(x):
    return 1.0


def zero(x):
    # WCA: the flow-intensity cost is 0 -> ZeroDivisionError before the loop
    return 0.0


def run(opt, names, n_agents, n_vars, n_iter, obj, lb=-2.0, ub=3.0, store_best_only=False):
    space = search.SearchSpace(n_agents=n_agents, n_iterations=n_iter, n_variables=n_vars,
                               lower_bound=[lb] * n_vars, upper_bound=[ub] * n_vars)
    fn = function.Function(pointer=obj)

    def hook(optimizer, sp, f):
        for name in names:
            v = getattr(optimizer, name)
            put(v)
            put(type(v).__name__)
        for agent in sp.agents:
            put(agent.position)

    try:
        history = opt.run(space, fn, store_best_only=store_best_only, pre_evaluation_hook=hook)
        for pos, fit in history.best_agent:
            put(pos)
            put(fit)
        if not store_best_only:
            for it in history.agents:
                for pos, fit in it:
                    put(pos)
                    put(fit)
    except Exception as exc:  # same exception for the same input
        put(exc)

    for name in names:
        v = getattr(opt, name)
        put(v)
        put(type(v).__name__)
    for agent in space.agents:
        put(agent.position)
        put(agent.fit)
    put(space.best_agent.position)
    put(space.best_agent.fit)
    put(np.random.uniform(size=4))
    return space


FA_CONFIGS = [
    # (hyperparams, n_agents, n_variables, n_iterations, objective)
    ({}, 5, 2, 10, sphere),
    ({}, 2, 1, 1, sphere),
    ({'alpha': 1, 'beta': 1, 'gamma': 0}, 4, 3, 7, shifted),          # int alpha
    ({'alpha': 0, 'beta': 0.5, 'gamma': 2.0}, 4, 2, 5, sphere),        # int zero stays zero
    ({'alpha': 0.0, 'beta': 0.5, 'gamma': 2.0}, 4, 2, 5, sphere),
    ({'alpha': True, 'beta': 0.3, 'gamma': 1}, 3, 2, 4, sphere),       # bool passes the int check
    ({'alpha': 1e-320, 'beta': 0.2, 'gamma': 1.0}, 3, 2, 6, sphere),   # subnormal
    ({'alpha': 1e308, 'beta': 0.2, 'gamma': 1.0}, 3, 2, 3, sphere),
    ({'alpha': 0.25, 'beta': 0.0, 'gamma': 10.0}, 6, 2, 40, shifted),
    ({'alpha': 0.7, 'beta': 0.9, 'gamma': 0.01}, 5, 2, 9, const),
    ({'alpha': 0.7, 'beta': 0.9, 'gamma': 0.01}, 5, 2, 9, sphere_np),
]

for k, (hyper, n_agents, n_vars, n_iter, obj) in enumerate(FA_CONFIGS):
    for seed in (0, 1, 12345):
        np.random.seed(seed + 1000 * k)
        put(f'fa config {k} seed {seed}')
        opt = fa.FA(hyperparams=dict(hyper))
        run(opt, ('alpha', 'beta', 'gamma'), n_agents, n_vars, n_iter, obj, store_best_only=bool(seed == 1))

# Direct FA._update calls, including odd iteration counts
for k, n_iterations in enumerate([1, 2, 3, 1000, 0.5, 2.5, -1, -3, 0, True, np.int64(4), np.float64(7.0)]):
    np.random.seed(300 + k)
    put(f'fa direct {k}')
    space = search.SearchSpace(n_agents=4, n_iterations=3, n_variables=2,
                               lower_bound=[-1.0, -1.0], upper_bound=[1.0, 1.0])
    fn = function.Function(pointer=sphere)
    for agent in space.agents:
        agent.fit = fn.pointer(agent.position)
    for alpha in (0.5, 1, 0, np.float64(0.3)):
        opt = fa.FA(hyperparams={'alpha': alpha})
        for _ in range(3):
            try:
                opt._update(space.agents, space.best_agent, fn, n_iterations)
            except Exception as exc:
                put(exc)
            put(opt.alpha)
            put(type(opt.alpha).__name__)
            for agent in space.agents:
                put(agent.position)
    put(np.random.uniform(size=4))

WCA_CONFIGS = [
    # (hyperparams, n_agents, n_variables, n_iterations, objective)
    ({}, 6, 2, 10, sphere),
    ({}, 4, 1, 1, sphere),
    ({'nsr': 3, 'd_max': 1}, 8, 3, 7, sphere),                 # int d_max
    ({'nsr': 2, 'd_max': 0}, 5, 2, 5, sphere),                 # int zero
    ({'nsr': 2, 'd_max': 0.0}, 5, 2, 5, sphere),
    ({'nsr': 1, 'd_max': 5.0}, 5, 2, 6, shifted),
    ({'nsr': 4, 'd_max': 1e-320}, 7, 2, 6, sphere),            # subnormal
    ({'nsr': 2, 'd_max': 1e308}, 5, 2, 3, sphere_np),
    ({'nsr': 2, 'd_max': True}, 5, 2, 4, const),               # bool passes the int check
    ({'nsr': 3, 'd_max': 0.1}, 9, 2, 50, sphere),              # long geometric decay
    ({'nsr': 2, 'd_max': 0.1}, 5, 2, 4, zero),                 # exception before the loop
]

for k, (hyper, n_agents, n_vars, n_iter, obj) in enumerate(WCA_CONFIGS):
    for seed in (0, 1, 12345):
        np.random.seed(seed + 2000 * k + 7)
        put(f'wca config {k} seed {seed}')
        opt = wca.WCA(hyperparams=dict(hyper))
        run(opt, ('nsr', 'd_max'), n_agents, n_vars, n_iter, obj, lb=0.5, ub=3.0,
            store_best_only=bool(seed == 1))

# The same optimizer object used for two runs in a row: the second starts from the decayed value
np.random.seed(99)
put('reuse')
opt = fa.FA(hyperparams={'alpha': 0.9})
run(opt, ('alpha', 'beta', 'gamma'), 4, 2, 5, sphere)
run(opt, ('alpha', 'beta', 'gamma'), 4, 2, 3, shifted)
opt = wca.WCA(hyperparams={'nsr': 2, 'd_max': 2})
run(opt, ('nsr', 'd_max'), 5, 2, 5, sphere, lb=0.5, ub=3.0)
run(opt, ('nsr', 'd_max'), 5, 2, 3, sphere, lb=0.5, ub=3.0)

print(H.hexdigest())
