"""Digest of seeded IHS runs: PAR/bw schedule seen at every hook, agents, best agent, RNG state.

Run: cd /tmp/harmless/C15 && PYTHONPATH=/tmp/harmless/C15 /venv/bin/python harmlessA/same.py
"""
import hashlib
import logging
import warnings

import numpy as np

logging.disable(logging.CRITICAL)
warnings.simplefilter('ignore')

from opytimizer.core import function
from opytimizer.optimizers import ihs
from opytimizer.spaces import search

H = hashlib.sha256()


def put(x):
    """Feeds a value (number, array, string, exception) into the digest."""
    if isinstance(x, str):
        H.update(x.encode())
    elif isinstance(x, BaseException):
        H.update((type(x).__name__ + ':' + str(x)).encode())
    else:
        for v in np.asarray(x, dtype=float).ravel():
            H.update(float(v).hex().encode())
        H.update(type(x).__name__.encode())
    H.update(b'|')


def sphere(x):
    return float(np.sum(x ** 2))


def shifted(x):
    return float(np.sum(np.abs(x - 0.3)) - 1.0)


def const(x):
    return 1.0


CONFIGS = [
    # (hyperparams, n_agents, n_variables, n_iterations, objective)
    ({}, 5, 2, 10, sphere),
    ({}, 3, 1, 1, sphere),
    ({'PAR_min': 0.5, 'PAR_max': 1, 'bw_min': 2, 'bw_max': 5}, 4, 3, 7, shifted),
    ({'PAR_min': 0.25, 'PAR_max': 0.25, 'bw_min': 3, 'bw_max': 3}, 4, 2, 6, sphere),
    ({'PAR_min': 0, 'PAR_max': 0, 'bw_min': 0.001, 'bw_max': 1000.0}, 6, 2, 13, shifted),
    ({'PAR_min': 1, 'PAR_max': 1, 'bw_min': 1e-12, 'bw_max': 1e-12}, 2, 4, 5, const),
    ({'HMCR': 1.0, 'PAR_min': 0.1, 'PAR_max': 0.9, 'bw_min': 0.5, 'bw_max': 2.5}, 5, 2, 9, sphere),
    ({'HMCR': 0.0, 'PAR': 0.9, 'bw': 7}, 3, 2, 4, sphere),
    # log(0 / bw_max) = -inf: bw is 0 * exp(nan) or bw_max * exp(-inf)
    ({'bw_min': 0, 'bw_max': 4}, 4, 2, 5, sphere),
    # 0 / 0 inside the log: ZeroDivisionError on the first iteration
    ({'bw_min': 0, 'bw_max': 0}, 4, 2, 3, sphere),
]

for k, (hyper, n_agents, n_vars, n_iter, obj) in enumerate(CONFIGS):
    for seed in (0, 1, 12345):
        np.random.seed(seed + 1000 * k)
        put(f'config {k} seed {seed}')

        space = search.SearchSpace(n_agents=n_agents, n_iterations=n_iter, n_variables=n_vars,
                                   lower_bound=[-2.0] * n_vars, upper_bound=[3.0] * n_vars)
        opt = ihs.IHS(hyperparams=dict(hyper))
        fn = function.Function(pointer=obj)

        seen = []

        def hook(optimizer, sp, f):
            # What a pre-evaluation hook observes on the optimizer
            for name in ('HMCR', 'PAR', 'bw', 'PAR_min', 'PAR_max', 'bw_min', 'bw_max'):
                v = getattr(optimizer, name)
                seen.append(type(v).__name__)
                put(v)
            for agent in sp.agents:
                put(agent.position)

        for store_best_only in (False, True):
            try:
                history = opt.run(space, fn, store_best_only=store_best_only, pre_evaluation_hook=hook)
                put(len(history.best_agent))
                for pos, fit in history.best_agent:
                    put(pos)
                    put(fit)
                if not store_best_only:
                    for it in history.agents:
                        for pos, fit in it:
                            put(pos)
                            put(fit)
            except Exception as exc:  # same exception for the same input
                put(exc)

            # Parameters after the run, agents and best agent left in the space
            for name in ('HMCR', 'PAR', 'bw', 'PAR_min', 'PAR_max', 'bw_min', 'bw_max'):
                put(getattr(opt, name))
            put(sorted(vars(opt).keys()).__repr__())
            for agent in space.agents:
                put(agent.position)
                put(agent.fit)
            put(space.best_agent.position)
            put(space.best_agent.fit)

        put(','.join(seen))
        # The random stream was consumed identically
        put(np.random.uniform(size=4))

# Run without a hook as well
np.random.seed(77)
space = search.SearchSpace(n_agents=4, n_iterations=8, n_variables=2,
                           lower_bound=[-1.0, -1.0], upper_bound=[1.0, 1.0])
opt = ihs.IHS(hyperparams={'PAR_min': 0.2, 'PAR_max': 0.8, 'bw_min': 0.1, 'bw_max': 0.9})
history = opt.run(space, function.Function(pointer=sphere))
for pos, fit in history.best_agent:
    put(pos)
    put(fit)
put(opt.PAR)
put(opt.bw)
put(np.random.uniform(size=4))

print(H.hexdigest())
