"""Digest of ABC._evaluate_location / _send_* / _update / run on seeded inputs."""
import hashlib
import logging
import warnings

import numpy as np

logging.disable(logging.CRITICAL)
warnings.simplefilter('ignore')

from opytimizer.core.agent import Agent
from opytimizer.core.function import Function
from opytimizer.optimizers.abc import ABC
from opytimizer.spaces.search import SearchSpace

H = hashlib.sha256()


def put(*items):
    for it in items:
        if isinstance(it, np.ndarray):
            H.update(('A%s%s[' % (it.shape, it.dtype)).encode())
            for v in it.ravel().tolist():
                put(v)
            H.update(b']')
        elif isinstance(it, (float, np.floating)):
            H.update(('F' + type(it).__name__ + float(it).hex() + ';').encode())
        elif isinstance(it, (bool, np.bool_)):
            H.update(('B%d;' % bool(it)).encode())
        elif isinstance(it, (int, np.integer)):
            H.update(('I' + type(it).__name__ + '%d;' % int(it)).encode())
        elif isinstance(it, str):
            H.update(('S' + it + ';').encode())
        elif it is None:
            H.update(b'N;')
        else:
            raise TypeError(type(it))


def put_rng():
    st = np.random.get_state()
    put(np.asarray(st[1]), int(st[2]), int(st[3]), float(st[4]))


def put_agent(a):
    put(a.position, a.fit, a.lb, a.ub)


def sphere(x):
    return float(np.sum(x ** 2))


def np_sphere(x):
    return np.sum(x ** 2)


def shifted(x):
    return float(np.sum((x - 0.3) ** 2) + np.sum(np.abs(x)))


def nan_fn(x):
    return float('nan')


def const_fn(x):
    return 1.0


def make_agents(n, n_var, lo, hi, fn):
    agents = []
    for _ in range(n):
        a = Agent(n_variables=n_var, n_dimensions=1)
        a.lb = np.full(n_var, float(lo))
        a.ub = np.full(n_var, float(hi))
        a.position = np.random.uniform(lo, hi, (n_var, 1))
        a.fit = fn(a.position)
        agents.append(a)
    return agents


FUNCS = [('sphere', sphere), ('np_sphere', np_sphere), ('shifted', shifted),
         ('nan', nan_fn), ('const', const_fn)]

# 1. _evaluate_location directly: return value (type included), aliasing, stream
for seed in range(6):
    for name, fn in FUNCS:
        for trial in (0, 3, np.float64(2.0), np.float64(0.0), 7.5):
            np.random.seed(seed)
            agents = make_agents(3, 2, -1, 1, fn)
            f = Function(pointer=fn)
            opt = ABC()
            old_pos = agents[0].position
            nb_pos = agents[1].position.copy()
            out = opt._evaluate_location(agents[0], agents[1], f, trial)
            put(name, out, type(out).__name__)
            put(agents[0].position is old_pos)
            put(np.array_equal(agents[1].position, nb_pos))
            for a in agents:
                put_agent(a)
            put_rng()

# same agent as its own neighbour
np.random.seed(11)
agents = make_agents(1, 3, 0, 1, sphere)
out = ABC()._evaluate_location(agents[0], agents[0], Function(pointer=sphere), np.float64(4))
put(out, type(out).__name__)
put_agent(agents[0])
put_rng()

# 2. full _update and each stage, with trial counters close to the limit
for seed in range(5):
    for name, fn in FUNCS:
        if name == 'nan':
            # NaN fitness never lets an onlooker be sent: the original loops forever
            continue
        for n_agents, n_var, n_trials in ((1, 1, 1), (4, 2, 2), (7, 3, 10)):
            np.random.seed(100 + seed)
            agents = make_agents(n_agents, n_var, -5, 5, fn)
            trials = np.floor(np.random.uniform(0, n_trials + 2, n_agents))
            f = Function(pointer=fn)
            opt = ABC(hyperparams={'n_trials': n_trials})
            orig = list(agents)
            for _ in range(4):
                opt._update(agents, f, trials)
                put(trials)
                for a in agents:
                    put_agent(a)
                put(*[a is b for a, b in zip(agents, orig)])
                put_rng()

# 3. run() through a SearchSpace
for seed in range(4):
    for name, fn in FUNCS[:3]:
        np.random.seed(200 + seed)
        space = SearchSpace(n_agents=5, n_variables=3, n_iterations=12,
                            lower_bound=[-3, -2, -1], upper_bound=[3, 2, 1])
        hist = ABC(hyperparams={'n_trials': 2}).run(space, Function(pointer=fn))
        for a in space.agents:
            put_agent(a)
        put_agent(space.best_agent)
        for it in hist.best_agent:
            put(np.asarray(it[0]), it[1])
        put_rng()

# 4. exceptions
def bad(x):
    raise KeyError('boom')

for trial in (0, 'x', None):
    for fn in (sphere, bad):
        np.random.seed(5)
        agents = make_agents(2, 2, 0, 1, sphere)
        try:
            out = ABC()._evaluate_location(agents[0], agents[1], Function(pointer=fn), trial)
            put('ok', out)
        except Exception as ex:  # noqa
            put('EXC', type(ex).__name__)
        for a in agents:
            put_agent(a)
        put_rng()

np.random.seed(6)
agents = make_agents(2, 2, 0, 1, sphere)
agents[0].fit = None
try:
    ABC()._evaluate_location(agents[0], agents[1], Function(pointer=sphere), 1)
    put('ok')
except Exception as ex:  # noqa
    put('EXC', type(ex).__name__)
put(agents[0].position)
put_rng()

try:
    ABC()._update([], Function(pointer=sphere), np.zeros(0))
    put('ok')
except Exception as ex:  # noqa
    put('EXC', type(ex).__name__)

print(H.hexdigest())
